// Reference-engine server: one JSON request per line on stdin, one JSON reply per line on stdout.
// {id, mode:"script", src, timeout?}  -> {id, ok: <string result of last expression>, log:[...]} | {id, err:<class>, log, thrown?}
'use strict';
const vm = require('vm');
const readline = require('readline');

function fmtArg(x) {
  if (typeof x === 'string') return x;
  try { return String(x); } catch (e) { return '<unprintable>'; }
}

function errClass(e, ctx) {
  // built-in error objects from inside the context: use constructor name
  try {
    if (e !== null && (typeof e === 'object' || typeof e === 'function')) {
      const isErr = vm.runInContext('(function(e){ return e instanceof Error; })', ctx)(e);
      if (isErr) {
        const n = e.name;
        return typeof n === 'string' ? n : 'Error';
      }
      // host-realm errors (e.g. stack overflow RangeError, vm timeouts)
      if (e instanceof Error) {
        if (e.code === 'ERR_SCRIPT_EXECUTION_TIMEOUT') return '__TIMEOUT__';
        return e.name;
      }
    }
  } catch (_) {}
  return null;
}

function runScript(req) {
  const log = [];
  const sandbox = {
    console: {
      log: (...a) => { if (log.length < 5000) log.push(a.map(fmtArg).join(' ')); },
    },
  };
  sandbox.console.error = sandbox.console.log;
  sandbox.console.warn = sandbox.console.log;
  sandbox.console.info = sandbox.console.log;
  const ctx = vm.createContext(sandbox);
  try {
    // no vm timeout by default: it costs ~20 ms per run (watchdog thread). Generated programs terminate by
    // construction and tsrun runs first under a step budget; a hang is caught by the supervisor watchdog.
    const r = req.timeout ? vm.runInContext('"use strict";\n' + req.src, ctx, { timeout: req.timeout }) : vm.runInContext('"use strict";\n' + req.src, ctx);
    let s;
    if (typeof r === 'string') s = r; else s = '<non-string:' + typeof r + '>';
    return { ok: s, log };
  } catch (e) {
    const cls = errClass(e, ctx);
    if (cls === '__TIMEOUT__') return { timeout: true, log };
    if (cls !== null) return { err: cls, log };
    let shown;
    try { shown = vm.runInContext('typeof __show === "function" ? __show : String', ctx)(e); } catch (_) { shown = '<unshowable>'; }
    return { err: 'throw:' + shown, log };
  }
}

const rl = readline.createInterface({ input: process.stdin, terminal: false });
rl.on('line', (line) => {
  if (!line.trim()) return;
  let req;
  try { req = JSON.parse(line); } catch (e) { process.stdout.write(JSON.stringify({ bad: true }) + '\n'); return; }
  let out;
  try {
    if (req.mode === 'script') out = runScript(req);
    else out = { bad: 'mode' };
  } catch (e) {
    out = { harness_error: String(e) };
  }
  out.id = req.id;
  process.stdout.write(JSON.stringify(out) + '\n');
});
