pub mod core;
pub mod engine;
pub mod findings;
pub mod node;
pub mod progen;
pub mod props;
pub mod tape;
