//! known_findings.json (never written at run time), gates, and the regress/known-finding replay tier.

use crate::core::{run_case_subprocess, verif_root, Property, Tier};
use serde_json::{json, Map, Value};
use std::collections::BTreeSet;
use std::path::PathBuf;

#[derive(Clone, Debug, Default)]
pub struct Gates {
    open: BTreeSet<String>,
}

impl Gates {
    pub fn load() -> Gates {
        let mut g = Gates::default();
        if std::env::var("VERIF_NO_GATES").is_ok() {
            return g;
        }
        for f in load_findings() {
            if f["status"].as_str() == Some("open") {
                if let Some(gs) = f["gates"].as_array() {
                    for x in gs {
                        if let Some(s) = x.as_str() {
                            g.open.insert(s.to_string());
                        }
                    }
                }
                if let Some(s) = f["gate"].as_str() {
                    g.open.insert(s.to_string());
                }
            }
        }
        g
    }
    /// true when an open known finding excludes this production by construction
    pub fn excluded(&self, gate: &str) -> bool {
        self.open.contains(gate)
    }
    pub fn none() -> Gates {
        Gates::default()
    }
    /// only the gates whose name starts with `prefix` (properties that reuse progen's clean-profile
    /// mechanism for their own findings)
    pub fn only_prefixed(&self, prefix: &str) -> Gates {
        Gates { open: self.open.iter().filter(|g| g.starts_with(prefix)).cloned().collect() }
    }
}

pub fn load_findings() -> Vec<Value> {
    let p = verif_root().join("known_findings.json");
    match std::fs::read_to_string(&p).ok().and_then(|s| serde_json::from_str::<Value>(&s).ok()) {
        Some(Value::Array(a)) => a,
        _ => vec![],
    }
}

/// Replays /verif/regress/<ID>/*.json. Files referenced by an *open* finding must still fail with the
/// recorded signature (=> KNOWN-FINDING line); every other file must pass (else VIOLATION).
pub fn run_regress(
    prop: &dyn Property,
    tier: Tier,
    watchdog_s: u64,
    violations: &mut Vec<(PathBuf, String)>,
    known_lines: &mut Vec<String>,
    summary: &mut Map<String, Value>,
    infra: &mut Vec<String>,
) {
    let id = prop.id();
    let dir = verif_root().join("regress").join(id);
    let mut files: Vec<PathBuf> = match std::fs::read_dir(&dir) {
        Ok(rd) => rd.flatten().map(|e| e.path()).filter(|p| p.extension().map(|e| e == "json").unwrap_or(false)).collect(),
        Err(_) => vec![],
    };
    files.sort();
    let findings = load_findings();
    // map repro path -> finding
    let mut by_repro: std::collections::BTreeMap<String, Value> = Default::default();
    for f in &findings {
        if f["property"].as_str() == Some(id) {
            if let Some(r) = f["repro"].as_str() {
                by_repro.insert(r.to_string(), f.clone());
            }
        }
    }
    let results: std::sync::Mutex<Vec<(usize, String, Option<Value>)>> = std::sync::Mutex::new(vec![]);
    let next = std::sync::atomic::AtomicUsize::new(0);
    std::thread::scope(|s| {
        for _ in 0..16.min(files.len().max(1)) {
            s.spawn(|| loop {
                let k = next.fetch_add(1, std::sync::atomic::Ordering::SeqCst);
                let Some(p) = files.get(k) else { break };
                let v: Option<Value> = std::fs::read_to_string(p).ok().and_then(|s| serde_json::from_str(&s).ok());
                let Some(v) = v else {
                    results.lock().unwrap().push((k, "infra: unreadable".into(), None));
                    continue;
                };
                let case = v.get("case").cloned().unwrap_or(Value::Null);
                let (end, res) = run_case_subprocess(id, &case, tier, watchdog_s);
                results.lock().unwrap().push((k, end, res));
            });
        }
    });
    let mut results = results.into_inner().unwrap();
    results.sort_by_key(|r| r.0);
    let (mut n_pass, mut n_known, mut n_notrepro) = (0u64, 0u64, 0u64);
    let mut not_reproducing: Vec<String> = vec![];
    for (k, end, res) in results {
        let path = &files[k];
        let rel = format!("regress/{}/{}", id, path.file_name().and_then(|s| s.to_str()).unwrap_or(""));
        let file_v: Value = std::fs::read_to_string(path).ok().and_then(|s| serde_json::from_str(&s).ok()).unwrap_or(Value::Null);
        let verdict = res.as_ref().and_then(|r| r["verdict"].as_str()).unwrap_or("").to_string();
        let signature = if end.starts_with("died") {
            format!("crash: {}", end)
        } else {
            res.as_ref().and_then(|r| r["signature"].as_str()).unwrap_or("").to_string()
        };
        let failed = end.starts_with("died") || verdict == "fail";
        if end.starts_with("infra") || end == "timeout" {
            infra.push(format!("regress {} ended {}", rel, end));
            continue;
        }
        let finding = by_repro.get(&rel);
        let open = finding.map(|f| f["status"].as_str() == Some("open")).unwrap_or(false);
        if open {
            let f = finding.unwrap();
            let want = f["signature_contains"].as_str().unwrap_or("");
            if failed {
                if want.is_empty() || signature.contains(want) {
                    n_known += 1;
                    known_lines.push(format!(
                        "KNOWN-FINDING: property={} {} [{}] {}",
                        id,
                        f["id"].as_str().unwrap_or(""),
                        rel,
                        f["what"].as_str().unwrap_or("")
                    ));
                } else {
                    violations.push((
                        path.clone(),
                        format!("known-finding repro fails with a DIFFERENT signature: got `{}`, listed `{}`", signature, want),
                    ));
                }
            } else {
                n_notrepro += 1;
                not_reproducing.push(f["id"].as_str().unwrap_or("").to_string());
            }
        } else {
            let expect_fail = file_v["expect"].as_str() == Some("fail");
            if expect_fail {
                // sensitivity pins (must-fail cases that do not correspond to a finding) are not used.
                infra.push(format!("regress {} expects failure but is not referenced by an open finding", rel));
            } else if failed {
                let msg = res.as_ref().and_then(|r| r["message"].as_str()).unwrap_or("").to_string();
                violations.push((path.clone(), format!("pinned regression fails: {} {}", signature, msg.chars().take(200).collect::<String>())));
            } else {
                n_pass += 1;
            }
        }
    }
    summary.insert("files".into(), json!(files.len()));
    summary.insert("passing_regressions".into(), json!(n_pass));
    summary.insert("known_findings_reproducing".into(), json!(n_known));
    summary.insert("known_findings_not_reproducing".into(), json!(not_reproducing));
    let _ = n_notrepro;
}
