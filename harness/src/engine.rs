//! Drivers for the system under test: run programs through the public Rust API with console
//! capture, step budgets, GC schedules and a scripted host (orders, modules).

use crate::core::guarded;
use serde_json::{json, Value};
use std::cell::RefCell;
use std::collections::BTreeMap;
use std::rc::Rc;
use tsrun::platform::{ConsoleLevel, ConsoleProvider, RandomProvider, TimeProvider};
use tsrun::{Interpreter, JsError, JsValue, ModulePath, RuntimeValue, StepResult};

pub struct Cap(pub Rc<RefCell<Vec<String>>>);
impl ConsoleProvider for Cap {
    fn write(&self, _l: ConsoleLevel, m: &str) {
        let mut v = self.0.borrow_mut();
        if v.len() < 20000 {
            v.push(m.to_string());
        }
    }
}

pub struct FixedTime(pub i64);
impl TimeProvider for FixedTime {
    fn now_millis(&self) -> i64 {
        self.0
    }
    fn elapsed_millis(&self, _start: u64) -> u64 {
        0
    }
    fn start_timer(&self) -> u64 {
        0
    }
}
pub struct FixedRandom(pub u64);
impl RandomProvider for FixedRandom {
    fn random(&mut self) -> f64 {
        self.0 = crate::tape::splitmix64(self.0);
        (self.0 >> 11) as f64 / (1u64 << 53) as f64
    }
}

/// Error class as the property texts use it: the constructor name for built-in errors.
pub fn error_class(e: &JsError) -> String {
    match e {
        JsError::SyntaxError { .. } => "SyntaxError".into(),
        JsError::TypeError { message, .. } => {
            if message.starts_with("Internal error") {
                format!("InternalError({})", message)
            } else {
                "TypeError".into()
            }
        }
        JsError::ReferenceError { .. } => "ReferenceError".into(),
        JsError::RangeError { .. } => "RangeError".into(),
        JsError::RuntimeError { kind, .. } => kind.clone(),
        JsError::ModuleError { .. } => "ModuleError".into(),
        JsError::Internal(m) => format!("Internal({})", m),
        other => format!("Other({})", other),
    }
}

/// Canonical rendering of a completion value without going through tsrun's number printer.
pub fn render_value(v: &RuntimeValue) -> String {
    render_js(v.value())
}

pub fn fmt_f64(n: f64) -> String {
    if n.is_nan() {
        "NaN".into()
    } else if n == 0.0 && n.is_sign_negative() {
        "-0".into()
    } else if n.is_infinite() {
        if n > 0.0 { "Infinity".into() } else { "-Infinity".into() }
    } else {
        format!("{:?}", n)
    }
}

pub fn render_js(v: &JsValue) -> String {
    match v {
        JsValue::Undefined => "undefined".into(),
        JsValue::Null => "null".into(),
        JsValue::Boolean(b) => format!("{}", b),
        JsValue::Number(n) => format!("num:{}", fmt_f64(*n)),
        JsValue::String(s) => format!("str:{}", s.as_str()),
        JsValue::Symbol(_) => "symbol".into(),
        JsValue::Object(_) => match guarded(|| tsrun::js_value_to_json(v)) {
            Ok(Ok(j)) => format!("json:{}", canonical_json(&j)),
            Ok(Err(e)) => format!("object(unserialisable:{})", error_class(&e)),
            Err(p) => format!("object(PANIC:{})", p),
        },
    }
}

/// JSON text with object keys sorted (serde_json's default map is a BTreeMap => already sorted).
pub fn canonical_json(v: &Value) -> String {
    v.to_string()
}

#[derive(Clone, Debug, Default)]
pub struct Outcome {
    /// "complete:<rendered>" | "error:<class>" | "needimports:[..]" | "suspended" | "done" | "budget" | "panic:<sig>"
    pub end: String,
    pub err_text: String,
    pub log: Vec<String>,
    pub steps: u64,
    /// non-Continue results in order (kinds with payload summaries)
    pub trace: Vec<String>,
    pub stale: Vec<String>,
    pub collections: u64,
    pub swept: u64,
    pub max_reentry: u32,
}

impl Outcome {
    pub fn to_json(&self) -> Value {
        json!({"end": self.end, "err_text": self.err_text, "log": self.log, "steps": self.steps, "trace": self.trace,
               "stale": self.stale, "collections": self.collections, "swept": self.swept})
    }
    /// (end, log) — the program-visible part
    pub fn visible(&self) -> (String, Vec<String>) {
        (self.end.clone(), self.log.clone())
    }
}

#[derive(Clone, Debug)]
pub struct RunOpts {
    /// None = leave default
    pub gc_threshold: Option<usize>,
    /// call collect() after every k-th step (0 = never)
    pub collect_every: u64,
    pub step_budget: u64,
    /// armed H3 limit on VM instructions per host step (0 = unarmed)
    pub vm_limit_per_step: u64,
    pub module_path: Option<String>,
    /// use eval() instead of prepare()
    pub use_eval: bool,
}
impl Default for RunOpts {
    fn default() -> Self {
        RunOpts {
            gc_threshold: None,
            collect_every: 0,
            step_budget: 3_000_000,
            vm_limit_per_step: 5_000_000,
            module_path: None,
            use_eval: false,
        }
    }
}

pub fn reset_hooks() {
    let _ = tsrun::verif_hooks::take_stale();
    tsrun::verif_hooks::vm_instr_reset();
    tsrun::verif_hooks::vm_instr_set_limit(0);
    tsrun::verif_hooks::reentry_reset();
    tsrun::verif_hooks::reentry_set_limit(0);
    tsrun::verif_hooks::parser_work_reset();
    tsrun::verif_hooks::parser_work_set_limit(0);
}

pub fn new_interp(log: &Rc<RefCell<Vec<String>>>) -> Interpreter {
    let mut interp = Interpreter::new();
    interp.set_console(Box::new(Cap(log.clone())));
    interp.set_time_provider(Box::new(FixedTime(1_700_000_000_000)));
    interp.set_random_provider(Box::new(FixedRandom(42)));
    interp
}

pub fn describe_step(r: &StepResult) -> String {
    match r {
        StepResult::Continue => "continue".into(),
        StepResult::Complete(v) => format!("complete:{}", render_value(v)),
        StepResult::Done => "done".into(),
        StepResult::NeedImports(reqs) => {
            let v: Vec<String> = reqs
                .iter()
                .map(|r| format!("{}=>{}<-{}", r.specifier, r.resolved_path.as_str(), r.importer.as_ref().map(|p| p.as_str().to_string()).unwrap_or("-".into())))
                .collect();
            format!("needimports:[{}]", v.join(","))
        }
        StepResult::Suspended { pending, cancelled } => {
            let p: Vec<String> = pending.iter().map(|o| format!("{}:{}", o.id.0, render_value(&o.payload))).collect();
            let c: Vec<String> = cancelled.iter().map(|o| o.0.to_string()).collect();
            format!("suspended:pending[{}]cancelled[{}]", p.join(","), c.join(","))
        }
    }
}

/// Run a script/module that needs no host interaction. Any NeedImports/Suspended ends the run.
pub fn run_simple(src: &str, opts: &RunOpts) -> Outcome {
    let log = Rc::new(RefCell::new(Vec::new()));
    let mut out = Outcome::default();
    reset_hooks();
    let c0 = tsrun::verif_hooks::collections();
    let s0 = tsrun::verif_hooks::swept();
    let r = guarded(|| {
        let mut interp = new_interp(&log);
        if let Some(t) = opts.gc_threshold {
            interp.set_gc_threshold(t);
        }
        let res = drive(&mut interp, src, opts, &mut |_i, _r| HostAction::Stop);
        drop(interp);
        res
    });
    tsrun::verif_hooks::vm_instr_set_limit(0);
    match r {
        Ok((end, err_text, steps, trace)) => {
            out.end = end;
            out.err_text = err_text;
            out.steps = steps;
            out.trace = trace;
        }
        Err(p) => {
            if p.contains("verif: vm work limit") {
                out.end = "budget".into();
            } else {
                out.end = format!("panic:{}", p);
            }
        }
    }
    out.log = log.borrow().clone();
    out.stale = tsrun::verif_hooks::take_stale().into_iter().map(|(k, v)| format!("{}x {}", v, k)).collect();
    out.collections = tsrun::verif_hooks::collections() - c0;
    out.swept = tsrun::verif_hooks::swept() - s0;
    out.max_reentry = tsrun::verif_hooks::reentry_max();
    out
}

pub enum HostAction {
    /// keep stepping (after the callback provided modules / fulfilled orders)
    Resume,
    /// end the run here
    Stop,
}

/// prepare (or eval) + step loop. `host` is called for every NeedImports / Suspended result.
/// Returns (end, err_text, steps, trace)
pub fn drive(
    interp: &mut Interpreter,
    src: &str,
    opts: &RunOpts,
    host: &mut dyn FnMut(&mut Interpreter, &StepResult) -> HostAction,
) -> (String, String, u64, Vec<String>) {
    let mut steps: u64 = 0;
    let mut trace: Vec<String> = Vec::new();
    let path = opts.module_path.as_ref().map(|p| ModulePath::new(p.clone()));
    tsrun::verif_hooks::vm_instr_reset();
    tsrun::verif_hooks::vm_instr_set_limit(if opts.use_eval { opts.vm_limit_per_step.saturating_mul(50) } else { opts.vm_limit_per_step });
    let first = if opts.use_eval { interp.eval(src, path) } else { interp.prepare(src, path) };
    let mut res = match first {
        Ok(r) => r,
        Err(e) => {
            let c = error_class(&e);
            trace.push(format!("error:{}", c));
            return (format!("error:{}", c), e.to_string(), steps, trace);
        }
    };
    loop {
        match &res {
            StepResult::Continue => {}
            StepResult::Complete(_) | StepResult::Done => {
                let d = describe_step(&res);
                trace.push(d.clone());
                return (d, String::new(), steps, trace);
            }
            StepResult::NeedImports(_) | StepResult::Suspended { .. } => {
                let d = describe_step(&res);
                trace.push(d.clone());
                match host(interp, &res) {
                    HostAction::Resume => {}
                    HostAction::Stop => return (d, String::new(), steps, trace),
                }
            }
        }
        steps += 1;
        if steps > opts.step_budget {
            return ("budget".into(), String::new(), steps, trace);
        }
        if opts.collect_every != 0 && steps % opts.collect_every == 0 {
            interp.collect();
        }
        tsrun::verif_hooks::vm_instr_reset();
        res = match interp.step() {
            Ok(r) => r,
            Err(e) => {
                let c = error_class(&e);
                trace.push(format!("error:{}", c));
                return (format!("error:{}", c), e.to_string(), steps, trace);
            }
        };
    }
}

/// Convenience for module graphs: sources by resolved path; supplies every request at once.
pub fn host_modules_all(mods: BTreeMap<String, String>) -> impl FnMut(&mut Interpreter, &StepResult) -> HostAction {
    move |interp, r| match r {
        StepResult::NeedImports(reqs) => {
            for q in reqs {
                match mods.get(q.resolved_path.as_str()) {
                    Some(src) => {
                        if interp.provide_module(q.resolved_path.clone(), src).is_err() {
                            return HostAction::Stop;
                        }
                    }
                    None => return HostAction::Stop,
                }
            }
            HostAction::Resume
        }
        _ => HostAction::Stop,
    }
}

pub fn js_str(v: &JsValue) -> Option<String> {
    match v {
        JsValue::String(s) => Some(s.as_str().to_string()),
        _ => None,
    }
}
