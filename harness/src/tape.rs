//! Choice tape: every generator decision is read from a `&[u32]`.
//! A decision among k alternatives is `(x * k) >> 32` (monotone: smaller tape values select
//! earlier = simpler alternatives); past the end the tape yields 0.

#[derive(Clone, Debug)]
pub struct Tape<'a> {
    data: &'a [u32],
    pos: usize,
}

impl<'a> Tape<'a> {
    pub fn new(data: &'a [u32]) -> Self {
        Tape { data, pos: 0 }
    }
    pub fn pos(&self) -> usize {
        self.pos
    }
    pub fn exhausted(&self) -> bool {
        self.pos >= self.data.len()
    }
    #[inline]
    pub fn raw(&mut self) -> u32 {
        let v = self.data.get(self.pos).copied().unwrap_or(0);
        self.pos += 1;
        v
    }
    /// uniform-ish in 0..k (k >= 1); 0 when the tape is exhausted.
    #[inline]
    pub fn below(&mut self, k: usize) -> usize {
        if k <= 1 {
            // still consume nothing: a forced choice costs no tape
            return 0;
        }
        ((self.raw() as u64 * k as u64) >> 32) as usize
    }
    /// inclusive range lo..=hi
    #[inline]
    pub fn range(&mut self, lo: i64, hi: i64) -> i64 {
        if hi <= lo {
            return lo;
        }
        lo + self.below((hi - lo + 1) as usize) as i64
    }
    /// true with probability num/den (false when exhausted)
    #[inline]
    pub fn chance(&mut self, num: u32, den: u32) -> bool {
        let v = self.raw() as u64;
        // smaller values => false (simpler), so "true" needs a high draw
        v * den as u64 >= ((den - num.min(den)) as u64) << 32
    }
    pub fn pick<'b, T>(&mut self, xs: &'b [T]) -> &'b T {
        let i = self.below(xs.len());
        &xs[i.min(xs.len().saturating_sub(1))]
    }
    /// weighted choice; returns index. Weights must not all be zero.
    pub fn weighted(&mut self, ws: &[u32]) -> usize {
        let total: u64 = ws.iter().map(|w| *w as u64).sum();
        if total == 0 {
            return 0;
        }
        let mut x = (self.raw() as u64 * total) >> 32;
        for (i, w) in ws.iter().enumerate() {
            if x < *w as u64 {
                return i;
            }
            x -= *w as u64;
        }
        ws.len() - 1
    }
    pub fn u64(&mut self) -> u64 {
        ((self.raw() as u64) << 32) | self.raw() as u64
    }
}

/// splitmix64, used only to derive per-shard seeds from VERIF_SEED (not inside properties).
pub fn splitmix64(mut x: u64) -> u64 {
    x = x.wrapping_add(0x9E3779B97F4A7C15);
    let mut z = x;
    z = (z ^ (z >> 30)).wrapping_mul(0xBF58476D1CE4E5B9);
    z = (z ^ (z >> 27)).wrapping_mul(0x94D049BB133111EB);
    z ^ (z >> 31)
}

pub fn fnv64(bytes: &[u8]) -> u64 {
    let mut h: u64 = 0xcbf29ce484222325;
    for b in bytes {
        h ^= *b as u64;
        h = h.wrapping_mul(0x100000001b3);
    }
    h
}
