//! Shared machinery: Property trait, worker loop (proptest choice tape), supervisor
//! (shards, journals, crash recovery), regress/known-finding replays, evidence writer.

use crate::tape::{fnv64, splitmix64, Tape};
use proptest::strategy::{Strategy, ValueTree};
use proptest::test_runner::{Config, RngAlgorithm, RngSeed, TestRunner};
use serde_json::{json, Map, Value};
use std::collections::{BTreeMap, BTreeSet};
use std::io::Write;
use std::path::{Path, PathBuf};
use std::time::Instant;

#[derive(Clone, Copy, Debug, PartialEq, Eq)]
pub enum Tier {
    Quick,
    Thorough,
}
impl Tier {
    pub fn name(self) -> &'static str {
        match self {
            Tier::Quick => "quick",
            Tier::Thorough => "thorough",
        }
    }
    pub fn pick<T>(self, q: T, t: T) -> T {
        match self {
            Tier::Quick => q,
            Tier::Thorough => t,
        }
    }
}

#[derive(Clone, Debug)]
pub enum Verdict {
    Pass,
    Fail(String),
    Discard(String),
}

#[derive(Clone, Debug)]
pub struct Exec {
    pub verdict: Verdict,
    /// number of evaluations this case stands for (1 unless the case is an enumerated block)
    pub evals: u64,
    /// number of non-trivial evaluations among them (0/1 for single cases)
    pub nontrivial: u64,
    pub tags: Vec<String>,
    pub counters: Vec<(String, u64)>,
    pub observed: Value,
    /// short root-cause signature for failures (panic message + frame, oracle name, ...)
    pub signature: String,
    /// for enumerated blocks: the minimal self-contained case that fails (becomes the replay case)
    pub repro: Option<Value>,
}
impl Exec {
    pub fn pass(nontrivial: bool) -> Exec {
        Exec {
            verdict: Verdict::Pass,
            evals: 1,
            nontrivial: nontrivial as u64,
            tags: vec![],
            counters: vec![],
            observed: Value::Null,
            signature: String::new(),
            repro: None,
        }
    }
    pub fn fail(sig: impl Into<String>, msg: impl Into<String>) -> Exec {
        Exec {
            verdict: Verdict::Fail(msg.into()),
            evals: 1,
            nontrivial: 1,
            tags: vec![],
            counters: vec![],
            observed: Value::Null,
            signature: sig.into(),
            repro: None,
        }
    }
    pub fn discard(why: impl Into<String>) -> Exec {
        Exec {
            verdict: Verdict::Discard(why.into()),
            evals: 1,
            nontrivial: 0,
            tags: vec![],
            counters: vec![],
            observed: Value::Null,
            signature: String::new(),
            repro: None,
        }
    }
    pub fn with_observed(mut self, v: Value) -> Exec {
        self.observed = v;
        self
    }
    pub fn with_tags(mut self, t: Vec<String>) -> Exec {
        self.tags = t;
        self
    }
    pub fn count(mut self, k: &str, n: u64) -> Exec {
        self.counters.push((k.to_string(), n));
        self
    }
    pub fn is_fail(&self) -> bool {
        matches!(self.verdict, Verdict::Fail(_))
    }
}

#[derive(Clone, Debug)]
pub struct Plan {
    pub shards: usize,
    pub cases_per_shard: u32,
    pub tape_len: usize,
    /// per-worker watchdog in seconds (expiry = inconclusive, exit 2; never a violation)
    pub watchdog_s: u64,
}

pub struct Ctx {
    pub tier: Tier,
    pub seed: u64,
    pub shard: usize,
    pub nshards: usize,
    pub replay: bool,
    pub gates: crate::findings::Gates,
    pub node: crate::node::NodeSlot,
}

pub trait Property: Sync {
    fn id(&self) -> &'static str;
    fn level(&self) -> &'static str {
        "exploration"
    }
    fn rule(&self) -> String;
    fn assumptions(&self) -> Vec<String>;
    fn plan(&self, tier: Tier) -> Plan;
    /// Enumerated (non-random) cases for this shard; run before the generated ones.
    fn fixed_cases(&self, _ctx: &Ctx) -> Vec<Value> {
        vec![]
    }
    /// true when fixed_cases over all shards enumerate a finite sub-space completely
    fn exhaustive_part(&self, _tier: Tier) -> Option<String> {
        None
    }
    /// Render a self-contained case from the tape (never executes the system under test).
    fn generate(&self, tape: &mut Tape, ctx: &Ctx) -> Value;
    /// Execute a rendered case against the system under test and the oracle.
    fn execute(&self, case: &Value, ctx: &mut Ctx) -> Exec;
    /// Failure signatures that are tolerated in campaigns (byte-level targets only); see DESIGN §7.
    fn tolerated_signature(&self, _sig: &str, _ctx: &Ctx) -> bool {
        false
    }
}

// ---------------------------------------------------------------------------------------------
// paths
// ---------------------------------------------------------------------------------------------
pub fn verif_root() -> PathBuf {
    if let Ok(p) = std::env::var("VERIF_ROOT") {
        return PathBuf::from(p);
    }
    // binary lives in <root>/target/release/verif
    if let Ok(exe) = std::env::current_exe() {
        if let Some(root) = exe.parent().and_then(|p| p.parent()).and_then(|p| p.parent()) {
            if root.join("MANIFEST.json").exists() || root.join("harness").exists() {
                return root.to_path_buf();
            }
        }
    }
    PathBuf::from("/verif")
}

fn scratch_dir(id: &str) -> PathBuf {
    let d = verif_root().join("target").join("work").join(id);
    let _ = std::fs::create_dir_all(&d);
    d
}

// ---------------------------------------------------------------------------------------------
// panic capture
// ---------------------------------------------------------------------------------------------
thread_local! {
    static LAST_PANIC: std::cell::RefCell<Option<String>> = const { std::cell::RefCell::new(None) };
}

pub fn install_panic_hook() {
    std::panic::set_hook(Box::new(|info| {
        let msg = if let Some(s) = info.payload().downcast_ref::<&str>() {
            s.to_string()
        } else if let Some(s) = info.payload().downcast_ref::<String>() {
            s.clone()
        } else {
            "<non-string panic>".to_string()
        };
        // innermost frame whose symbol mentions tsrun:: (function name, not line)
        let bt = std::backtrace::Backtrace::force_capture().to_string();
        let mut frame = String::new();
        for line in bt.lines() {
            let l = line.trim();
            if let Some(idx) = l.find("tsrun::") {
                let f = &l[idx..];
                if f.contains("verif_hooks") {
                    continue;
                }
                frame = f.to_string();
                break;
            }
        }
        let loc = info
            .location()
            .map(|l| l.file().rsplit('/').next().unwrap_or("").to_string())
            .unwrap_or_default();
        let s = format!("panic: {} @ {} [{}]", msg, frame, loc);
        LAST_PANIC.with(|p| *p.borrow_mut() = Some(s));
    }));
}

pub fn take_last_panic() -> Option<String> {
    LAST_PANIC.with(|p| p.borrow_mut().take())
}

/// Run `f` catching panics; Err carries "panic: msg @ frame".
pub fn guarded<T>(f: impl FnOnce() -> T) -> Result<T, String> {
    let _ = take_last_panic();
    match std::panic::catch_unwind(std::panic::AssertUnwindSafe(f)) {
        Ok(v) => Ok(v),
        Err(_) => Err(take_last_panic().unwrap_or_else(|| "panic: <unknown>".to_string())),
    }
}

// ---------------------------------------------------------------------------------------------
// worker
// ---------------------------------------------------------------------------------------------
#[derive(Default)]
struct Acc {
    evals: u64,
    nontrivial_block: u64,
    hashes: BTreeSet<u64>,
    tags: BTreeMap<String, u64>,
    counters: BTreeMap<String, u64>,
    discards: BTreeMap<String, u64>,
    samples: Vec<Value>,
    tolerated: BTreeMap<String, u64>,
    violations: Vec<Value>,
}

impl Acc {
    fn record(&mut self, case: &Value, ex: &Exec, want_samples: usize) {
        self.evals += ex.evals;
        for t in &ex.tags {
            *self.tags.entry(t.clone()).or_insert(0) += 1;
        }
        for (k, n) in &ex.counters {
            *self.counters.entry(k.clone()).or_insert(0) += n;
        }
        match &ex.verdict {
            Verdict::Discard(why) => {
                *self.discards.entry(why.clone()).or_insert(0) += 1;
            }
            _ => {
                if ex.evals == 1 {
                    if ex.nontrivial > 0 {
                        let h = fnv64(case.to_string().as_bytes());
                        let fresh = self.hashes.insert(h);
                        if fresh && self.samples.len() < want_samples {
                            self.samples.push(json!({"case": clip(case), "observed": clip(&ex.observed)}));
                        }
                    }
                } else {
                    self.nontrivial_block += ex.nontrivial;
                    if self.samples.len() < want_samples {
                        self.samples.push(json!({"case": clip(case), "observed": clip(&ex.observed)}));
                    }
                }
            }
        }
    }
}

fn clip(v: &Value) -> Value {
    // keep samples readable: clip very long strings
    match v {
        Value::String(s) if s.len() > 1500 => {
            let mut cut = 1500;
            while !s.is_char_boundary(cut) {
                cut -= 1;
            }
            Value::String(format!("{}…[{} bytes]", &s[..cut], s.len()))
        }
        Value::Array(a) => {
            if a.len() > 40 {
                let mut v: Vec<Value> = a.iter().take(40).map(clip).collect();
                v.push(Value::String(format!("…[{} items]", a.len())));
                Value::Array(v)
            } else {
                Value::Array(a.iter().map(clip).collect())
            }
        }
        Value::Object(o) => Value::Object(o.iter().map(|(k, v)| (k.clone(), clip(v))).collect()),
        _ => v.clone(),
    }
}

pub struct WorkerArgs {
    pub shard: usize,
    pub nshards: usize,
    pub seed: u64,
    pub tier: Tier,
    pub out: PathBuf,
    pub journal: PathBuf,
    pub skip: u64,
    pub only_fixed_from: Option<u64>,
}

/// The journal holds only the case about to be executed (overwritten in place), which is all the
/// supervisor needs to attribute a worker death.
fn journal_write(j: &mut std::fs::File, idx: u64, case: &Value) {
    use std::io::{Seek, SeekFrom};
    let line = format!("{}\t{}\n", idx, case);
    let _ = j.seek(SeekFrom::Start(0));
    let _ = j.write_all(line.as_bytes());
    let _ = j.set_len(line.len() as u64);
}

fn execute_guarded(prop: &dyn Property, case: &Value, ctx: &mut Ctx) -> Exec {
    match guarded(|| prop.execute(case, ctx)) {
        Ok(e) => e,
        Err(p) => {
            // a panic escaping the property's own containment is a crash-class failure
            let sig = p.clone();
            Exec::fail(sig, format!("uncaught {}", p))
        }
    }
}

pub fn run_worker(prop: &dyn Property, a: WorkerArgs) -> i32 {
    install_panic_hook();
    let gates = crate::findings::Gates::load();
    let mut ctx = Ctx {
        tier: a.tier,
        seed: a.seed,
        shard: a.shard,
        nshards: a.nshards,
        replay: false,
        gates,
        node: crate::node::NodeSlot::new(),
    };
    let plan = prop.plan(a.tier);
    let mut acc = Acc::default();
    let mut journal = std::fs::OpenOptions::new()
        .create(true)
        .write(true)
        .truncate(true)
        .open(&a.journal)
        .expect("journal");
    let want_samples = if a.shard == 0 { 4 } else { 1 };
    let mut idx: u64 = 0;

    // 1. enumerated cases
    let fixed = prop.fixed_cases(&ctx);
    for case in fixed.iter() {
        if idx >= a.skip {
            journal_write(&mut journal, idx, case);
            let ex = execute_guarded(prop, case, &mut ctx);
            if ex.is_fail() {
                if prop.tolerated_signature(&ex.signature, &ctx) {
                    *acc.tolerated.entry(ex.signature.clone()).or_insert(0) += 1;
                } else {
                    acc.violations.push(violation_json(prop, case, &ex, None, a.seed, a.shard));
                }
            }
            acc.record(case, &ex, want_samples);
        }
        idx += 1;
    }

    // 2. generated cases
    let shard_seed = splitmix64(a.seed ^ splitmix64(fnv64(prop.id().as_bytes()) ^ (a.shard as u64) << 32));
    let mut seed_bytes = [0u8; 32];
    let mut s = shard_seed;
    for chunk in seed_bytes.chunks_mut(8) {
        s = splitmix64(s);
        chunk.copy_from_slice(&s.to_le_bytes());
    }
    let _ = RngSeed::Fixed(shard_seed); // (documented in DESIGN; the explicit RNG below pins the algorithm too)
    let config = Config {
        cases: plan.cases_per_shard,
        failure_persistence: None,
        max_shrink_iters: 4000,
        max_global_rejects: 0,
        rng_seed: RngSeed::Fixed(shard_seed),
        ..Config::default()
    };
    if plan.cases_per_shard > 0 {
        let rng = proptest::test_runner::TestRng::from_seed(RngAlgorithm::ChaCha, &seed_bytes);
        let mut runner = TestRunner::new_with_rng(config, rng);
        let strat = proptest::collection::vec(proptest::num::u32::ANY, 0..=plan.tape_len);
        // generate-and-run loop by hand so that journal, skip and counting are under our control
        let keep_going = std::env::var("VERIF_KEEP_GOING").is_ok();
        let mut failed: Option<(Vec<u32>, Exec)> = None;
        let mut failed_tree = None;
        for _ in 0..plan.cases_per_shard {
            let tree = match strat.new_tree(&mut runner) {
                Ok(t) => t,
                Err(_) => break,
            };
            let tape_vec = tree.current();
            let mut tape = Tape::new(&tape_vec);
            let case = match guarded(|| prop.generate(&mut tape, &ctx)) {
                Ok(c) => c,
                Err(p) => {
                    eprintln!("INFRA-ERROR generator panic: {}", p);
                    return 2;
                }
            };
            if idx >= a.skip {
                journal_write(&mut journal, idx, &case);
                let ex = execute_guarded(prop, &case, &mut ctx);
                if ex.is_fail() {
                    if prop.tolerated_signature(&ex.signature, &ctx) {
                        *acc.tolerated.entry(ex.signature.clone()).or_insert(0) += 1;
                        acc.record(&case, &ex, want_samples);
                    } else if keep_going {
                        // triage mode (VERIF_KEEP_GOING=1): record unshrunk failures and continue
                        acc.record(&case, &ex, want_samples);
                        if acc.violations.len() < 60 {
                            acc.violations.push(violation_json(prop, &case, &ex, Some(&tape_vec), a.seed, a.shard));
                        }
                    } else {
                        acc.record(&case, &ex, want_samples);
                        failed = Some((tape_vec, ex));
                        failed_tree = Some(tree);
                        break;
                    }
                } else {
                    acc.record(&case, &ex, want_samples);
                }
            }
            idx += 1;
        }
        if let Some((tape_vec, first_ex)) = failed {
            // shrink with proptest: same strategy, the closure re-runs generate+execute
            let sig0 = first_ex.signature.clone();
            // (a) proptest's own value-tree shrinker (simplify/complicate on vec<u32>)
            let mut best = tape_vec.clone();
            if let Some(mut tree) = failed_tree.take() {
                let want = sig_class(&sig0);
                let mut iters = 0;
                if tree.simplify() {
                    loop {
                        iters += 1;
                        if iters > 1500 {
                            break;
                        }
                        let cand = tree.current();
                        let mut t = Tape::new(&cand);
                        let still = match guarded(|| prop.generate(&mut t, &ctx)) {
                            Ok(c) => {
                                let ex = execute_guarded(prop, &c, &mut ctx);
                                ex.is_fail() && sig_class(&ex.signature) == want
                            }
                            Err(_) => false,
                        };
                        if still {
                            best = cand;
                            if !tree.simplify() {
                                break;
                            }
                        } else if !tree.complicate() {
                            break;
                        }
                    }
                }
            }
            // (b) cheap post-pass on the tape (truncate tail, delete chunks, lower values)
            let shrunk = shrink_tape(prop, &mut ctx, &best, &sig0, plan.tape_len);
            let mut tape = Tape::new(&shrunk);
            let case = prop.generate(&mut tape, &ctx);
            journal_write(&mut journal, idx, &case);
            let ex = execute_guarded(prop, &case, &mut ctx);
            let (case, ex, tape_used) = if ex.is_fail() {
                (case, ex, shrunk)
            } else {
                // shrinking went astray (flaky?) — keep the original
                let mut t0 = Tape::new(&tape_vec);
                (prop.generate(&mut t0, &ctx), first_ex, tape_vec)
            };
            acc.violations
                .push(violation_json(prop, &case, &ex, Some(&tape_used), a.seed, a.shard));
        }
    }

    // write result
    let hashes: Vec<Value> = acc.hashes.iter().map(|h| json!(h)).collect();
    let out = json!({
        "shard": a.shard,
        "evals": acc.evals,
        "nontrivial_block": acc.nontrivial_block,
        "hashes": hashes,
        "tags": acc.tags,
        "counters": acc.counters,
        "discards": acc.discards,
        "samples": acc.samples,
        "tolerated": acc.tolerated,
        "violations": acc.violations,
        "next_index": idx,
        "node": ctx.node.status(),
    });
    std::fs::write(&a.out, out.to_string()).expect("write shard result");
    0
}

fn violation_json(
    prop: &dyn Property,
    case: &Value,
    ex: &Exec,
    tape: Option<&[u32]>,
    seed: u64,
    shard: usize,
) -> Value {
    let msg = match &ex.verdict {
        Verdict::Fail(m) => m.clone(),
        _ => String::new(),
    };
    let case = ex.repro.as_ref().unwrap_or(case);
    json!({
        "property": prop.id(),
        "kind": "campaign",
        "seed": seed,
        "shard": shard,
        "tape": tape,
        "case": case,
        "message": msg,
        "signature": ex.signature,
        "observed": ex.observed,
        "how_to_run": format!("./check {} --replay <this file>", prop.id()),
    })
}

/// Shrink a failing tape with proptest's own vec/u32 shrinker, keeping the failure signature.
fn shrink_tape(prop: &dyn Property, ctx: &mut Ctx, tape: &[u32], sig: &str, tape_len: usize) -> Vec<u32> {
    // Build a runner whose first generated value is irrelevant; we shrink from a tree built by
    // a strategy that yields exactly `tape` first: Just(tape) has no shrinking, so instead we
    // use proptest's vec strategy tree API directly on a "fixed" RNG is not possible. We thus
    // implement the same moves proptest's VecValueTree performs: delete chunks, then lower values.
    let mut cur: Vec<u32> = tape.to_vec();
    let sig_class = sig_class(sig);
    let mut budget = 600usize;
    let fails = |cand: &[u32], ctx: &mut Ctx, budget: &mut usize| -> bool {
        if *budget == 0 {
            return false;
        }
        *budget -= 1;
        let mut t = Tape::new(cand);
        let case = match guarded(|| prop.generate(&mut t, ctx)) {
            Ok(c) => c,
            Err(_) => return false,
        };
        let ex = execute_guarded(prop, &case, ctx);
        ex.is_fail() && sig_class == self::sig_class(&ex.signature)
    };
    let _ = tape_len;
    // 1. truncate tail (tape yields 0 past the end)
    let mut n = cur.len();
    while n > 0 {
        let half = n / 2;
        let cand = cur[..cur.len().saturating_sub(half.max(1))].to_vec();
        if cand.len() < cur.len() && fails(&cand, ctx, &mut budget) {
            cur = cand;
            n = cur.len();
        } else {
            n = half;
        }
        if budget == 0 {
            break;
        }
    }
    // 2. delete chunks
    let mut chunk = (cur.len() / 2).max(1);
    while chunk >= 1 && budget > 0 {
        let mut i = 0;
        let mut changed = false;
        while i + chunk <= cur.len() && budget > 0 {
            let mut cand = cur.clone();
            cand.drain(i..i + chunk);
            if fails(&cand, ctx, &mut budget) {
                cur = cand;
                changed = true;
            } else {
                i += chunk;
            }
        }
        if chunk == 1 && !changed {
            break;
        }
        if !changed {
            chunk /= 2;
        }
    }
    // 3. lower values: to 0, then halve
    let mut i = 0;
    while i < cur.len() && budget > 0 {
        if cur[i] != 0 {
            let mut cand = cur.clone();
            cand[i] = 0;
            if fails(&cand, ctx, &mut budget) {
                cur = cand;
            } else {
                let mut lo = 0u32;
                let mut hi = cur[i];
                // binary search for the smallest failing value (monotone decisions)
                for _ in 0..8 {
                    if budget == 0 || hi - lo <= 1 {
                        break;
                    }
                    let mid = lo + (hi - lo) / 2;
                    let mut cand = cur.clone();
                    cand[i] = mid;
                    if fails(&cand, ctx, &mut budget) {
                        hi = mid;
                        cur = cand;
                    } else {
                        lo = mid;
                    }
                }
            }
        }
        i += 1;
    }
    cur
}

fn sig_class(sig: &str) -> String {
    // first 60 chars, digits removed: keeps "same kind of failure" while shrinking
    sig.chars().filter(|c| !c.is_ascii_digit()).take(60).collect()
}

// ---------------------------------------------------------------------------------------------
// supervisor
// ---------------------------------------------------------------------------------------------
pub struct CheckArgs {
    pub tier: Tier,
    pub seed: u64,
    pub replay: Option<PathBuf>,
}

fn exe() -> PathBuf {
    std::env::current_exe().expect("current_exe")
}

#[derive(Debug)]
enum WorkerEnd {
    Ok,
    Died(String),
    Infra(String),
    Timeout,
}

fn spawn_worker(
    id: &str,
    shard: usize,
    nshards: usize,
    seed: u64,
    tier: Tier,
    out: &Path,
    journal: &Path,
    skip: u64,
) -> std::process::Child {
    let mut c = std::process::Command::new(exe());
    c.arg("worker")
        .arg(id)
        .arg("--shard")
        .arg(shard.to_string())
        .arg("--nshards")
        .arg(nshards.to_string())
        .arg("--seed")
        .arg(seed.to_string())
        .arg("--tier")
        .arg(tier.name())
        .arg("--out")
        .arg(out)
        .arg("--journal")
        .arg(journal)
        .arg("--skip")
        .arg(skip.to_string())
        .stdin(std::process::Stdio::null())
        .stdout(std::process::Stdio::null())
        .stderr(std::process::Stdio::piped());
    c.spawn().expect("spawn worker")
}

fn wait_child(mut child: std::process::Child, watchdog_s: u64) -> (WorkerEnd, String) {
    use std::io::Read;
    let start = Instant::now();
    let mut stderr = child.stderr.take();
    // read stderr in a thread to avoid pipe back-pressure
    let h = std::thread::spawn(move || {
        let mut s = String::new();
        if let Some(e) = stderr.as_mut() {
            let mut buf = Vec::new();
            let _ = e.read_to_end(&mut buf);
            s = String::from_utf8_lossy(&buf).to_string();
        }
        s
    });
    loop {
        match child.try_wait() {
            Ok(Some(st)) => {
                let err = h.join().unwrap_or_default();
                let tail: String = err.lines().rev().take(12).collect::<Vec<_>>().into_iter().rev().collect::<Vec<_>>().join("\n");
                use std::os::unix::process::ExitStatusExt;
                if st.success() {
                    return (WorkerEnd::Ok, tail);
                }
                if let Some(sig) = st.signal() {
                    return (WorkerEnd::Died(format!("signal {}", sig)), tail);
                }
                match st.code() {
                    Some(2) => return (WorkerEnd::Infra(tail.clone()), tail),
                    Some(c) => return (WorkerEnd::Died(format!("exit {}", c)), tail),
                    None => return (WorkerEnd::Died("unknown".into()), tail),
                }
            }
            Ok(None) => {
                if start.elapsed().as_secs() > watchdog_s {
                    let _ = child.kill();
                    let _ = child.wait();
                    return (WorkerEnd::Timeout, String::new());
                }
                std::thread::sleep(std::time::Duration::from_millis(20));
            }
            Err(e) => return (WorkerEnd::Infra(e.to_string()), String::new()),
        }
    }
}

fn last_journal_entry(journal: &Path) -> Option<(u64, Value)> {
    let s = std::fs::read_to_string(journal).ok()?;
    let line = s.lines().rev().find(|l| !l.trim().is_empty())?;
    let (i, c) = line.split_once('\t')?;
    Some((i.parse().ok()?, serde_json::from_str(c).ok()?))
}

fn write_replay(id: &str, v: &Value) -> PathBuf {
    let dir = verif_root().join("replays").join(id);
    let _ = std::fs::create_dir_all(&dir);
    let h = fnv64(v.to_string().as_bytes());
    let p = dir.join(format!("{:016x}.json", h));
    let _ = std::fs::write(&p, serde_json::to_string_pretty(v).unwrap_or_default());
    p
}

/// Run one case in a fresh sub-process; returns (ended, exec-json if it survived)
pub fn run_case_subprocess(id: &str, case: &Value, tier: Tier, watchdog_s: u64) -> (String, Option<Value>) {
    let dir = scratch_dir(id);
    let h = fnv64(case.to_string().as_bytes());
    let inp = dir.join(format!("one-{:016x}-{}.in.json", h, std::process::id()));
    let outp = dir.join(format!("one-{:016x}-{}.out.json", h, std::process::id()));
    let _ = std::fs::remove_file(&outp);
    std::fs::write(&inp, case.to_string()).expect("write case");
    let child = std::process::Command::new(exe())
        .arg("one")
        .arg(id)
        .arg("--case")
        .arg(&inp)
        .arg("--out")
        .arg(&outp)
        .arg("--tier")
        .arg(tier.name())
        .stdin(std::process::Stdio::null())
        .stdout(std::process::Stdio::null())
        .stderr(std::process::Stdio::piped())
        .spawn()
        .expect("spawn one");
    let (end, tail) = wait_child(child, watchdog_s);
    let res = std::fs::read_to_string(&outp).ok().and_then(|s| serde_json::from_str(&s).ok());
    let _ = std::fs::remove_file(&inp);
    let _ = std::fs::remove_file(&outp);
    let e = match end {
        WorkerEnd::Ok => "ok".to_string(),
        WorkerEnd::Died(s) => format!("died: {} {}", s, tail.lines().last().unwrap_or("")),
        WorkerEnd::Infra(s) => format!("infra: {}", s),
        WorkerEnd::Timeout => "timeout".to_string(),
    };
    (e, res)
}

pub fn run_one(prop: &dyn Property, case_path: &Path, out: &Path, tier: Tier) -> i32 {
    install_panic_hook();
    let gates = crate::findings::Gates::load();
    let mut ctx = Ctx { tier, seed: 0, shard: 0, nshards: 1, replay: true, gates, node: crate::node::NodeSlot::new() };
    let case: Value = match std::fs::read_to_string(case_path).ok().and_then(|s| serde_json::from_str(&s).ok()) {
        Some(v) => v,
        None => {
            eprintln!("INFRA-ERROR cannot read case {}", case_path.display());
            return 2;
        }
    };
    let ex = execute_guarded(prop, &case, &mut ctx);
    let (v, msg) = match &ex.verdict {
        Verdict::Pass => ("pass", String::new()),
        Verdict::Fail(m) => ("fail", m.clone()),
        Verdict::Discard(m) => ("discard", m.clone()),
    };
    let j = json!({"verdict": v, "message": msg, "signature": ex.signature, "observed": ex.observed,
                   "nontrivial": ex.nontrivial, "evals": ex.evals});
    let _ = std::fs::write(out, j.to_string());
    0
}

pub fn run_check(prop: &dyn Property, a: CheckArgs) -> i32 {
    let id = prop.id();
    let t0 = Instant::now();
    let plan = prop.plan(a.tier);

    // --replay: run the rendered case in a sub-process, bypassing generator and proptest
    if let Some(path) = &a.replay {
        let v: Value = match std::fs::read_to_string(path).ok().and_then(|s| serde_json::from_str(&s).ok()) {
            Some(v) => v,
            None => {
                println!("INFRA-ERROR cannot read replay file {}", path.display());
                return 2;
            }
        };
        let case = v.get("case").cloned().unwrap_or(v.clone());
        let (end, res) = run_case_subprocess(id, &case, a.tier, plan.watchdog_s);
        println!("replay end={} result={}", end, res.as_ref().map(|r| r.to_string()).unwrap_or_default());
        let failed = end.starts_with("died") || res.as_ref().and_then(|r| r["verdict"].as_str().map(|s| s == "fail")).unwrap_or(false);
        if failed {
            println!("VIOLATION property={} replay={}", id, path.display());
            return 1;
        }
        if end != "ok" {
            return 2;
        }
        return 0;
    }

    let dir = scratch_dir(id);
    // clean old shard files
    if let Ok(rd) = std::fs::read_dir(&dir) {
        for e in rd.flatten() {
            let _ = std::fs::remove_file(e.path());
        }
    }

    let mut violations: Vec<(PathBuf, String)> = Vec::new();
    let mut known_lines: Vec<String> = Vec::new();
    let mut infra: Vec<String> = Vec::new();
    let mut regress_summary = Map::new();

    // 1. pinned regressions and known findings
    crate::findings::run_regress(prop, a.tier, plan.watchdog_s, &mut violations, &mut known_lines, &mut regress_summary, &mut infra);

    // 2. campaign shards
    let nshards = plan.shards;
    let mut merged = Acc::default();
    let mut node_status: BTreeMap<String, u64> = BTreeMap::new();
    let mut inconclusive = 0u64;
    let mut crashes = 0u64;
    let par = std::thread::available_parallelism().map(|n| n.get()).unwrap_or(16).min(nshards.max(1));
    let shard_list: Vec<usize> = (0..nshards).collect();
    let results: std::sync::Mutex<Vec<(usize, Vec<Value>, Vec<String>, u64, u64)>> = std::sync::Mutex::new(Vec::new());
    let next = std::sync::atomic::AtomicUsize::new(0);
    std::thread::scope(|s| {
        for _ in 0..par {
            s.spawn(|| loop {
                let k = next.fetch_add(1, std::sync::atomic::Ordering::SeqCst);
                let Some(&shard) = shard_list.get(k) else { break };
                let mut outs: Vec<Value> = Vec::new();
                let mut notes: Vec<String> = Vec::new();
                let mut skip = 0u64;
                let mut local_crashes = 0u64;
                let mut local_inconclusive = 0u64;
                let mut attempt = 0;
                loop {
                    attempt += 1;
                    let out = dir.join(format!("shard-{}-{}.json", shard, attempt));
                    let journal = dir.join(format!("shard-{}-{}.journal", shard, attempt));
                    let _ = std::fs::remove_file(&out);
                    let _ = std::fs::remove_file(&journal);
                    let child = spawn_worker(id, shard, nshards, a.seed, a.tier, &out, &journal, skip);
                    let (end, tail) = wait_child(child, plan.watchdog_s);
                    match end {
                        WorkerEnd::Ok => {
                            if let Some(v) = std::fs::read_to_string(&out).ok().and_then(|s| serde_json::from_str::<Value>(&s).ok()) {
                                outs.push(v);
                            } else {
                                notes.push(format!("INFRA shard {} wrote no result", shard));
                            }
                            break;
                        }
                        WorkerEnd::Died(how) => {
                            // crash: the last journal entry is the culprit
                            match last_journal_entry(&journal) {
                                Some((idx, case)) => {
                                    local_crashes += 1;
                                    notes.push(format!("CRASH\t{}\t{}\t{}\t{}", idx, how, tail.lines().last().unwrap_or(""), case));
                                    skip = idx + 1;
                                    if attempt >= 6 {
                                        notes.push(format!("INFRA shard {} crashed {} times; giving up on the rest", shard, attempt));
                                        break;
                                    }
                                }
                                None => {
                                    notes.push(format!("INFRA shard {} died before any case: {} {}", shard, how, tail));
                                    break;
                                }
                            }
                        }
                        WorkerEnd::Infra(m) => {
                            notes.push(format!("INFRA shard {}: {}", shard, m));
                            break;
                        }
                        WorkerEnd::Timeout => {
                            local_inconclusive += 1;
                            notes.push(format!("TIMEOUT shard {} (watchdog {}s) last={:?}", shard, plan.watchdog_s, last_journal_entry(&journal).map(|x| x.0)));
                            break;
                        }
                    }
                }
                results.lock().unwrap().push((shard, outs, notes, local_crashes, local_inconclusive));
            });
        }
    });
    let mut results = results.into_inner().unwrap();
    results.sort_by_key(|r| r.0);
    let mut tolerated: BTreeMap<String, u64> = BTreeMap::new();
    for (_shard, outs, notes, c, inc) in results {
        crashes += c;
        inconclusive += inc;
        for n in notes {
            if let Some(rest) = n.strip_prefix("CRASH\t") {
                let parts: Vec<&str> = rest.splitn(4, '\t').collect();
                let case: Value = serde_json::from_str(parts.get(3).copied().unwrap_or("null")).unwrap_or(Value::Null);
                // confirm in a fresh process
                let (end, _res) = run_case_subprocess(id, &case, a.tier, plan.watchdog_s);
                if end.starts_with("died") {
                    let sig = format!("crash: {}", end);
                    let gates = crate::findings::Gates::load();
                    let ctx = Ctx { tier: a.tier, seed: a.seed, shard: 0, nshards: 1, replay: false, gates, node: crate::node::NodeSlot::new() };
                    if prop.tolerated_signature(&sig, &ctx) {
                        *tolerated.entry(sig).or_insert(0) += 1;
                        continue;
                    }
                    let rp = write_replay(id, &json!({"property": id, "kind": "crash", "seed": a.seed, "case": case,
                        "message": format!("worker process died while executing this case ({}); confirmed in a fresh process: {}", parts.get(1).copied().unwrap_or(""), end),
                        "signature": sig}));
                    violations.push((rp, format!("process death: {}", end)));
                } else {
                    infra.push(format!("worker died ({}) but the case did not reproduce alone (end={})", parts.get(1).copied().unwrap_or(""), end));
                }
            } else if n.starts_with("TIMEOUT") {
                infra.push(n);
            } else {
                infra.push(n);
            }
        }
        for o in outs {
            merged.evals += o["evals"].as_u64().unwrap_or(0);
            merged.nontrivial_block += o["nontrivial_block"].as_u64().unwrap_or(0);
            if let Some(hs) = o["hashes"].as_array() {
                for h in hs {
                    if let Some(h) = h.as_u64() {
                        merged.hashes.insert(h);
                    }
                }
            }
            for (field, target) in [("tags", &mut merged.tags), ("counters", &mut merged.counters), ("discards", &mut merged.discards), ("tolerated", &mut tolerated)] {
                if let Some(m) = o[field].as_object() {
                    for (k, v) in m {
                        *target.entry(k.clone()).or_insert(0) += v.as_u64().unwrap_or(0);
                    }
                }
            }
            if let Some(ss) = o["samples"].as_array() {
                for s in ss {
                    if merged.samples.len() < 6 {
                        merged.samples.push(s.clone());
                    }
                }
            }
            if let Some(vs) = o["violations"].as_array() {
                for v in vs {
                    let rp = write_replay(id, v);
                    violations.push((rp, v["message"].as_str().unwrap_or("").chars().take(300).collect()));
                }
            }
            if let Some(ns) = o["node"].as_str() {
                *node_status.entry(ns.to_string()).or_insert(0) += 1;
            }
        }
    }

    // 3. evidence
    let distinct = merged.hashes.len() as u64 + merged.nontrivial_block;
    let mut samples = merged.samples.clone();
    if samples.is_empty() {
        samples.push(json!({"note": "no non-trivial sample recorded"}));
    }
    let mut cov = Map::new();
    cov.insert("evaluations".into(), json!(merged.evals));
    cov.insert("distinct_nontrivial".into(), json!(distinct));
    cov.insert("rule".into(), json!(prop.rule()));
    cov.insert("samples".into(), Value::Array(samples));
    cov.insert("tags".into(), json!(merged.tags));
    cov.insert("counters".into(), json!(merged.counters));
    cov.insert("discarded".into(), json!(merged.discards));
    cov.insert("tolerated_listed_signatures".into(), json!(tolerated));
    cov.insert("regress".into(), Value::Object(regress_summary));
    cov.insert("known_findings_reported".into(), json!(known_lines));
    cov.insert("worker_crashes".into(), json!(crashes));
    cov.insert("inconclusive_watchdog".into(), json!(inconclusive));
    cov.insert("infra_notes".into(), json!(infra));
    cov.insert("reference_engine".into(), json!(node_status));
    cov.insert("shards".into(), json!(nshards));
    cov.insert("cases_per_shard".into(), json!(plan.cases_per_shard));
    if let Some(ex) = prop.exhaustive_part(a.tier) {
        cov.insert("exhaustive".into(), json!(true));
        cov.insert("exhaustive_part".into(), json!(ex));
    }
    let ev = json!({
        "property_id": id,
        "tier": a.tier.name(),
        "seed": a.seed,
        "level": prop.level(),
        "coverage": Value::Object(cov),
        "assumptions": prop.assumptions(),
        "wall_s": t0.elapsed().as_secs_f64(),
        "violations": violations.len(),
    });
    let evdir = verif_root().join("evidence");
    let _ = std::fs::create_dir_all(&evdir);
    let _ = std::fs::write(evdir.join(format!("{}.json", id)), serde_json::to_string_pretty(&ev).unwrap_or_default());

    for l in &known_lines {
        println!("{}", l);
    }
    println!(
        "{} tier={} seed={} evaluations={} distinct_nontrivial={} violations={} crashes={} wall={:.1}s",
        id,
        a.tier.name(),
        a.seed,
        merged.evals,
        distinct,
        violations.len(),
        crashes,
        t0.elapsed().as_secs_f64()
    );
    if !violations.is_empty() {
        // print at most 8 lines, at most 2 per message class (digits and quoted text removed)
        let mut seen: BTreeMap<String, u32> = BTreeMap::new();
        let mut printed = 0;
        for (p, m) in &violations {
            let mut class = String::new();
            let mut in_q = false;
            for c in m.chars() {
                if c == '"' { in_q = !in_q; continue; }
                if !in_q && !c.is_ascii_digit() { class.push(c); }
                if class.len() > 50 { break; }
            }
            let n = seen.entry(class).or_insert(0);
            *n += 1;
            if *n > 2 || printed >= 8 {
                continue;
            }
            printed += 1;
            println!("VIOLATION property={} replay={}", id, p.display());
            println!("  detail: {}", m.replace('\n', " "));
        }
        if violations.len() > printed {
            println!("  ({} further violations not printed; replay files are under replays/{}/)", violations.len() - printed, id);
        }
        return 1;
    }
    if !infra.is_empty() {
        for i in &infra {
            println!("INFRA-ERROR {}", i);
        }
        return 2;
    }
    0
}
