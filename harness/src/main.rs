use std::path::PathBuf;
use verif_core::core::{run_check, run_one, run_worker, CheckArgs, Tier, WorkerArgs};

fn arg_val(args: &[String], name: &str) -> Option<String> {
    args.iter().position(|a| a == name).and_then(|i| args.get(i + 1).cloned())
}

fn tier_of(args: &[String]) -> Tier {
    let t = arg_val(args, "--tier").or_else(|| std::env::var("VERIF_TIER").ok()).unwrap_or_else(|| "quick".into());
    if t == "thorough" { Tier::Thorough } else { Tier::Quick }
}

fn main() {
    let args: Vec<String> = std::env::args().collect();
    let cmd = args.get(1).map(|s| s.as_str()).unwrap_or("");
    let id = args.get(2).cloned().unwrap_or_default();
    let Some(prop) = verif_core::props::lookup(&id) else {
        if cmd == "list" {
            for p in verif_core::props::all() {
                println!("{}", p.id());
            }
            return;
        }
        eprintln!("usage: verif check|worker|one <ID> ...; unknown property `{}`", id);
        std::process::exit(2);
    };
    let code = match cmd {
        "check" => {
            let seed = std::env::var("VERIF_SEED").ok().and_then(|s| s.parse::<u64>().ok()).unwrap_or(1);
            run_check(prop, CheckArgs { tier: tier_of(&args), seed, replay: arg_val(&args, "--replay").map(PathBuf::from) })
        }
        "worker" => run_worker(
            prop,
            WorkerArgs {
                shard: arg_val(&args, "--shard").and_then(|s| s.parse().ok()).unwrap_or(0),
                nshards: arg_val(&args, "--nshards").and_then(|s| s.parse().ok()).unwrap_or(1),
                seed: arg_val(&args, "--seed").and_then(|s| s.parse().ok()).unwrap_or(1),
                tier: tier_of(&args),
                out: PathBuf::from(arg_val(&args, "--out").unwrap_or_else(|| "/dev/null".into())),
                journal: PathBuf::from(arg_val(&args, "--journal").unwrap_or_else(|| "/dev/null".into())),
                skip: arg_val(&args, "--skip").and_then(|s| s.parse().ok()).unwrap_or(0),
                only_fixed_from: None,
            },
        ),
        "one" => run_one(
            prop,
            &PathBuf::from(arg_val(&args, "--case").unwrap_or_default()),
            &PathBuf::from(arg_val(&args, "--out").unwrap_or_else(|| "/dev/stdout".into())),
            tier_of(&args),
        ),
        "gen" => {
            // inspection aid only (not used by checks): print a few generated cases
            let seed: u64 = arg_val(&args, "--seed").and_then(|s| s.parse().ok()).unwrap_or(1);
            let n: usize = arg_val(&args, "--n").and_then(|s| s.parse().ok()).unwrap_or(1);
            let len: usize = arg_val(&args, "--len").and_then(|s| s.parse().ok()).unwrap_or(400);
            let ctx = verif_core::core::Ctx { tier: tier_of(&args), seed, shard: 0, nshards: 1, replay: false, gates: verif_core::findings::Gates::load(), node: verif_core::node::NodeSlot::new() };
            let mut x = seed;
            for _ in 0..n {
                let tape: Vec<u32> = (0..len).map(|_| { x = verif_core::tape::splitmix64(x); (x >> 32) as u32 }).collect();
                let mut t = verif_core::tape::Tape::new(&tape);
                let case = prop.generate(&mut t, &ctx);
                if let Some(src) = case["decorated"].as_str() {
                    let i = src.find("function __t(").map(|i| src[i..].find('\n').map(|j| i + j + 1).unwrap_or(0)).unwrap_or(0);
                    println!("{}\n// ---- kinds: {}\n", &src[i..], case["kinds"]);
                } else if let Some(src) = case["src"].as_str() {
                    println!("{}\n// ---- tags: {}\n", src, case["tags"]);
                } else {
                    println!("{}", serde_json::to_string_pretty(&case).unwrap_or_default());
                }
            }
            0
        }
        _ => {
            eprintln!("unknown command `{}`", cmd);
            2
        }
    };
    std::process::exit(code);
}
