//! Reference engine: a persistent `node` process speaking NDJSON over pipes.
//! Located at run time: $VERIF_NODE, `node` on PATH, /usr/bin/node, nvm copies. TZ=UTC forced.

use serde_json::{json, Value};
use std::io::{BufRead, BufReader, Write};
use std::process::{Child, ChildStdin, ChildStdout, Command, Stdio};

pub struct NodeClient {
    child: Child,
    stdin: ChildStdin,
    stdout: BufReader<ChildStdout>,
    next_id: u64,
    pub requests: u64,
}

pub struct NodeSlot {
    client: Option<NodeClient>,
    tried: bool,
    absent: bool,
    pub requests: u64,
}

fn find_node() -> Option<String> {
    if let Ok(p) = std::env::var("VERIF_NODE") {
        if std::path::Path::new(&p).exists() {
            return Some(p);
        }
    }
    if let Ok(path) = std::env::var("PATH") {
        for d in path.split(':') {
            let c = format!("{}/node", d);
            if std::path::Path::new(&c).exists() {
                return Some(c);
            }
        }
    }
    if std::path::Path::new("/usr/bin/node").exists() {
        return Some("/usr/bin/node".into());
    }
    if let Ok(rd) = std::fs::read_dir("/root/.nvm/versions/node") {
        for e in rd.flatten() {
            let c = e.path().join("bin/node");
            if c.exists() {
                return Some(c.to_string_lossy().to_string());
            }
        }
    }
    None
}

impl NodeSlot {
    pub fn new() -> NodeSlot {
        NodeSlot { client: None, tried: false, absent: false, requests: 0 }
    }
    pub fn status(&self) -> String {
        if self.absent {
            "absent".into()
        } else if self.requests > 0 {
            "present".into()
        } else {
            "unused".into()
        }
    }
    fn ensure(&mut self) -> bool {
        if self.client.is_some() {
            return true;
        }
        if self.tried && self.absent {
            return false;
        }
        self.tried = true;
        if std::env::var("VERIF_NO_NODE").is_ok() {
            self.absent = true;
            return false;
        }
        let Some(node) = find_node() else {
            self.absent = true;
            return false;
        };
        let script = crate::core::verif_root().join("harness/oracle/node_oracle.js");
        let child = Command::new(node)
            .arg("--stack-size=2000")
            .arg(script)
            .env("TZ", "UTC")
            .stdin(Stdio::piped())
            .stdout(Stdio::piped())
            .stderr(Stdio::null())
            .spawn();
        match child {
            Ok(mut c) => {
                let stdin = c.stdin.take().unwrap();
                let stdout = BufReader::new(c.stdout.take().unwrap());
                self.client = Some(NodeClient { child: c, stdin, stdout, next_id: 1, requests: 0 });
                true
            }
            Err(_) => {
                self.absent = true;
                false
            }
        }
    }

    /// Send a request object (fields: src, mode, ...) and get the reply; None if node is absent
    /// or died on this request (the client is restarted for the next one).
    pub fn request(&mut self, mut req: Value) -> Option<Value> {
        if !self.ensure() {
            return None;
        }
        let c = self.client.as_mut().unwrap();
        let id = c.next_id;
        c.next_id += 1;
        req["id"] = json!(id);
        let line = format!("{}\n", req);
        let ok = c.stdin.write_all(line.as_bytes()).and_then(|_| c.stdin.flush()).is_ok();
        let mut reply = String::new();
        let got = ok && c.stdout.read_line(&mut reply).map(|n| n > 0).unwrap_or(false);
        if !got {
            // node died (e.g. stack overflow in native code): drop it; next request restarts
            if let Some(mut cl) = self.client.take() {
                let _ = cl.child.kill();
                let _ = cl.child.wait();
            }
            self.tried = false;
            return Some(json!({"id": id, "died": true}));
        }
        self.requests += 1;
        serde_json::from_str(&reply).ok()
    }

    /// Run a script text in a fresh strict-mode context; returns {ok|err, log, timeout?}
    pub fn run_script(&mut self, src: &str) -> Option<Value> {
        self.request(json!({"mode": "script", "src": src}))
    }
}

impl Drop for NodeSlot {
    fn drop(&mut self) {
        if let Some(mut c) = self.client.take() {
            let _ = c.child.kill();
            let _ = c.child.wait();
        }
    }
}
