//! Statement generation: declarations, control flow, functions, classes, generators, exceptions.

use super::{ClassInfo, Gen, Ty};

fn ind(n: usize) -> String {
    "  ".repeat(n)
}

impl<'t, 'a, 'g> Gen<'t, 'a, 'g> {
    pub fn decl_ty(&mut self) -> Ty {
        match self.tape.weighted(&[6, 6, 3, 4, 2, 3, 2, 1, 1, 1]) {
            0 => Ty::Num,
            1 => Ty::Str,
            2 => Ty::Bool,
            3 => Ty::Arr(Box::new(Ty::Num)),
            4 => Ty::Arr(Box::new(Ty::Str)),
            5 => Ty::Rec(self.rec_shape()),
            6 => Ty::Any,
            7 => Ty::Nul,
            8 => Ty::Map(Box::new(Ty::Str), Box::new(Ty::Num)),
            _ => Ty::Set(Box::new(Ty::Num)),
        }
    }

    pub fn trace(&mut self, e: String, i: usize) -> String {
        let id = self.trace_id;
        self.trace_id += 1;
        format!("{}__t({}, {});", ind(i), id, e)
    }

    /// A block body with `n` statements in a fresh scope; returns lines.
    pub fn body(&mut self, n: usize, i: usize) -> Vec<String> {
        self.scopes.push(vec![]);
        self.deferred.push(vec![]);
        self.block_depth += 1;
        let mut lines = vec![];
        if self.cfg.ts_slots {
            lines.push(format!("{}{}", ind(i), self.mark('l', &Ty::Any)));
        }
        for _ in 0..n {
            if self.stmt_budget == 0 {
                break;
            }
            self.stmt_budget -= 1;
            lines.push(self.stmt(i));
        }
        let d = self.deferred.pop().unwrap_or_default();
        lines.extend(d);
        self.block_depth -= 1;
        self.scopes.pop();
        lines
    }

    fn small_body(&mut self, i: usize) -> Vec<String> {
        let n = if self.block_depth >= self.cfg.max_depth + 1 { 1 } else { self.tape.range(1, 3) as usize };
        let mut l = self.body(n, i);
        if l.is_empty() {
            l.push(self.trace("0".into(), i));
        }
        l
    }

    pub fn stmt(&mut self, i: usize) -> String {
        let deep = self.block_depth >= self.cfg.max_depth + 1;
        let mut w: [u32; 22] = if deep {
            [6, 5, 4, 0, 0, 0, 0, 0, 0, 0, 0, 0, 2, 0, 0, 2, 0, 1, 1, 0, 0, 0]
        } else {
            [8, 6, 5, 4, 3, 3, 2, 2, 3, 4, 4, 2, 3, 2, 2, 3, 2, 2, 2, 2, 1, 2]
        };
        if self.cfg.ts_slots && !deep {
            // C03: functions and classes carry most of the decoration positions
            w[10] = 8;
            w[11] = 9;
            w[19] = 4;
        }
        match self.tape.weighted(&w) {
            0 => self.stmt_decl(i),
            1 => {
                let t = self.any_concrete();
                let d = self.cfg.max_depth;
                let e = self.expr(&t, d);
                self.trace(e, i)
            }
            2 => self.stmt_assign(i),
            3 => self.stmt_if(i),
            4 => self.stmt_for(i),
            5 => self.stmt_for_of(i),
            6 => self.stmt_for_in(i),
            7 => self.stmt_while(i),
            8 => self.stmt_switch(i),
            9 => self.stmt_try(i),
            10 => self.stmt_function(i),
            11 => self.stmt_class(i),
            12 => self.stmt_destructure(i),
            13 => self.stmt_labeled(i),
            14 => self.stmt_generator(i),
            15 => self.stmt_mutate(i),
            16 => self.stmt_shadow_block(i),
            17 => self.stmt_jump(i),
            18 => self.stmt_closure_loop(i),
            19 => self.stmt_fn_expr_forms(i),
            20 => self.stmt_tdz(i),
            _ => self.stmt_mapset(i),
        }
    }

    // ------------------------------------------------------------------ declarations
    pub fn stmt_decl(&mut self, i: usize) -> String {
        let ty = self.decl_ty();
        let name = self.fresh("v");
        let d = self.cfg.max_depth;
        let init = self.expr(&ty, d);
        let kw = ["let", "const", "var"][self.tape.weighted(&[5, 4, 2])];
        // `var` in nested blocks is function-scoped: declare it in the innermost scope only (sound: we
        // never reference it outside), but tag it
        self.tag(format!("decl:{}", kw));
        let m = self.mark('v', &ty);
        if self.cfg.ts_slots && kw != "const" && self.tape.chance(1, 8) {
            // declaration without initialiser, assigned right away: `let x!: T; x = e;`
            let m = self.mark('V', &ty);
            let a = self.mark('A', &ty);
            self.tag("decl:split");
            self.declare(&name, ty, true);
            return format!("{}{} {}{};\n{}{} = {}{};", ind(i), kw, name, m, ind(i), name, init, a);
        }
        let a = self.mark('A', &ty);
        self.declare(&name, ty, kw != "const");
        format!("{}{} {}{} = {}{};", ind(i), kw, name, m, init, a)
    }

    pub fn stmt_assign(&mut self, i: usize) -> String {
        let vs: Vec<_> = self.visible().into_iter().filter(|v| v.mutable && !matches!(v.ty, Ty::Func(..) | Ty::Inst(_) | Ty::GenOf(_) | Ty::Map(..) | Ty::Set(..))).collect();
        if vs.is_empty() {
            return self.stmt_decl(i);
        }
        let v = vs[self.tape.below(vs.len())].clone();
        let d = self.cfg.max_depth.min(2);
        // the new value of a string/array/object variable never depends on such variables
        // (accumulation like `s = s + s` inside nested loops grows exponentially)
        let saved_no_big = self.no_big_vars;
        if !matches!(v.ty, Ty::Num | Ty::Bool | Ty::Nul) {
            self.no_big_vars = true;
        }
        let out = self.stmt_assign_to(&v, d, i);
        self.no_big_vars = saved_no_big;
        out
    }

    fn stmt_assign_to(&mut self, v: &super::Var, d: usize, i: usize) -> String {
        match (&v.ty, self.tape.below(4)) {
            (Ty::Num, 0) | (Ty::Num, 1) => {
                // no `**=`: exponentiation of arbitrary operands is implementation-approximated
                let ops = ["+=", "-=", "*=", "/=", "%=", "&=", "|=", "^=", "<<=", ">>=", ">>>="];
                let mut op = ops[self.rr_pick("compound", ops.len())];
                if matches!(op, "&=" | "|=" | "^=" | "<<=" | ">>=" | ">>>=") && self.gated("bitwise-large-operands") {
                    op = "+="; // the variable's current value may be outside the int32 range
                }
                let rhs = if matches!(op, "&=" | "|=" | "^=" | "<<=" | ">>=" | ">>>=") && self.gated("bitwise-large-operands") {
                    self.tape.range(0, 31).to_string()
                } else {
                    self.expr(&Ty::Num, d)
                };
                self.tag(format!("assign:{}×num", op));
                format!("{}{} {} {};", ind(i), v.name, op, rhs)
            }
            (Ty::Str, 0) | (Ty::Str, 1) => {
                self.tag("assign:+=×str");
                let (e, _) = self.prim_expr(d);
                format!("{}{} += {};", ind(i), v.name, e)
            }
            (Ty::Any, k) if k < 2 => {
                let ops = ["||=", "&&=", "??="];
                let op = ops[self.rr_pick("logical-assign", ops.len())];
                self.tag(format!("assign:{}", op));
                let t = self.any_concrete();
                format!("{}{} {} {};", ind(i), v.name, op, self.expr(&t, d))
            }
            (Ty::Any, _) => {
                self.tag("assign:=×any");
                let t = self.any_concrete();
                format!("{}{} = {};", ind(i), v.name, self.expr(&t, d))
            }
            (t, _) => {
                self.tag("assign:=");
                let t = t.clone();
                format!("{}{} = {};", ind(i), v.name, self.expr(&t, d))
            }
        }
    }

    pub fn stmt_mutate(&mut self, i: usize) -> String {
        // property / element writes, delete, length writes
        let d = 1;
        match self.tape.below(5) {
            0 | 1 => {
                if let Some(v) = self.pick_var(|t| matches!(t, Ty::Rec(_))) {
                    if let Ty::Rec(f) = &v.ty {
                        if !f.is_empty() {
                            let (k, t) = f[self.tape.below(f.len())].clone();
                            self.tag("assign:property");
                            let e = self.expr(&t, d);
                            return if self.tape.chance(1, 2) { format!("{}{}.{} = {};", ind(i), v.name, k, e) } else { format!("{}{}[\"{}\"] = {};", ind(i), v.name, k, e) };
                        }
                    }
                }
                self.stmt_decl(i)
            }
            2 => {
                if let Some(v) = self.pick_var(|t| matches!(t, Ty::Arr(_))) {
                    if let Ty::Arr(t) = &v.ty {
                        let t = (**t).clone();
                        let mut idx = self.tape.range(0, 6);
                        if idx >= 1 && self.gated("arr-holes") {
                            idx = 0; // writing past the end creates holes
                        }
                        self.tag("assign:element");
                        return format!("{}{}[{}] = {};", ind(i), v.name, idx, self.expr(&t, d));
                    }
                }
                self.stmt_decl(i)
            }
            3 => {
                if let Some(v) = self.pick_var(|t| matches!(t, Ty::Arr(_))) {
                    self.tag("assign:array.length");
                    // growing the length creates holes
                    let n = if self.gated("arr-holes") { 0 } else { self.tape.range(0, 3) };
                    return format!("{}{}.length = {};", ind(i), v.name, n);
                }
                self.stmt_decl(i)
            }
            _ => {
                // delete on a fresh object (never on variables: it would invalidate their record type)
                self.tag("unop:delete");
                let o = self.fresh("o");
                let id = self.trace_id;
                self.trace_id += 1;
                format!("{}{{ const {} = {{a: 1, b: 2, c: 3}}; __t({}, [delete {}.b, {}, delete {}.zz]); }}", ind(i), o, id, o, o, o)
            }
        }
    }

    // ------------------------------------------------------------------ control flow
    pub fn stmt_if(&mut self, i: usize) -> String {
        let d = self.cfg.max_depth.min(2);
        // condition over every type (truthiness)
        let cond = if self.tape.chance(1, 3) {
            let t = self.any_concrete();
            self.tag(format!("if:truthiness×{}", t.short()));
            self.expr(&t, d)
        } else {
            self.expr(&Ty::Bool, d)
        };
        self.tag("stmt:if");
        let then = self.small_body(i + 1);
        let mut s = format!("{}if ({}) {{\n{}\n{}}}", ind(i), cond, then.join("\n"), ind(i));
        match self.tape.below(3) {
            0 => {}
            1 => {
                let els = self.small_body(i + 1);
                s.push_str(&format!(" else {{\n{}\n{}}}", els.join("\n"), ind(i)));
            }
            _ => {
                self.tag("stmt:else-if");
                let c2 = self.expr(&Ty::Bool, d);
                let b2 = self.small_body(i + 1);
                let b3 = self.small_body(i + 1);
                s.push_str(&format!(" else if ({}) {{\n{}\n{}}} else {{\n{}\n{}}}", c2, b2.join("\n"), ind(i), b3.join("\n"), ind(i)));
            }
        }
        s
    }

    pub fn stmt_for(&mut self, i: usize) -> String {
        let v = self.fresh("i");
        let n = self.tape.range(0, 4);
        self.tag("stmt:for");
        self.scopes.push(vec![]);
        self.declare(&v, Ty::Num, false);
        self.loops.push((None, 'L'));
        let body = self.small_body(i + 1);
        self.loops.pop();
        self.scopes.pop();
        let step = match self.tape.below(3) {
            0 => format!("{}++", v),
            1 => format!("{} += 1", v),
            _ => format!("++{}", v),
        };
        format!("{}for (let {}{} = 0; {} < {}; {}) {{\n{}\n{}}}", ind(i), v, self.mark('v', &Ty::Num), v, n, step, body.join("\n"), ind(i))
    }

    pub fn stmt_while(&mut self, i: usize) -> String {
        let v = self.fresh("w");
        let n = self.tape.range(0, 4);
        self.scopes.push(vec![]);
        self.declare(&v, Ty::Num, false);
        self.loops.push((None, 'L'));
        let body = self.small_body(i + 1);
        self.loops.pop();
        self.scopes.pop();
        if self.tape.chance(1, 2) {
            self.tag("stmt:while");
            format!("{}let {} = 0;\n{}while ({} < {}) {{\n{}{}++;\n{}\n{}}}", ind(i), v, ind(i), v, n, ind(i + 1), v, body.join("\n"), ind(i))
        } else {
            self.tag("stmt:do-while");
            format!("{}let {} = 0;\n{}do {{\n{}{}++;\n{}\n{}}} while ({} < {});", ind(i), v, ind(i), ind(i + 1), v, body.join("\n"), ind(i), v, n)
        }
    }

    pub fn stmt_for_of(&mut self, i: usize) -> String {
        let v = self.fresh("e");
        let d = self.cfg.max_depth.min(2);
        let (iter, ety, tag) = match self.tape.below(5) {
            0 | 1 => {
                let t = self.arr_elem_ty();
                (self.expr(&Ty::Arr(Box::new(t.clone())), d), t, "array")
            }
            2 => {
                if self.gated("str-non-ascii") {
                    (self.tape.pick(&["\"abc\"", "\"\"", "\"xy\""]).to_string(), Ty::Str, "string")
                } else {
                    (self.expr(&Ty::Str, d), Ty::Str, "string")
                }
            }
            3 => (self.literal(&Ty::Set(Box::new(Ty::Num))), Ty::Num, "set"),
            _ => (format!("{}.keys()", self.literal(&Ty::Map(Box::new(Ty::Str), Box::new(Ty::Num)))), Ty::Str, "map-keys"),
        };
        self.tag(format!("stmt:for-of×{}", tag));
        self.scopes.push(vec![]);
        self.declare(&v, ety.clone(), false);
        self.loops.push((None, 'L'));
        let body = self.small_body(i + 1);
        self.loops.pop();
        self.scopes.pop();
        let kw = if self.tape.chance(1, 2) { "const" } else { "let" };
        // (TypeScript forbids a type annotation on the declaration of a for-of/for-in statement)
        format!("{}for ({} {} of {}) {{\n{}\n{}}}", ind(i), kw, v, iter, body.join("\n"), ind(i))
    }

    pub fn stmt_for_in(&mut self, i: usize) -> String {
        let v = self.fresh("k");
        let shape = self.rec_shape();
        let d = 1;
        let obj = if self.tape.chance(1, 4) {
            if self.gated("for-in-array") {
                self.expr(&Ty::Rec(shape), d)
            } else {
                self.tag("stmt:for-in×array");
                self.literal(&Ty::Arr(Box::new(Ty::Num)))
            }
        } else {
            self.expr(&Ty::Rec(shape), d)
        };
        self.tag("stmt:for-in");
        self.scopes.push(vec![]);
        self.declare(&v, Ty::Str, false);
        self.loops.push((None, 'L'));
        let body = self.small_body(i + 1);
        self.loops.pop();
        self.scopes.pop();
        format!("{}for (const {} in {}) {{\n{}\n{}}}", ind(i), v, obj, body.join("\n"), ind(i))
    }

    pub fn stmt_switch(&mut self, i: usize) -> String {
        let d = self.cfg.max_depth.min(2);
        let on_num = self.tape.chance(1, 2);
        let disc = if on_num { self.expr(&Ty::Num, d) } else { self.expr(&Ty::Str, d) };
        self.tag(format!("stmt:switch×{}", if on_num { "num" } else { "str" }));
        let ncases = self.tape.range(1, 4) as usize;
        let default_at = self.tape.below(ncases + 2); // may be beyond => no default
        let mut s = format!("{}switch ({}) {{\n", ind(i), disc);
        self.loops.push((None, 'S'));
        for c in 0..=ncases {
            if c == default_at {
                self.tag("switch:default");
                s.push_str(&format!("{}default:\n", ind(i + 1)));
            } else if c < ncases {
                let lab = if on_num { self.literal(&Ty::Num) } else { self.literal(&Ty::Str) };
                s.push_str(&format!("{}case {}:\n", ind(i + 1), lab));
            } else {
                continue;
            }
            let body = self.small_body(i + 2);
            s.push_str(&body.join("\n"));
            s.push('\n');
            if self.tape.chance(2, 3) {
                s.push_str(&format!("{}break;\n", ind(i + 2)));
            } else {
                self.tag("switch:fallthrough");
            }
        }
        self.loops.pop();
        s.push_str(&format!("{}}}", ind(i)));
        s
    }

    /// break / continue / return where legal
    pub fn stmt_jump(&mut self, i: usize) -> String {
        let d = 1;
        let mut opts: Vec<String> = vec![];
        // unlabelled break: innermost loop or switch; unlabelled continue: innermost loop
        if self.loops.iter().any(|(_, k)| *k == 'L' || *k == 'S') {
            opts.push("break;".into());
        }
        if self.loops.iter().any(|(_, k)| *k == 'L') {
            opts.push("continue;".into());
        }
        for (l, k) in self.loops.clone().iter() {
            if let Some(l) = l {
                opts.push(format!("break {};", l));
                if *k == 'L' {
                    opts.push(format!("continue {};", l));
                }
            }
        }
        if self.fn_depth > 0 {
            opts.push("return".into());
        }
        if opts.is_empty() {
            return self.stmt_decl(i);
        }
        let o = opts[self.tape.below(opts.len())].clone();
        if (o.starts_with("break") || o.starts_with("continue")) && self.shadow_depth > 0 && self.gated("jump-inside-shadowing-block") {
            return self.stmt_decl(i);
        }
        // jumps are conditional so that the rest of the block is still reachable sometimes
        let cond = self.expr(&Ty::Bool, d);
        self.tag(format!("stmt:{}", o.trim_end_matches(';').split(' ').next().unwrap_or("")));
        if o.contains(' ') {
            self.tag("stmt:labelled-jump");
        }
        if o == "return" {
            let t = self.any_concrete();
            return format!("{}if ({}) {{ return {}; }}", ind(i), cond, self.expr(&t, d));
        }
        format!("{}if ({}) {{ {} }}", ind(i), cond, o)
    }

    pub fn stmt_labeled(&mut self, i: usize) -> String {
        let l = self.fresh("L");
        let v = self.fresh("i");
        let n = self.tape.range(1, 3);
        if self.tape.chance(1, 3) {
            // labelled plain block
            self.tag("stmt:labelled-block");
            self.loops.push((Some(l.clone()), 'B'));
            let body = self.small_body(i + 1);
            self.loops.pop();
            return format!("{}{}: {{\n{}\n{}}}", ind(i), l, body.join("\n"), ind(i));
        }
        self.tag("stmt:labelled-loop");
        self.scopes.push(vec![]);
        self.declare(&v, Ty::Num, false);
        self.loops.push((Some(l.clone()), 'L'));
        let body = self.small_body(i + 1);
        self.loops.pop();
        self.scopes.pop();
        format!("{}{}: for (let {}{} = 0; {} < {}; {}++) {{\n{}\n{}}}", ind(i), l, v, self.mark('v', &Ty::Num), v, n, v, body.join("\n"), ind(i))
    }

    pub fn stmt_shadow_block(&mut self, i: usize) -> String {
        // a nested block that shadows an outer variable with a let of another value
        if let Some(v) = self.pick_var(|t| t.is_prim()) {
            self.tag("stmt:block-shadowing-let");
            self.shadow_depth += 1;
            self.scopes.push(vec![]);
            self.deferred.push(vec![]);
            self.block_depth += 1;
            let init = self.literal(&v.ty);
            self.declare(&v.name, v.ty.clone(), true);
            let mut lines = vec![format!("{}let {} = {};", ind(i + 1), v.name, init)];
            let n = self.tape.range(1, 2) as usize;
            for _ in 0..n {
                if self.stmt_budget == 0 {
                    break;
                }
                self.stmt_budget -= 1;
                lines.push(self.stmt(i + 1));
            }
            lines.push(self.trace(v.name.clone(), i + 1));
            lines.extend(self.deferred.pop().unwrap_or_default());
            self.block_depth -= 1;
            self.scopes.pop();
            self.shadow_depth -= 1;
            let after = self.trace(v.name.clone(), i);
            return format!("{}{{\n{}\n{}}}\n{}", ind(i), lines.join("\n"), ind(i), after);
        }
        self.stmt_decl(i)
    }

    // ------------------------------------------------------------------ exceptions
    pub fn thrower(&mut self) -> (String, &'static str) {
        match self.tape.below(8) {
            0 => ("throw new Error(\"boom\");".into(), "throw:Error"),
            1 => ("throw new TypeError(\"bad type\");".into(), "throw:TypeError"),
            2 => ("throw new RangeError(\"range\");".into(), "throw:RangeError"),
            3 => ("throw 42;".into(), "throw:number"),
            4 => ("throw \"str\";".into(), "throw:string"),
            5 => ("(null).x;".into(), "fault:null-member"),
            6 => ("(undefined)();".into(), "fault:call-undefined"),
            _ => ("throw {code: 7};".into(), "throw:object"),
        }
    }

    pub fn stmt_try(&mut self, i: usize) -> String {
        if self.in_finally > 0 && self.gated("try-inside-finally") {
            return self.stmt_decl(i);
        }
        self.tag("stmt:try");
        let has_catch = self.tape.chance(4, 5);
        let has_finally = !has_catch || self.tape.chance(1, 2);
        let mut s = format!("{}try {{\n", ind(i));
        let body = self.small_body(i + 1);
        s.push_str(&body.join("\n"));
        s.push('\n');
        if self.tape.chance(2, 3) {
            let (t, tag) = self.thrower();
            self.tag(tag);
            if !has_catch && self.fn_depth == 0 && self.block_depth == 0 {
                // would be an uncaught top-level error: allowed but rare
                if !self.tape.chance(1, 6) {
                    s.push_str(&format!("{}/* no throw */\n", ind(i + 1)));
                } else {
                    self.tag("uncaught-at-top-level");
                    s.push_str(&format!("{}{}\n", ind(i + 1), t));
                }
            } else if has_catch {
                // conditional or unconditional
                if self.tape.chance(1, 3) {
                    let c = self.expr(&Ty::Bool, 1);
                    s.push_str(&format!("{}if ({}) {{ {} }}\n", ind(i + 1), c, t));
                } else {
                    s.push_str(&format!("{}{}\n", ind(i + 1), t));
                }
            }
        }
        s.push_str(&format!("{}}}", ind(i)));
        if has_catch {
            let e = self.fresh("err");
            self.scopes.push(vec![]);
            let id = self.trace_id;
            self.trace_id += 1;
            let binding = if self.tape.chance(1, 8) {
                self.tag("catch:no-binding");
                String::new()
            } else {
                self.declare(&e, Ty::Any, true);
                format!(" ({}{})", e, self.mark('k', &Ty::Any))
            };
            s.push_str(&format!(" catch{} {{\n", binding));
            if !binding.is_empty() {
                s.push_str(&format!("{}__t({}, [{}, {} instanceof Error, {} instanceof TypeError]);\n", ind(i + 1), id, e, e, e));
            }
            let cb = self.small_body(i + 1);
            s.push_str(&cb.join("\n"));
            s.push('\n');
            if self.tape.chance(1, 8) && (self.block_depth > 0 || self.fn_depth > 0) {
                self.tag("catch:rethrow");
                s.push_str(&format!("{}throw {};\n", ind(i + 1), if binding.is_empty() { "1".to_string() } else { e.clone() }));
            }
            self.scopes.pop();
            s.push_str(&format!("{}}}", ind(i)));
        }
        if has_finally {
            self.tag("stmt:finally");
            s.push_str(" finally {\n");
            self.in_finally += 1;
            let fb = self.small_body(i + 1);
            self.in_finally -= 1;
            s.push_str(&fb.join("\n"));
            s.push('\n');
            s.push_str(&format!("{}}}", ind(i)));
        }
        // wrap the whole thing so that a rethrow/uncaught from a nested try does not end the program
        if self.block_depth > 0 || self.fn_depth > 0 {
            let id = self.trace_id;
            self.trace_id += 1;
            return format!("{}try {{\n{}\n{}}} catch (outer) {{ __t({}, outer); }}", ind(i), s, ind(i), id);
        }
        s
    }

    // ------------------------------------------------------------------ functions
    pub fn fn_sig(&mut self) -> (Vec<Ty>, Ty) {
        let n = self.tape.range(0, 3) as usize;
        let params: Vec<Ty> = (0..n)
            .map(|_| match self.tape.weighted(&[5, 4, 2, 2]) {
                0 => Ty::Num,
                1 => Ty::Str,
                2 => Ty::Bool,
                _ => Ty::Arr(Box::new(Ty::Num)),
            })
            .collect();
        let ret = match self.tape.weighted(&[5, 4, 2, 2, 1]) {
            0 => Ty::Num,
            1 => Ty::Str,
            2 => Ty::Bool,
            3 => Ty::Arr(Box::new(Ty::Num)),
            _ => Ty::Any,
        };
        (params, ret)
    }

    /// parameter list text with defaults / rest; declares params in the current (function) scope
    fn param_list(&mut self, params: &[Ty]) -> String {
        let mut out = vec![];
        for (k, t) in params.iter().enumerate() {
            let n = self.fresh("a");
            self.declare(&n, t.clone(), true);
            let m = self.mark('p', t);
            if k + 1 == params.len() && self.tape.chance(1, 6) {
                self.tag("param:default");
                out.push(format!("{}{} = {}", n, m, self.literal(t)));
            } else {
                out.push(format!("{}{}", n, m));
            }
        }
        if self.tape.chance(1, 8) {
            let n = self.fresh("rest");
            self.declare(&n, Ty::Arr(Box::new(Ty::Any)), true);
            self.tag("param:rest");
            out.push(format!("...{}{}", n, self.mark('R', &Ty::Arr(Box::new(Ty::Any)))));
        }
        out.join(", ")
    }

    /// function body lines ending in a return of type `ret`
    fn fn_body(&mut self, ret: &Ty, i: usize) -> Vec<String> {
        let n = self.tape.range(0, 3) as usize;
        self.deferred.push(vec![]);
        self.block_depth += 1;
        let mut lines = vec![];
        if self.cfg.ts_slots {
            // local type declarations
            lines.push(format!("{}{}", ind(i), self.mark('l', &Ty::Any)));
        }
        for _ in 0..n {
            if self.stmt_budget == 0 {
                break;
            }
            self.stmt_budget -= 1;
            lines.push(self.stmt(i));
        }
        if self.tape.chance(1, 10) && *ret == Ty::Any {
            self.tag("fn:no-return");
        } else {
            let d = self.cfg.max_depth.min(2);
            lines.push(format!("{}return {}{};", ind(i), self.expr(ret, d), self.mark('A', ret)));
        }
        lines.extend(self.deferred.pop().unwrap_or_default());
        self.block_depth -= 1;
        lines
    }

    fn enter_fn(&mut self) -> (usize, Vec<(Option<String>, char)>, bool) {
        self.scopes.push(vec![]);
        let saved = (self.fn_depth, std::mem::take(&mut self.loops), self.in_generator);
        self.fn_depth += 1;
        self.in_generator = false;
        saved
    }
    fn leave_fn(&mut self, saved: (usize, Vec<(Option<String>, char)>, bool)) {
        self.fn_depth = saved.0;
        self.loops = saved.1;
        self.in_generator = saved.2;
        self.scopes.pop();
    }

    pub fn stmt_function(&mut self, i: usize) -> String {
        let (params, ret) = self.fn_sig();
        let name = self.fresh("f");
        let saved = self.enter_fn();
        let plist = self.param_list(&params);
        let body = self.fn_body(&ret, i + 1);
        self.leave_fn(saved);
        self.tag("decl:function");
        // TypeScript-only: overload signatures directly before the implementation
        let overloads = if self.cfg.ts_slots {
            let anys: Vec<String> = (0..params.len()).map(|k| format!("x{}: any", k)).collect();
            let unk: Vec<String> = (0..params.len()).map(|k| format!("x{}?: any", k)).collect();
            self.ts_only(&format!("{ind}function {n}({a}): any;\n{ind}function {n}({u}): any;\n", ind = ind(i), n = name, a = anys.join(", "), u = unk.join(", ")))
        } else {
            String::new()
        };
        let text = format!(
            "{}{}function {}{}({}){} {{\n{}\n{}}}",
            overloads,
            ind(i),
            name,
            self.mark('t', &ret),
            plist,
            self.mark('r', &ret),
            body.join("\n"),
            ind(i)
        );
        self.declare(&name, Ty::Func(params, Box::new(ret)), false);
        // hoisting: emit the declaration at the end of the enclosing block; statements generated
        // from now on in this block may call it before its textual position
        let in_body = self.fn_depth > 0 || self.block_depth > 0;
        if self.tape.chance(1, 3) {
            let gate = if in_body { "decl-function-hoisted-use-in-body" } else { "decl-function-hoisted-use-top-level" };
            if !self.gated(gate) {
                self.tag(format!("decl:function×used-before-position×{}", if in_body { "in-body" } else { "top-level" }));
                if let Some(d) = self.deferred.last_mut() {
                    d.push(text);
                }
                // make sure it is used at least once before the declaration
                let call = self.call_user_fn_by_name(&name);
                return self.trace(call, i);
            }
        }
        text
    }

    fn call_user_fn_by_name(&mut self, name: &str) -> String {
        let v = self.visible().into_iter().find(|v| v.name == name);
        if let Some(v) = v {
            if let Ty::Func(params, _) = &v.ty {
                let args: Vec<String> = params.clone().iter().map(|p| self.expr(p, 1)).collect();
                return format!("{}({})", name, args.join(", "));
            }
        }
        "0".into()
    }

    pub fn stmt_fn_expr_forms(&mut self, i: usize) -> String {
        // const f = function (..) {..}; named function expression; method shorthand; IIFE; closures/counters
        let (params, ret) = self.fn_sig();
        let name = self.fresh("g");
        match self.tape.below(4) {
            0 => {
                let saved = self.enter_fn();
                let plist = self.param_list(&params);
                let body = self.fn_body(&ret, i + 1);
                self.leave_fn(saved);
                self.tag("expr:function-expression");
                self.declare(&name, Ty::Func(params, Box::new(ret.clone())), false);
                format!("{}const {} = function ({}){} {{\n{}\n{}}};", ind(i), name, plist, self.mark('r', &ret), body.join("\n"), ind(i))
            }
            1 => {
                if self.gated("fn-expr-self-name") {
                    return self.stmt_decl(i);
                }
                // named function expression referring to itself (bounded recursion through a literal)
                self.tag("expr:named-function-expression-self-reference");
                let n = self.tape.range(0, 5);
                self.declare(&name, Ty::Num, false);
                format!("{}const {} = (function fact(n) {{ return n <= 1 ? 1 : n * fact(n - 1); }})({});", ind(i), name, n)
            }
            2 => {
                // counter closure
                self.tag("closure:counter");
                self.declare(&name, Ty::Func(vec![], Box::new(Ty::Num)), false);
                let start = self.literal(&Ty::Num);
                format!("{}const {} = (function () {{ let c = {}; return () => {{ c += 1; return c; }}; }})();", ind(i), name, start)
            }
            _ => {
                // IIFE with arguments
                self.tag("expr:iife");
                let saved = self.enter_fn();
                let plist = self.param_list(&params);
                let body = self.fn_body(&ret, i + 1);
                self.leave_fn(saved);
                let args: Vec<String> = params.iter().map(|p| self.expr(p, 1)).collect();
                self.declare(&name, ret.clone(), false);
                format!("{}const {} = (function ({}) {{\n{}\n{}}})({});", ind(i), name, plist, body.join("\n"), ind(i), args.join(", "))
            }
        }
    }

    pub fn stmt_closure_loop(&mut self, i: usize) -> String {
        // closures capturing loop variables (per-iteration let bindings vs shared var)
        let fs = self.fresh("fs");
        let n = self.tape.range(1, 4);
        let kw = if self.tape.chance(1, 3) { "var" } else { "let" };
        self.tag(format!("closure:loop-variable×{}", kw));
        let id = self.trace_id;
        self.trace_id += 1;
        format!(
            "{ind}const {fs} = [];\n{ind}for ({kw} q = 0; q < {n}; q++) {{ {fs}.push(() => q * 10); }}\n{ind}__t({id}, {fs}.map((h) => h()));",
            ind = ind(i),
            fs = fs,
            kw = kw,
            n = n,
            id = id
        )
    }

    pub fn stmt_tdz(&mut self, i: usize) -> String {
        self.tag("fault:tdz-read");
        let id = self.trace_id;
        self.trace_id += 2;
        let v = self.fresh("z");
        let kw = if self.tape.chance(1, 2) { "let" } else { "const" };
        format!(
            "{ind}try {{ __t({id}, {v}); {kw} {v} = 1; }} catch (e) {{ __t({id2}, e instanceof ReferenceError); }}",
            ind = ind(i),
            id = id,
            id2 = id + 1,
            v = v,
            kw = kw
        )
    }

    // ------------------------------------------------------------------ destructuring
    pub fn stmt_destructure(&mut self, i: usize) -> String {
        let d = self.cfg.max_depth.min(2);
        match self.tape.below(4) {
            0 => {
                // array pattern with skip, default, rest
                let a = self.fresh("d");
                let b = self.fresh("d");
                let r = self.fresh("d");
                self.tag("destructure:array");
                let src = self.expr(&Ty::Arr(Box::new(Ty::Num)), d);
                let mut pat = format!("{}, ", a);
                if self.tape.chance(1, 3) {
                    self.tag("destructure:array-skip");
                    pat.push_str(", ");
                }
                self.tag("destructure:default");
                pat.push_str(&format!("{} = {}", b, self.literal(&Ty::Num)));
                if self.tape.chance(1, 2) {
                    self.tag("destructure:array-rest");
                    pat.push_str(&format!(", ...{}", r));
                    self.declare(&r, Ty::Arr(Box::new(Ty::Num)), true);
                }
                self.declare(&a, Ty::Any, true);
                self.declare(&b, Ty::Any, true);
                format!("{}let [{}] = {};", ind(i), pat, src)
            }
            1 => {
                // object pattern with rename, default, nested, rest
                let shape = vec![("a".to_string(), Ty::Num), ("b".to_string(), Ty::Str), ("c".to_string(), Ty::Arr(Box::new(Ty::Num)))];
                let src = self.expr(&Ty::Rec(shape), d);
                let x = self.fresh("d");
                let y = self.fresh("d");
                let z = self.fresh("d");
                self.tag("destructure:object");
                let mut pat = format!("a: {}, b: {} = \"dflt\"", x, y);
                self.declare(&x, Ty::Any, false);
                self.declare(&y, Ty::Any, false);
                match self.tape.below(3) {
                    0 => {
                        self.tag("destructure:nested");
                        pat.push_str(&format!(", c: [{}]", z));
                        self.declare(&z, Ty::Any, false);
                    }
                    1 => {
                        self.tag("destructure:object-rest");
                        pat.push_str(&format!(", ...{}", z));
                        self.declare(&z, Ty::Any, false);
                    }
                    _ => {
                        self.tag("destructure:missing-with-default");
                        pat.push_str(&format!(", zz: {} = 9", z));
                        self.declare(&z, Ty::Any, false);
                    }
                }
                format!("{}const {{{}}} = {};", ind(i), pat, src)
            }
            2 => {
                // swap via destructuring assignment
                let vs: Vec<_> = self.visible().into_iter().filter(|v| v.mutable && v.ty == Ty::Num).collect();
                if vs.len() >= 2 {
                    self.tag("destructure:assignment-swap");
                    return format!("{}[{}, {}] = [{}, {}];", ind(i), vs[0].name, vs[1].name, vs[1].name, vs[0].name);
                }
                self.stmt_decl(i)
            }
            _ => {
                // parameter destructuring
                self.tag("destructure:parameter");
                let f = self.fresh("f");
                self.declare(&f, Ty::Func(vec![Ty::Rec(vec![("a".into(), Ty::Num), ("b".into(), Ty::Num)])], Box::new(Ty::Num)), false);
                format!("{}const {} = ({{a, b = 2}}) => a + b;", ind(i), f)
            }
        }
    }

    // ------------------------------------------------------------------ classes
    pub fn stmt_class(&mut self, i: usize) -> String {
        if self.fn_depth > 0 || self.block_depth > 0 {
            return self.stmt_decl(i);
        }
        let name = self.fresh("C");
        let base: Option<ClassInfo> = if !self.classes.is_empty() && self.tape.chance(1, 2) { Some(self.classes[self.tape.below(self.classes.len())].clone()) } else { None };
        // C03: a class that is only used as a base class (may be declared abstract in TypeScript)
        let only_base = self.cfg.ts_slots && self.tape.chance(1, 3);
        let grp = self.ts_group();
        self.tag("decl:class");
        let mut info = ClassInfo { name: name.clone(), fields: vec![], methods: vec![], getters: vec![], statics: vec![], ctor_params: vec![], only_base: if only_base { Some(self.classes.len()) } else { None } };
        let mut lines: Vec<String> = vec![];
        // fields with initialisers
        let mut nf = self.tape.range(0, 2) as usize;
        if base.is_some() && nf > 0 && self.gated("class-fields-with-extends") {
            nf = 0;
        }
        for k in 0..nf {
            let fname = format!("f{}_{}", self.classes.len(), k);
            let t = if self.tape.chance(1, 2) { Ty::Num } else { Ty::Str };
            self.tag("class:field-initialiser");
            lines.push(format!("{}{}{}{} = {};", ind(i + 1), self.mark('c', &t), fname, self.mark('v', &t), self.literal(&t)));
            info.fields.push((fname, t));
        }
        if self.tape.chance(1, 3) && !(base.is_some() && self.gated("class-fields-with-extends")) {
            self.tag("class:private-field");
            lines.push(format!("{}#secret = {};", ind(i + 1), self.literal(&Ty::Num)));
            lines.push(format!("{}reveal() {{ return this.#secret; }}", ind(i + 1)));
            info.methods.push(("reveal".into(), vec![], Ty::Num));
        }
        // constructor
        let ctor_n = self.tape.range(0, 2) as usize;
        let ctor_params: Vec<Ty> = (0..ctor_n).map(|_| if self.tape.chance(1, 2) { Ty::Num } else { Ty::Str }).collect();
        {
            let saved = self.enter_fn();
            let mut ps = vec![];
            let mut assigns = vec![];
            for (k, t) in ctor_params.iter().enumerate() {
                let p = self.fresh("a");
                self.declare(&p, t.clone(), true);
                ps.push(format!("{}{}", p, self.mark('p', t)));
                let fname = format!("p{}_{}", self.classes.len(), k);
                assigns.push(format!("{}this.{} = {};", ind(i + 2), fname, p));
                info.fields.push((fname, t.clone()));
            }
            let mut body = vec![];
            if let Some(b) = &base {
                self.tag("class:extends");
                let args: Vec<String> = b.ctor_params.iter().map(|t| self.literal(t)).collect();
                body.push(format!("{}super({});", ind(i + 2), args.join(", ")));
            }
            body.extend(assigns);
            if self.cfg.ts_slots {
                let anys: Vec<String> = (0..ctor_params.len()).map(|k| format!("x{}: any", k)).collect();
                let opts: Vec<String> = (0..ctor_params.len()).map(|k| format!("x{}?: unknown", k)).collect();
                lines.push(self.ts_only(&format!("{ind}constructor({a});\n{ind}constructor({o});", ind = ind(i + 1), a = anys.join(", "), o = opts.join(", "))));
            }
            lines.push(format!("{}constructor({}) {{\n{}\n{}}}", ind(i + 1), ps.join(", "), body.join("\n"), ind(i + 1)));
            self.leave_fn(saved);
        }
        info.ctor_params = ctor_params;
        // methods
        let nm = self.tape.range(0, 2) as usize;
        for k in 0..nm {
            let (params, ret) = self.fn_sig();
            let mname = format!("m{}_{}", self.classes.len(), k);
            let saved = self.enter_fn();
            let plist = self.param_list(&params);
            // methods may read fields through this
            let mut body = vec![];
            if let Some((f, _)) = info.fields.first().cloned() {
                let id = self.trace_id;
                self.trace_id += 1;
                body.push(format!("{}__t({}, this.{});", ind(i + 2), id, f));
            }
            body.extend(self.fn_body(&ret, i + 2));
            self.leave_fn(saved);
            self.tag("class:method");
            if self.cfg.ts_slots {
                let anys: Vec<String> = (0..params.len()).map(|k| format!("x{}: any", k)).collect();
                lines.push(self.ts_only(&format!("{ind}{m}({a}): any;\n{ind}{m}<T>(...rest: T[]): unknown;", ind = ind(i + 1), m = mname, a = anys.join(", "))));
            }
            lines.push(format!("{}{}{}{}({}){} {{\n{}\n{}}}", ind(i + 1), self.mark('d', &ret), mname, self.mark('t', &ret), plist, self.mark('r', &ret), body.join("\n"), ind(i + 1)));
            info.methods.push((mname, params, ret));
        }
        if let (Some(b), true) = (&base, self.tape.chance(1, 2)) {
            if let Some(m) = b.methods.iter().find(|m| m.0 != "reveal").cloned() {
                // override calling super.m()
                self.tag("class:super-method-call");
                let args: Vec<String> = m.1.iter().map(|t| self.literal(t)).collect();
                lines.push(format!("{}{}{}(...rest{}){} {{ return [\"sub\", super.{}({})]; }}", ind(i + 1), self.ts_only("override "), m.0, self.mark('R', &Ty::Any), self.mark('r', &Ty::Any), m.0, args.join(", ")));
                info.methods.push((m.0.clone(), m.1.clone(), Ty::Any));
            }
        }
        if self.tape.chance(1, 3) {
            self.tag("class:getter-setter");
            let gname = format!("g{}", self.classes.len());
            lines.push(format!("{}{}get {}(){} {{ return {}; }}", ind(i + 1), self.mark('d', &Ty::Num), gname, self.mark('r', &Ty::Num), self.literal(&Ty::Num)));
            lines.push(format!("{}{}set {}(v{}) {{ __t({}, v); }}", ind(i + 1), self.mark('d', &Ty::Num), gname, self.mark('p', &Ty::Num), { let id = self.trace_id; self.trace_id += 1; id }));
            info.getters.push((gname, Ty::Num));
        }
        if self.tape.chance(1, 3) {
            self.tag("class:static-method");
            let sname = format!("s{}", self.classes.len());
            lines.push(format!("{}{}static {}{}(x{}){} {{ return [x, typeof this]; }}", ind(i + 1), self.mark('D', &Ty::Any), sname, self.mark('t', &Ty::Any), self.mark('p', &Ty::Num), self.mark('r', &Ty::Any)));
            info.statics.push((sname, vec![Ty::Num], Ty::Any));
        }
        if self.tape.chance(1, 4) {
            self.tag("class:static-field");
            lines.push(format!("{}{}static {}count{} = {};", ind(i + 1), self.mark('D', &Ty::Num), self.mark('O', &Ty::Num), self.mark('v', &Ty::Num), self.literal(&Ty::Num)));
        }
        // implement the members a base-only class may declare abstract
        if let Some(n) = base.as_ref().and_then(|b| b.only_base) {
            lines.push(format!("{ind}am{n}(x) {{ return \"am\" + x; }}\n{ind}ap{n} = {n};\n{ind}get ag{n}() {{ return {n}; }}\n{ind}set ag{n}(v) {{}}\n{ind}ao{n}(x) {{}}", ind = ind(i + 1), n = n));
            info.fields.push((format!("ap{}", n), Ty::Num));
        }
        // inherit what the base offers
        if let Some(b) = &base {
            for f in &b.fields {
                if !info.fields.iter().any(|x| x.0 == f.0) {
                    info.fields.push(f.clone());
                }
            }
            for m in &b.methods {
                if !info.methods.iter().any(|x| x.0 == m.0) {
                    info.methods.push(m.clone());
                }
            }
            for g in &b.getters {
                info.getters.push(g.clone());
            }
        }
        if self.cfg.ts_slots {
            // TypeScript-only members: index signature, declared field, optional field, method overload-free signature
            lines.insert(0, self.ts_only(&format!("{}[key: string]: any;\n{}declare hidden: number;", ind(i + 1), ind(i + 1))));
            lines.insert(1, self.ts_only(&format!("{ind}private declare readonly hidden2: string;\n{ind}static [key: string]: unknown;\n{ind}optional?(x: number): void;\n{ind}declare [\"computed\"]: number;", ind = ind(i + 1))));
            if only_base {
                // abstract members exist only together with the `abstract` modifier of the class
                lines.push(self.ts_only_group(grp, &format!("{ind}abstract am{n}(x: number): string;\n{ind}protected abstract readonly ap{n}: number;\n{ind}public abstract get ag{n}(): number;\n{ind}abstract set ag{n}(v: number);\n{ind}abstract ao{n}(): void;\n{ind}abstract ao{n}(x?: number): void;", ind = ind(i + 1), n = self.classes.len())));
            }
        }
        let ext = base.as_ref().map(|b| format!(" extends {}", b.name)).unwrap_or_default();
        let idx = self.classes.len();
        self.classes.push(info);
        if only_base {
            self.tag("class:only-base");
            return format!(
                "{}{}class {}{}{}{} {{\n{}\n{}}}",
                ind(i),
                self.ts_only_group(grp, "abstract "),
                name,
                self.mark('T', &Ty::Any),
                ext,
                self.mark('i', &Ty::Any),
                lines.join("\n"),
                ind(i)
            );
        }
        let inst = self.fresh("o");
        let newexpr = self.new_inst(idx, 1);
        self.declare(&inst, Ty::Inst(idx), false);
        let usage = self.inst_use(idx, 1);
        let tr = self.trace(format!("[{}, Object.keys({})]", usage, inst), i);
        format!(
            "{}class {}{}{}{} {{\n{}\n{}}}\n{}const {} = {};",
            ind(i),
            name,
            self.mark('T', &Ty::Any),
            ext,
            self.mark('i', &Ty::Any),
            lines.join("\n"),
            ind(i),
            ind(i),
            inst,
            newexpr
        ) + &format!("\n{}", tr)
    }

    // ------------------------------------------------------------------ generators
    pub fn stmt_generator(&mut self, i: usize) -> String {
        if self.gated("generators") {
            return self.stmt_decl(i);
        }
        let name = self.fresh("gen");
        let n = self.tape.range(0, 3) as usize;
        self.tag("decl:generator");
        let saved = self.enter_fn();
        self.in_generator = true;
        let mut body = vec![];
        for k in 0..n {
            let e = self.expr(&Ty::Num, 1);
            let in_block_ok = !(self.cfg.self_contained && self.gated("C14:gen-yield-in-block"));
            match self.tape.below(10) {
                5 if in_block_ok => {
                    self.tag("gen:yield-in-shadowing-block");
                    body.push(format!("{ind}let sh{k} = {e}; {{ let sh{k} = ({e}) + 1; yield sh{k}; }} yield sh{k};", ind = ind(i + 1), k = k, e = e));
                }
                6 if in_block_ok => {
                    self.tag("gen:return-inside-block");
                    body.push(format!("{}for (let j = 0; j < 3; j++) {{ let w = {} + j; yield w; if (j === 1) {{ return \"r{}\"; }} }}", ind(i + 1), e, k));
                }
                7 if in_block_ok => {
                    self.tag("gen:throw-inside-block-caught-inside");
                    body.push(format!("{}try {{ {{ let q = {}; yield q; throw new Error(\"gx{}\"); }} }} catch (ge) {{ let m = ge.message; yield m; }}", ind(i + 1), e, k));
                }
                8 if in_block_ok => {
                    self.tag("gen:throw-inside-block-uncaught");
                    body.push(format!("{}{{ let q = {}; yield q; if (q === q) {{ let z = 1; throw new RangeError(\"gu{}\"); }} }}", ind(i + 1), e, k));
                }
                9 if in_block_ok => {
                    self.tag("gen:yield-in-switch-block");
                    body.push(format!("{}switch ({}) {{ case 0: {{ let c0 = 1; yield c0; }} default: {{ let c1 = 2; yield c1; break; }} }}", ind(i + 1), k % 2));
                }
                0 if in_block_ok => {
                    self.tag("gen:yield-in-loop");
                    body.push(format!("{}for (let j = 0; j < 2; j++) {{ yield {} + j; }}", ind(i + 1), e));
                }
                1 => {
                    self.tag("gen:yield*");
                    body.push(format!("{}yield* [{}, {}];", ind(i + 1), e, k));
                }
                2 => {
                    self.tag("gen:yield-receives-value");
                    body.push(format!("{}const r{} = yield {}; __t({}, r{});", ind(i + 1), k, e, { let id = self.trace_id; self.trace_id += 1; id }, k));
                }
                3 if in_block_ok && !self.gated("gen-finally-on-early-exit") => {
                    self.tag("gen:yield-in-try-finally");
                    body.push(format!("{}try {{ yield {}; }} finally {{ __t({}, \"fin\"); }}", ind(i + 1), e, { let id = self.trace_id; self.trace_id += 1; id }));
                }
                _ => body.push(format!("{}yield {};", ind(i + 1), e)),
            }
        }
        if self.tape.chance(1, 2) {
            self.tag("gen:return-value");
            body.push(format!("{}return {};", ind(i + 1), self.literal(&Ty::Str)));
        }
        self.leave_fn(saved);
        let throws = body.iter().any(|b| b.contains("throw new RangeError(\"gu"));
        let decl = format!("{}function* {}() {{\n{}\n{}}}", ind(i), name, body.join("\n"), ind(i));
        let id = self.trace_id;
        self.trace_id += 1;
        let use_ = match self.tape.below(9) {
            6 => {
                self.tag("gen:abandon-named-iterator");
                format!("{ind}const it{n} = {n}(); __t({id}, it{n}.next());", ind = ind(i), n = name, id = id)
            }
            7 => {
                self.tag("gen:abandon-after-two");
                format!("{ind}const it{n} = {n}(); __t({id}, [it{n}.next(), it{n}.next()]);", ind = ind(i), n = name, id = id)
            }
            8 => {
                self.tag("gen:method-this-after-yield");
                // the receiver is reachable only through the suspended generator object
                format!(
                    "{ind}class K{n} {{ constructor(t) {{ this.tag = t; this.items = [1, 2, 3]; }} *walk() {{ for (const x of this.items) {{ const pad = [x, {{v: x}}]; yield this.tag + x + pad.length; }} return this.tag; }} }}\n{ind}const mk{n} = () => new K{n}(\"k\").walk();\n{ind}{{ const w = mk{n}(); const first = w.next(); const junk = [1, 2, 3].map((q) => ({{q}})); __t({id}, [first, w.next(), junk.length, [...w], [...{n}()]]); }}",
                    ind = ind(i), n = name, id = id
                )
            }
            0 => {
                self.tag("gen:spread");
                format!("{}__t({}, [...{}()]);", ind(i), id, name)
            }
            1 => {
                self.tag("gen:for-of");
                format!("{}for (const y of {}()) {{ __t({}, y); }}", ind(i), name, id)
            }
            2 => {
                self.tag("gen:manual-next");
                format!("{ind}{{ const it = {n}(); __t({id}, [it.next(), it.next(\"in\"), it.next(), it.next()]); }}", ind = ind(i), n = name, id = id)
            }
            3 => {
                self.tag("gen:early-return()");
                format!("{ind}{{ const it = {n}(); __t({id}, [it.next(), it.return(\"early\"), it.next()]); }}", ind = ind(i), n = name, id = id)
            }
            4 if !(self.shadow_depth > 0 && self.gated("jump-inside-shadowing-block")) => {
                self.tag("gen:for-of-break");
                format!("{}for (const y of {}()) {{ __t({}, y); break; }}", ind(i), name, id)
            }
            _ if !self.gated("destructure-from-generator") => {
                self.tag("gen:destructure");
                format!("{ind}{{ const [g0, g1 = \"d\"] = {n}(); __t({id}, [g0, g1]); }}", ind = ind(i), n = name, id = id)
            }
            _ => format!("{}__t({}, [...{}()]);", ind(i), id, name),
        };
        if throws {
            let id2 = self.trace_id;
            self.trace_id += 1;
            return format!("{}\n{}try {{\n{}\n{}}} catch (gerr) {{ __t({}, gerr.name + \":\" + gerr.message); }}", decl, ind(i), use_, ind(i), id2);
        }
        format!("{}\n{}", decl, use_)
    }

    // ------------------------------------------------------------------ Map / Set
    pub fn stmt_mapset(&mut self, i: usize) -> String {
        let name = self.fresh("ms");
        let id = self.trace_id;
        self.trace_id += 1;
        if self.tape.chance(1, 2) {
            self.tag("lib:Map-session");
            let k1 = self.prim_expr(1).0;
            let k2 = self.prim_expr(1).0;
            let v1 = self.literal(&Ty::Num);
            format!(
                "{ind}const {n} = new Map();\n{ind}{n}.set({k1}, {v1}).set({k2}, \"two\").set(NaN, \"nan\").set(0, \"zero\");\n{ind}__t({id}, [{n}.size, {n}.get({k1}), {n}.get(NaN), {n}.get(-0), {n}.has({k2}), {n}.delete({k2}), [...{n}.keys()], [...{n}.entries()].length]);",
                ind = ind(i),
                n = name,
                k1 = k1,
                k2 = k2,
                v1 = v1,
                id = id
            )
        } else {
            self.tag("lib:Set-session");
            let a = self.prim_expr(1).0;
            let b = self.prim_expr(1).0;
            format!(
                "{ind}const {n} = new Set([{a}, {b}, {a}]);\n{ind}{n}.add(NaN).add(NaN).add(0).add(-0);\n{ind}__t({id}, [{n}.size, {n}.has({b}), {n}.delete({a}), [...{n}], {n}.size, [...{n}.entries()].length, [...{n}.keys()].length, [...{n}.values()].length, {n}.entries().next().done, {n}.values().next().done]);\n{ind}for (const [sk, sv] of {n}.entries()) {{ if (sk === sv) {{ break; }} }}",
                ind = ind(i),
                n = name,
                a = a,
                b = b,
                id = id
            )
        }
    }
}
