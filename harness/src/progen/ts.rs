//! C03: the decoration D(P). Fills the slots that progen left in the program text with purely static
//! TypeScript syntax chosen by the tape. Every production is syntax whose validity does not depend on
//! the type checker's view of the program: annotation types are `any`-compatible supertypes of the
//! slot's static type, the wild type grammar only appears inside declarations (`type`, `interface`,
//! `declare ...`) that nothing uses. There is no tsc in the sandbox; each production follows the
//! TypeScript handbook (Everyday Types, More on Functions, Object Types, Type Manipulation, Classes,
//! Modules, Declaration Reference) or the release notes named at the production.
//!
//! Precedence rule of the type grammar: function, constructor and conditional types, unions with a
//! leading `|` / `&` and `infer` are "low" and are parenthesised whenever they are an operand of
//! `|`, `&`, `keyof`, `readonly`, `[]`, `[K]` or of an `extends` clause; everything else is valid
//! wherever a type is expected.

use super::{MARK, TS_CLOSE, TS_OPEN};
use crate::findings::Gates;
use crate::tape::Tape;
use std::collections::BTreeMap;

pub struct Decorated {
    pub text: String,
    /// number of decorations inserted (type-grammar productions are not counted)
    pub count: usize,
    /// decoration kinds and (`ty:` prefixed) type-grammar productions with their multiplicity
    pub kinds: BTreeMap<String, u32>,
    pub excluded: BTreeMap<String, u32>,
}

#[derive(Clone, Copy, Default)]
pub struct DecoOpts {
    /// the text is a module: `export`/`import type`/`declare global` are available, ambient module
    /// declarations are not
    pub module: bool,
    /// nesting bound of the type grammar
    pub depth: usize,
}

struct D<'t, 'a, 'g> {
    tape: &'t mut Tape<'a>,
    gates: &'g Gates,
    opts: DecoOpts,
    kinds: BTreeMap<String, u32>,
    excluded: BTreeMap<String, u32>,
    count: usize,
    next: usize,
    /// type parameter lists decided for named functions: name -> (text, arity)
    generics: BTreeMap<String, (String, usize)>,
    groups: BTreeMap<char, bool>,
}

/// Helper declarations the decorations refer to (all purely static).
pub const TS_PRELUDE: &str = "type Num0 = number; type Str0 = string; type T0 = any; interface Marker0 {}\ndeclare function gen0<T>(x: T): T;\ndeclare namespace NS0 { interface I {} namespace Inner { type T<U> = U } }\n";

impl<'t, 'a, 'g> D<'t, 'a, 'g> {
    fn gated(&mut self, g: &str) -> bool {
        if self.gates.excluded(g) {
            *self.excluded.entry(g.to_string()).or_insert(0) += 1;
            true
        } else {
            false
        }
    }
    fn note(&mut self, k: &str) {
        *self.kinds.entry(k.to_string()).or_insert(0) += 1;
        self.count += 1;
    }
    fn tnote(&mut self, k: &str) {
        *self.kinds.entry(format!("ty:{}", k)).or_insert(0) += 1;
    }

    // ---------------------------------------------------------------- type grammar
    fn prim(&mut self) -> String {
        let p = ["number", "string", "boolean", "null", "undefined", "void", "never", "unknown", "any", "object", "symbol", "bigint", "{}"];
        p[self.tape.below(p.len())].to_string()
    }

    fn leaf(&mut self) -> String {
        match self.tape.below(12) {
            0 => "\"lit\"".into(),
            1 => "42".into(),
            2 => "true".into(),
            3 => "T0".into(),
            4 => {
                self.tnote("literal-negative");
                "-1".into()
            }
            5 => {
                self.tnote("literal-bigint");
                if self.tape.chance(1, 2) { "10n".into() } else { "-10n".into() }
            }
            6 => "false".into(),
            7 => "'single'".into(),
            _ => self.prim(),
        }
    }

    /// a type valid wherever a type is expected; .1 is true when it is "low" (see the module doc)
    fn ty_p(&mut self, depth: usize) -> (String, bool) {
        if depth == 0 {
            return (self.leaf(), false);
        }
        let d = depth - 1;
        let k = self.tape.below(44);
        match k {
            0 => {
                self.tnote("array");
                (format!("{}[]", self.op(d)), false)
            }
            1 => {
                self.tnote("array-generic");
                (format!("{}<{}>", if self.tape.chance(1, 3) { "ReadonlyArray" } else { "Array" }, self.ty(d)), false)
            }
            2 => {
                self.tnote("union");
                (format!("{} | {}", self.op(d), self.op(d)), false)
            }
            3 => {
                self.tnote("intersection");
                (format!("{} & {}", self.op(d), self.op(d)), false)
            }
            4 => {
                self.tnote("union-of-intersections");
                (format!("{} & {} | {} & {}", self.op(d), self.op(d), self.op(d), self.op(d)), false)
            }
            5 => {
                if self.gated("ts:leading-pipe-union") {
                    return (self.prim(), false);
                }
                self.tnote("leading-pipe");
                if self.tape.chance(1, 4) {
                    (format!("& {} & {}", self.op(d), self.op(d)), true)
                } else {
                    (format!("| {} | {}", self.op(d), self.op(d)), true)
                }
            }
            6 => {
                self.tnote("tuple");
                match self.tape.below(6) {
                    0 => (format!("[{}, {}]", self.ty(d), self.ty(d)), false),
                    1 => (format!("[{}, {}?]", self.ty(d), self.op(d)), false),
                    2 => (format!("[{}, ...{}[]]", self.ty(d), self.op(d)), false),
                    3 => (format!("[...{}[], {}]", self.op(d), self.ty(d)), false),
                    4 => ("[]".into(), false),
                    _ => (format!("[{}]", self.ty(d)), false),
                }
            }
            7 => {
                if self.gated("ts:named-tuple") {
                    return (format!("[{}, {}]", self.ty(d), self.ty(d)), false);
                }
                self.tnote("tuple-named");
                // TypeScript 4.0: labelled tuple elements (all or none are labelled)
                (format!("[first: {}, second?: {}, ...rest: {}[]]", self.ty(d), self.ty(d), self.op(d)), false)
            }
            8 => {
                self.tnote("readonly-array-or-tuple");
                // the `readonly` type operator is only permitted on array and tuple literal types
                if self.tape.chance(1, 2) {
                    (format!("readonly {}[]", self.op(d)), false)
                } else {
                    (format!("readonly [{}, {}]", self.ty(d), self.ty(d)), false)
                }
            }
            9 => {
                self.tnote("function");
                (format!("(a: {}, b?: {}, ...r: {}[]) => {}", self.ty(d), self.ty(d), self.op(d), self.ty(d)), true)
            }
            10 => {
                self.tnote("function-generic");
                match self.tape.below(3) {
                    0 => (format!("<U>(x: U) => {}", self.ty(d)), true),
                    1 => {
                        // the default has to satisfy the constraint: use the same type for both
                        let c = self.ty(d);
                        (format!("<U extends {} = {}, V = U[]>(x: U, ...r: V[]) => void", c, c), true)
                    }
                    _ => ("<const U extends readonly unknown[]>(x: U) => U".into(), true),
                }
            }
            11 => {
                self.tnote("function-this-parameter");
                (format!("(this: {}, x: {}) => void", self.ty(d), self.ty(d)), true)
            }
            12 => {
                if self.gated("ts:constructor-type") {
                    return (self.prim(), false);
                }
                self.tnote("constructor");
                match self.tape.below(3) {
                    0 => (format!("new (a: {}) => {}", self.ty(d), self.ty(d)), true),
                    1 => (format!("abstract new (...a: any[]) => {}", self.ty(d)), true),
                    _ => (format!("new <U>(x: U) => {}", self.ty(d)), true),
                }
            }
            13 => {
                self.tnote("function-returning-union");
                (format!("() => {} | {}", self.op(d), self.op(d)), true)
            }
            14 => {
                if self.gated("ts:type-predicate") {
                    return (self.prim(), false);
                }
                self.tnote("function-predicate");
                match self.tape.below(3) {
                    0 => (format!("(x: unknown) => x is {}", self.ty(d)), true),
                    1 => (format!("(x: unknown) => asserts x is {}", self.ty(d)), true),
                    _ => ("(x: unknown) => asserts x".into(), true),
                }
            }
            15 => {
                self.tnote("object");
                let sep = if self.tape.chance(1, 3) { "," } else { ";" };
                (format!("{{ a: {}{sep} b?: {}{sep} readonly c: {} }}", self.ty(d), self.ty(d), self.ty(d), sep = sep), false)
            }
            16 => {
                if self.gated("ts:call-construct-signature") {
                    return (format!("{{ m(x: {}): {} }}", self.ty(d), self.ty(d)), false);
                }
                self.tnote("object-signatures");
                (
                    format!(
                        "{{ (x: {}): {}; new (x: {}): {}; <U>(x: U): U; m(x: {}): {}; o?(): void; g<U>(u: U): U; [k: string]: any; readonly [n: number]: any }}",
                        self.ty(d),
                        self.ty(d),
                        self.ty(d),
                        self.ty(d),
                        self.ty(d),
                        self.ty(d)
                    ),
                    false,
                )
            }
            17 => {
                self.tnote("object-member-names");
                // reserved words, strings, numbers and computed well-known symbols as member names; accessors (TS 4.3)
                (format!("{{ type: {}; readonly: boolean; readonly readonly: 1; new: 2; delete(): void; default: any; in: 3; abstract: 4; declare: 5; static: 6; \"quoted-name\": 7; 42: 8; [Symbol.iterator](): Iterator<{}>; get acc(): number; set acc(v: number) }}", self.ty(d), self.ty(d)), false)
            }
            18 => {
                self.tnote("object-index-signatures");
                (format!("{{ [k: string]: {}; [n: number]: {}; [s: symbol]: any; [t: `data-${{string}}`]: unknown }}", self.ty(d), self.ty(d)), false)
            }
            19 => {
                self.tnote("mapped");
                match self.tape.below(3) {
                    0 => (format!("{{ [K in keyof T0]: {} }}", self.ty(d)), false),
                    1 => ("{ [K in \"a\" | \"b\"]: K }".into(), false),
                    _ => ("{ [K in keyof T0]: T0[K] }".into(), false),
                }
            }
            20 => {
                if self.gated("ts:mapped-type-modifiers") {
                    return (format!("{{ [K in keyof T0]: {} }}", self.ty(d)), false);
                }
                self.tnote("mapped-modifiers");
                match self.tape.below(4) {
                    0 => (format!("{{ readonly [K in keyof T0]?: {} }}", self.ty(d)), false),
                    1 => ("{ -readonly [K in keyof T0]-?: T0[K] }".into(), false),
                    2 => (format!("{{ +readonly [K in keyof T0]+?: {} }}", self.ty(d)), false),
                    // TypeScript 4.1: key remapping with `as`
                    _ => ("{ [K in keyof T0 as `get${string & K}`]: () => T0[K] }".into(), false),
                }
            }
            21 => {
                self.tnote("conditional");
                (format!("{} extends {} ? {} : {}", self.op(d), self.op(d), self.ty(d), self.ty(d)), true)
            }
            22 => {
                self.tnote("conditional-chain");
                (format!("T0 extends string ? \"s\" : T0 extends number ? \"n\" : T0 extends {} ? {} : never", self.op(d), self.ty(d)), true)
            }
            23 => {
                if self.gated("ts:infer") {
                    return (self.prim(), false);
                }
                self.tnote("conditional-infer");
                match self.tape.below(6) {
                    0 => (format!("T0 extends Array<infer U> ? U : {}", self.ty(d)), true),
                    1 => ("T0 extends (infer U)[] ? U : never".into(), true),
                    2 => ("T0 extends (...a: any[]) => infer R ? R : never".into(), true),
                    3 => ("T0 extends [infer H, ...infer R] ? [H, R] : never".into(), true),
                    4 => ("T0 extends `${infer H}.${infer R}` ? [H, R] : never".into(), true),
                    // TypeScript 4.7: extends constraints on infer type variables
                    _ => ("T0 extends [infer H extends string, ...unknown[]] ? H : never".into(), true),
                }
            }
            24 => {
                self.tnote("indexed-access");
                match self.tape.below(8) {
                    0 => ("({ a: number; b: string })[\"a\"]".into(), false),
                    1 => ("{ a: number; b: string }[\"a\" | \"b\"]".into(), false),
                    2 => ("T0[keyof T0]".into(), false),
                    3 => ("T0[keyof T0][]".into(), false),
                    4 => (format!("[{}, {}][0]", self.ty(d), self.ty(d)), false),
                    5 => (format!("[{}, {}][number]", self.ty(d), self.ty(d)), false),
                    6 => ("string[][number]".into(), false),
                    _ => (format!("{}[][\"length\"]", self.op(d)), false),
                }
            }
            25 => {
                self.tnote("keyof");
                match self.tape.below(4) {
                    0 => ("keyof T0".into(), false),
                    1 => (format!("keyof {}", self.op(d)), false),
                    2 => ("keyof typeof globalThis".into(), false),
                    _ => ("keyof T0[]".into(), false),
                }
            }
            26 => {
                self.tnote("typeof");
                let q = ["typeof globalThis", "typeof Math.PI", "typeof console.log", "typeof JSON", "typeof Array.prototype.slice", "typeof __show", "typeof Number.MAX_SAFE_INTEGER"];
                (q[self.tape.below(q.len())].to_string(), false)
            }
            27 => {
                self.tnote("typeof-instantiation");
                // TypeScript 4.7 instantiation expressions in type queries
                ("ReturnType<typeof gen0<number>>".into(), false)
            }
            28 => {
                if self.gated("ts:template-literal-type") {
                    return ("string".into(), false);
                }
                self.tnote("template-literal");
                let q = ["`pre-${string}-post`", "`${number}px`", "`${\"a\" | \"b\"}_${1 | 2}`", "`plain`", "Uppercase<`a${string}`>", "`a${`b${string}`}c`"];
                (q[self.tape.below(q.len())].to_string(), false)
            }
            29 => {
                self.tnote("generic-reference");
                match self.tape.below(6) {
                    0 => (format!("Map<string, {}>", self.ty(d)), false),
                    1 => (format!("Promise<{}> | Record<string, {}>", self.ty(d), self.ty(d)), false),
                    2 => (format!("Partial<{{ a: {} }}>", self.ty(d)), false),
                    3 => (format!("Pick<{{ a: 1; b: {} }}, \"a\">", self.ty(d)), false),
                    4 => (format!("Exclude<{}, {}>", self.ty(d), self.ty(d)), false),
                    _ => (format!("Parameters<(a: {}) => void>", self.ty(d)), false),
                }
            }
            30 => {
                self.tnote("generic-nested-close");
                // `>>` and `>>>` close nested type argument lists
                if self.tape.chance(1, 2) {
                    (format!("Array<Array<{}>>", self.ty(d)), false)
                } else {
                    (format!("Map<string, Array<Set<{}>>>", self.ty(d)), false)
                }
            }
            31 => {
                self.tnote("qualified-name");
                if self.tape.chance(1, 2) { ("NS0.I".into(), false) } else { ("NS0.Inner.T<number>".into(), false) }
            }
            32 => {
                self.tnote("parenthesized");
                (format!("(({}))", self.ty(d)), false)
            }
            33 if self.opts.module => {
                self.tnote("import-type");
                // import types (TS 2.9): the module exists in module programs
                if self.tape.chance(1, 2) { ("import(\"./types\").TA".into(), false) } else { ("typeof import(\"./types\")".into(), false) }
            }
            _ => (self.leaf(), false),
        }
    }

    fn ty(&mut self, depth: usize) -> String {
        self.ty_p(depth).0
    }

    /// a type usable as an operand of `|`, `&`, `keyof`, `[]`, `extends`
    fn op(&mut self, depth: usize) -> String {
        let (t, low) = self.ty_p(depth);
        if low {
            format!("({})", t)
        } else {
            t
        }
    }

    /// a type the slot's value certainly has (hint from progen) or a supertype of it
    fn compat(&mut self, hint: char) -> String {
        let base: &[&str] = match hint {
            'n' => &["number", "number | undefined", "number | string", "any", "unknown", "Num0", "number | null", "| number | bigint", "Readonly<number>"],
            's' => &["string", "string | undefined", "string | number", "any", "unknown", "Str0", "string | `x${string}`"],
            'b' => &["boolean", "boolean | undefined", "any", "unknown", "true | false"],
            'u' => &["null | undefined", "any", "unknown", "undefined | null | number"],
            'N' => &["number[]", "Array<number>", "readonly number[]", "any[]", "any", "unknown", "(number | undefined)[]", "ReadonlyArray<number>", "[...number[]]"],
            'S' => &["string[]", "Array<string>", "readonly string[]", "any[]", "any", "unknown"],
            'A' => &["any[]", "Array<any>", "unknown[]", "any", "unknown", "readonly unknown[]"],
            'o' => &["any", "object", "unknown", "Record<string, any>", "{ [k: string]: any }", "{}"],
            'f' => &["any", "Function", "(...args: any[]) => any", "unknown", "{ (...args: any[]): any }"],
            'm' => &["Map<any, any>", "any", "unknown", "Map<string, number>", "ReadonlyMap<any, any>"],
            'e' => &["Set<any>", "any", "unknown", "Set<number>", "ReadonlySet<any>"],
            _ => &["any", "unknown"],
        };
        let t = base[self.tape.below(base.len())];
        t.to_string()
    }

    /// `as`-compatible target (any/unknown are always allowed assertion targets)
    fn assert_target(&mut self, hint: char) -> String {
        match self.tape.below(3) {
            0 => "any".into(),
            1 => "unknown".into(),
            _ => self.compat(hint),
        }
    }

    fn type_params(&mut self, for_class: bool) -> (String, usize) {
        let pool: &[(&str, usize)] = if for_class {
            &[("<T = any>", 1), ("<T extends object = {}>", 1), ("<T = any, U extends T[] = T[]>", 2), ("<in out T = unknown>", 1)]
        } else {
            &[("<T>", 1), ("<T, U>", 2), ("<T extends object>", 1), ("<T = any>", 1), ("<T extends string | number = string, U extends T[] = T[]>", 2), ("<const T>", 1), ("<T extends readonly unknown[] = []>", 1)]
        };
        let (t, n) = pool[self.tape.below(pool.len())];
        if t == "<const T>" && self.gated("ts:const-type-parameter") {
            return ("<T>".into(), 1);
        }
        (t.to_string(), n)
    }

    // ---------------------------------------------------------------- slots
    fn as_suffix(&mut self, hint: char) -> String {
        match self.tape.below(5) {
            0 | 1 => {
                self.note("assertion:as");
                format!(" as {}", self.assert_target(hint))
            }
            2 => {
                if self.gated("ts:as-chain") {
                    self.note("assertion:as");
                    return " as any".into();
                }
                self.note("assertion:as-chain");
                format!(" as unknown as {}", self.compat(hint))
            }
            3 => {
                if self.gated("ts:satisfies") {
                    return String::new();
                }
                self.note("assertion:satisfies");
                // TypeScript 4.9
                format!(" satisfies {}", self.compat(hint))
            }
            _ => {
                if self.gated("ts:satisfies") {
                    return String::new();
                }
                self.note("assertion:satisfies-as");
                format!(" satisfies unknown as {}", self.assert_target(hint))
            }
        }
    }

    /// `name` = identifier directly before the mark (function name for 't' / callee for 'u')
    fn slot(&mut self, kind: char, hint: char, name: &str) -> String {
        match kind {
            'v' | 'p' | 'r' => {
                if !self.tape.chance(1, 2) {
                    return String::new();
                }
                self.note(match kind {
                    'v' => "annotation:variable",
                    'p' => "annotation:parameter",
                    _ => "annotation:return",
                });
                let t = if kind == 'r' && self.tape.chance(1, 6) { "any".to_string() } else { self.compat(hint) };
                format!(": {}", t)
            }
            'V' => {
                // `let x;` directly followed by an assignment: annotation and/or definite assignment assertion
                match self.tape.below(4) {
                    0 => String::new(),
                    1 => {
                        self.note("annotation:variable");
                        format!(": {}", self.compat(hint))
                    }
                    _ => {
                        self.note("annotation:definite-assignment");
                        format!("!: {}", self.compat(hint))
                    }
                }
            }
            'k' => {
                if !self.tape.chance(1, 2) {
                    return String::new();
                }
                self.note("annotation:catch-variable");
                if self.tape.chance(1, 2) { ": unknown".into() } else { ": any".into() }
            }
            'a' => {
                if !self.tape.chance(1, 2) {
                    return String::new();
                }
                self.as_suffix(hint)
            }
            'A' => {
                // bare (unparenthesised) assertion at the end of an initialiser, argument or return value
                if !self.tape.chance(1, 5) {
                    return String::new();
                }
                let s = self.as_suffix(hint);
                if !s.is_empty() {
                    self.note("assertion:bare-position");
                }
                s
            }
            'g' => {
                if !self.tape.chance(1, 5) {
                    return String::new();
                }
                if self.gated("ts:angle-assertion") {
                    return String::new();
                }
                self.note("assertion:angle-bracket");
                format!("<{}>", self.assert_target(hint))
            }
            'b' => {
                if !self.tape.chance(1, 4) {
                    return String::new();
                }
                self.note("non-null:!");
                if self.tape.chance(1, 8) { "!!".into() } else { "!".into() }
            }
            's' => {
                if !self.tape.chance(1, 2) {
                    return String::new();
                }
                self.stmt_level()
            }
            'l' => {
                if !self.tape.chance(1, 4) {
                    return String::new();
                }
                let n = self.next;
                self.next += 1;
                self.note("decl:local-type");
                let dd = self.opts.depth.min(2);
                if self.tape.chance(1, 2) {
                    format!("type L{}<T0 = any> = {};", n, self.ty(dd))
                } else {
                    format!("interface LI{} {{ a: {}; m(): void }}", n, self.ty(dd))
                }
            }
            'c' => {
                if !self.tape.chance(1, 2) {
                    return String::new();
                }
                // fields are read from outside the class, so only `public` is a valid accessibility
                let mods = ["public ", "readonly ", "public readonly "];
                let m = mods[self.tape.below(mods.len())];
                if m.trim().contains(' ') && self.gated("ts:member-modifiers>=2") {
                    self.note("modifier:single");
                    return "public ".into();
                }
                self.note(if m.trim().contains(' ') { "modifier:double" } else { "modifier:single" });
                m.to_string()
            }
            'd' => {
                if !self.tape.chance(1, 2) {
                    return String::new();
                }
                self.note("modifier:method");
                "public ".into()
            }
            'D' => {
                // before `static`
                if !self.tape.chance(1, 2) {
                    return String::new();
                }
                self.note("modifier:before-static");
                "public ".into()
            }
            'O' => {
                // between `static` and a field name
                if !self.tape.chance(1, 2) {
                    return String::new();
                }
                self.note("modifier:after-static");
                "readonly ".into()
            }
            'R' => {
                if !self.tape.chance(1, 2) {
                    return String::new();
                }
                self.note("annotation:rest-parameter");
                if self.tape.chance(1, 2) { ": any[]".into() } else { ": unknown[]".into() }
            }
            'T' => {
                if !self.tape.chance(1, 2) {
                    return String::new();
                }
                self.note("generics:class-type-parameters");
                self.type_params(true).0
            }
            't' => match self.generics.get(name) {
                Some((text, _)) => {
                    let text = text.clone();
                    self.note("generics:type-parameters");
                    text
                }
                None => String::new(),
            },
            'w' => {
                if !self.tape.chance(1, 4) {
                    return String::new();
                }
                if self.gated("ts:generic-arrow") {
                    return String::new();
                }
                self.note("generics:arrow-type-parameters");
                let pool = ["<T,>", "<T>", "<T extends unknown>", "<T, U = T[]>", "<const T,>"];
                pool[self.tape.below(pool.len())].to_string()
            }
            'u' => {
                // explicit type arguments only on calls of functions that D made generic
                let Some((_, arity)) = self.generics.get(name).cloned() else { return String::new() };
                if !self.tape.chance(3, 4) {
                    return String::new();
                }
                if self.gated("ts:call-type-arguments") {
                    return String::new();
                }
                self.note("generics:call-type-arguments");
                // `any` satisfies every constraint used by `type_params`
                let args: Vec<&str> = (0..arity).map(|_| "any").collect();
                format!("<{}>", args.join(", "))
            }
            'i' => {
                if !self.tape.chance(1, 2) {
                    return String::new();
                }
                self.note("class:implements");
                if self.tape.chance(1, 2) { " implements Marker0".into() } else { " implements Marker0, NS0.I".into() }
            }
            _ => String::new(),
        }
    }

    fn interface_body(&mut self, d: usize) -> String {
        let mut m = vec![format!("a: {}", self.ty(d)), format!("b?: {}", self.ty(d.min(1))), format!("readonly c: {}", self.ty(d.min(1))), format!("m(x: {}): {}", self.ty(d.min(1)), self.ty(d.min(1)))];
        if self.tape.chance(1, 2) && !self.gated("ts:call-construct-signature") {
            m.push(format!("(x: {}): string", self.ty(d.min(1))));
            m.push("new (x: number): Marker0".into());
            m.push("<U>(x: U): U".into());
        }
        if self.tape.chance(1, 2) {
            m.push("self(): this".into());
            m.push("is(): this is Marker0".into());
            m.push("get acc(): number".into());
            m.push("set acc(v: number)".into());
            m.push("opt?(): void".into());
            m.push("[Symbol.iterator](): Iterator<number>".into());
        }
        if self.tape.chance(1, 3) {
            m.push("type: string".into());
            m.push("readonly: boolean".into());
            m.push("new: number".into());
            m.push("\"quoted\": 1".into());
        }
        // members separated by `;`, `,` or line breaks
        match self.tape.below(4) {
            0 => format!("{{\n  {}\n}}", m.join("\n  ")),
            1 => format!("{{ {} }}", m.join(", ")),
            _ => format!("{{ {} }}", m.join("; ")),
        }
    }

    fn stmt_level(&mut self) -> String {
        let n = self.next;
        self.next += 1;
        let dd = self.opts.depth;
        let k = self.tape.below(if self.opts.module { 22 } else { 18 });
        match k {
            0 => {
                self.note("decl:interface");
                format!("interface I{}<T0 = any> {}\n", n, self.interface_body(dd.min(2)))
            }
            1 => {
                self.note("decl:type-alias");
                format!("type A{}<T0 = any> = {};\n", n, self.ty(dd))
            }
            2 => {
                self.note("decl:interface-generic-extends");
                match self.tape.below(3) {
                    0 => format!("interface J{}<T0 extends object = {{}}> extends Marker0 {{ [k: string]: any; gen<U>(u: U): T0 }}\n", n),
                    1 => format!("interface J{}<T0> extends Marker0, Array<T0>, NS0.I {{}}\n", n),
                    // declaration merging + variance annotations (TS 4.7)
                    _ => format!("interface J{n}<in A, out B, in out C> {{ f(a: A): B; g(c: C): C }}\ninterface J{n}<in A, out B, in out C> {{ h(): void }}\n", n = n),
                }
            }
            3 => {
                self.note("decl:declare-const");
                if self.tape.chance(1, 3) {
                    format!("declare const dc{n}: {}, dd{n}: {};\n", self.ty(dd.min(2)), self.ty(1), n = n)
                } else {
                    format!("declare const dc{}: {};\n", n, self.ty(dd.min(2)))
                }
            }
            4 => {
                self.note("decl:declare-function");
                match self.tape.below(3) {
                    0 => format!("declare function df{}<T0>(x: {}, ...rest: any[]): {};\n", n, self.ty(1), self.ty(1)),
                    1 => format!("declare function df{n}(x: number): number;\ndeclare function df{n}(x: string): string;\ndeclare function df{n}(this: void, x?: unknown): x is string;\n", n = n),
                    _ => format!("declare function df{}(x: unknown): asserts x is {};\n", n, self.ty(1)),
                }
            }
            5 => {
                if self.gated("ts:declare-class") {
                    return String::new();
                }
                self.note("decl:declare-class");
                format!(
                    "declare class DC{}<T0 = any> extends Array<T0> implements Marker0 {{ constructor(x: {}); constructor(); private p: number; protected static s: string; public static readonly r: 1; m(): T0; m(x: number): void; get g(): number; set g(v: number); [k: string]: any; protected abstract?: number; readonly #priv: number; static create<U>(this: void, u: U): DC{}<U> }}\n",
                    n,
                    self.ty(1),
                    n
                )
            }
            6 => {
                if self.gated("ts:declare-module") {
                    return String::new();
                }
                self.note("decl:declare-namespace");
                if self.tape.chance(1, 3) {
                    format!("declare namespace DN{}.Deep.Er {{ let y: number }}\n", n)
                } else {
                    format!("declare namespace DN{} {{ const x: number; function f(a: string): void; function f(a: number): void; interface K {{ k: {} }} class C {{ m(): void }} namespace Inner {{ let y: number }} export const z: number; type T = number }}\n", n, self.ty(1))
                }
            }
            7 => {
                if self.gated("ts:declare-global") {
                    return String::new();
                }
                self.note("decl:declare-let-var");
                format!("declare let dl{}: {};\ndeclare var dv{}: any;\n", n, self.ty(1), n)
            }
            8 => {
                self.note("decl:type-alias-function");
                format!("type F{} = <T0>(x: T0, y?: {}) => T0;\n", n, self.ty(1))
            }
            9 => {
                if self.gated("ts:type-predicate") {
                    return String::new();
                }
                self.note("decl:type-predicate");
                format!("type P{} = (x: unknown) => x is string;\ntype Q{} = (x: unknown) => asserts x is number;\ninterface G{} {{ g(x: any): x is number; h(this: G{}, x: any): asserts x }}\n", n, n, n, n)
            }
            10 => {
                if self.gated("ts:abstract-class-decl") {
                    return String::new();
                }
                self.note("decl:declare-abstract-class");
                format!("declare abstract class Ab{} {{ abstract m(x: number): string; abstract readonly p: number; protected abstract q(): void; abstract get g(): number; abstract set g(v: number); private static override?: number }}\n", n)
            }
            11 => {
                if self.gated("ts:unique-symbol") {
                    return String::new();
                }
                self.note("decl:unique-symbol");
                format!("declare const us{}: unique symbol;\ndeclare class US{} {{ static readonly key: unique symbol }}\n", n, n)
            }
            12 => {
                self.note("decl:declare-type-interface");
                format!("declare type DT{} = {};\ndeclare interface DI{} {{ a: 1 }}\n", n, self.ty(1), n)
            }
            13 => {
                self.note("decl:type-alias-asi");
                // declarations ended by line breaks instead of semicolons
                format!("type S{n} = number\ntype R{n} = {{\n  a: S{n}\n  b: string[]\n  [k: number]: unknown\n}}\n", n = n)
            }
            14 if !self.opts.module => {
                self.note("decl:declare-module");
                // ambient module declarations (scripts only; in a module they would be augmentations)
                if self.tape.chance(1, 3) {
                    format!("declare module \"*.ext{}\";\n", n)
                } else {
                    format!("declare module \"amb{}\" {{ export const x: number; export default function f(): void; export interface I {{}} export type {{ I as X }}; export {{ x as y }}; }}\n", n)
                }
            }
            14 | 18 => {
                self.note("decl:declare-global");
                format!("declare global {{ interface GlobalThing{} {{ a: 1 }} var gv{}: number; }}\n", n, n)
            }
            15 => {
                self.note("decl:interface-merge-with-value");
                // a type may share its name with nothing at all; two merged declarations
                format!("interface M{n} {{ a: 1 }}\ninterface M{n} {{ b: 2 }}\ntype MK{n} = keyof M{n};\n", n = n)
            }
            16 => {
                self.note("decl:type-alias");
                format!("type A{}<T0 extends {} = any, const_ = T0> = {};\n", n, self.op(1), self.ty(dd))
            }
            17 => {
                self.note("decl:interface");
                format!("interface I{} extends Marker0 {}\n", n, self.interface_body(dd.min(2)))
            }
            19 => {
                self.note("module:export-type-declaration");
                match self.tape.below(4) {
                    0 => format!("export interface EI{} {{ a: {} }}\n", n, self.ty(1)),
                    1 => format!("export type ET{} = {};\n", n, self.ty(dd.min(2))),
                    2 => format!("export declare const ed{n}: number;\nexport declare function ef{n}(): void;\nexport declare class EC{n} {{ m(): void }}\n", n = n),
                    _ => format!("export declare namespace EN{} {{ const x: 1 }}\n", n),
                }
            }
            20 => {
                self.note("module:import-type");
                match self.tape.below(4) {
                    0 => format!("import type {{ TA as TA{} }} from \"./types\";\n", n),
                    1 => format!("import type TD{} from \"./types\";\n", n),
                    2 => format!("import type * as TN{} from \"./types\";\n", n),
                    _ => format!("import type {{ TA as TX{n}, TB as TY{n} }} from \"./types\";\n", n = n),
                }
            }
            _ => {
                self.note("module:export-type-list");
                match self.tape.below(4) {
                    0 => format!("export type {{ TA as RA{} }} from \"./types\";\n", n),
                    1 => format!("export type * as RN{} from \"./types\";\n", n),
                    2 => format!("type LT{n} = 1;\nexport type {{ LT{n} }};\n", n = n),
                    _ => format!("type LU{n} = 2;\nexport {{ type LU{n} as LV{n} }};\n", n = n),
                }
            }
        }
    }
}

fn ident_before(out: &str) -> &str {
    let end = out.len();
    let start = out.char_indices().rev().take_while(|(_, c)| c.is_ascii_alphanumeric() || *c == '_' || *c == '$').last().map(|(i, _)| i).unwrap_or(end);
    &out[start..end]
}

/// Fill the decoration slots of `marked` (script, default options).
pub fn decorate(marked: &str, tape: &mut Tape, gates: &Gates) -> Decorated {
    decorate_with(marked, tape, gates, DecoOpts { module: false, depth: 3 })
}

/// Fill the decoration slots of `marked`. `TS_PRELUDE` declares the helper types the slots refer to.
pub fn decorate_with(marked: &str, tape: &mut Tape, gates: &Gates, opts: DecoOpts) -> Decorated {
    let mut d = D { tape, gates, opts, kinds: BTreeMap::new(), excluded: BTreeMap::new(), count: 0, next: 0, generics: BTreeMap::new(), groups: BTreeMap::new() };
    // pass 1: decide which named functions become generic (calls may precede the declaration)
    {
        let chars: Vec<char> = marked.chars().collect();
        let mut name = String::new();
        let mut i = 0;
        while i < chars.len() {
            let c = chars[i];
            if c == MARK {
                if chars.get(i + 1) == Some(&'t') && !name.is_empty() && !d.generics.contains_key(&name) && d.tape.chance(1, 2) {
                    let tp = d.type_params(false);
                    d.generics.insert(name.clone(), tp);
                }
                i += 3;
                name.clear();
                continue;
            }
            if c.is_ascii_alphanumeric() || c == '_' || c == '$' {
                name.push(c);
            } else {
                name.clear();
            }
            i += 1;
        }
    }
    let mut out = String::with_capacity(marked.len() * 2);
    out.push_str(TS_PRELUDE);
    let mut it = marked.chars();
    let mut skipping = false;
    while let Some(c) = it.next() {
        if c == MARK {
            let kind = it.next().unwrap_or(' ');
            let hint = it.next().unwrap_or('a');
            if !skipping {
                let name = ident_before(&out).to_string();
                let s = d.slot(kind, hint, &name);
                out.push_str(&s);
            }
        } else if c == TS_OPEN {
            let group = it.next().unwrap_or('0');
            let keep = if group == '0' {
                d.tape.chance(1, 2)
            } else {
                match d.groups.get(&group) {
                    Some(k) => *k,
                    None => {
                        let k = d.tape.chance(1, 2);
                        d.groups.insert(group, k);
                        k
                    }
                }
            };
            if keep {
                d.note(if group == '0' { "ts-only-block" } else { "ts-only-block:abstract-class" });
            } else {
                skipping = true;
            }
        } else if c == TS_CLOSE {
            skipping = false;
        } else if !skipping {
            out.push(c);
        }
    }
    Decorated { text: out, count: d.count, kinds: d.kinds, excluded: d.excluded }
}
