//! C03: the decoration D(P). Fills the slots that progen left in the program text with purely static
//! TypeScript syntax chosen by the tape. Every production is syntax whose validity does not depend on
//! the type checker: annotation types are `any`-compatible supertypes of the slot's static type, the
//! wild type grammar only appears inside declarations (`type`, `interface`, `declare`) that nothing uses.

use super::{MARK, TS_CLOSE, TS_OPEN};
use crate::findings::Gates;
use crate::tape::Tape;
use std::collections::BTreeMap;

pub struct Decorated {
    pub text: String,
    pub count: usize,
    pub kinds: BTreeMap<String, u32>,
    pub excluded: BTreeMap<String, u32>,
}

struct D<'t, 'a, 'g> {
    tape: &'t mut Tape<'a>,
    gates: &'g Gates,
    kinds: BTreeMap<String, u32>,
    excluded: BTreeMap<String, u32>,
    count: usize,
    next: usize,
}

impl<'t, 'a, 'g> D<'t, 'a, 'g> {
    fn gated(&mut self, g: &str) -> bool {
        if self.gates.excluded(g) {
            *self.excluded.entry(g.to_string()).or_insert(0) += 1;
            true
        } else {
            false
        }
    }
    fn note(&mut self, k: &str) {
        *self.kinds.entry(k.to_string()).or_insert(0) += 1;
        self.count += 1;
    }

    // ---------------------------------------------------------------- type grammar
    fn prim(&mut self) -> String {
        let p = ["number", "string", "boolean", "null", "undefined", "void", "never", "unknown", "any", "object", "symbol", "bigint"];
        p[self.tape.below(p.len())].to_string()
    }

    /// an arbitrary type expression (used only where nothing depends on it being the "right" type)
    fn ty(&mut self, depth: usize) -> String {
        if depth == 0 {
            return match self.tape.below(6) {
                0 => "\"lit\"".into(),
                1 => "42".into(),
                2 => "true".into(),
                3 => "T0".into(),
                _ => self.prim(),
            };
        }
        let d = depth - 1;
        match self.tape.below(22) {
            0 => format!("{}[]", self.ty_paren(d)),
            1 => format!("Array<{}>", self.ty(d)),
            2 => format!("{} | {}", self.ty(d), self.ty(d)),
            3 => format!("{} & {}", self.ty_paren(d), self.ty_paren(d)),
            4 => {
                if self.gated("ts:leading-pipe-union") {
                    return self.prim();
                }
                format!("| {} | {}", self.ty(d), self.ty(d))
            }
            5 => format!("[{}, {}]", self.ty(d), self.ty(d)),
            6 => {
                if self.gated("ts:named-tuple") {
                    return format!("[{}, {}]", self.ty(d), self.ty(d));
                }
                format!("[first: {}, second?: {}, ...rest: {}[]]", self.ty(d), self.ty(d), self.ty_paren(d))
            }
            7 => format!("(a: {}, b?: {}) => {}", self.ty(d), self.ty(d), self.ty(d)),
            8 => {
                if self.gated("ts:constructor-type") {
                    return self.prim();
                }
                format!("new (a: {}) => {}", self.ty(d), self.ty(d))
            }
            9 => format!("{{ a: {}; b?: {}; readonly c: {} }}", self.ty(d), self.ty(d), self.ty(d)),
            10 => {
                if self.gated("ts:call-construct-signature") {
                    return format!("{{ m(x: {}): {} }}", self.ty(d), self.ty(d));
                }
                format!("{{ (x: {}): {}; new (x: {}): {}; m(x: {}): {}; [k: string]: any }}", self.ty(d), self.ty(d), self.ty(d), self.ty(d), self.ty(d), self.ty(d))
            }
            11 => format!("{{ [K in keyof T0]: {} }}", self.ty(d)),
            12 => {
                if self.gated("ts:mapped-type-modifiers") {
                    return format!("{{ [K in keyof T0]: {} }}", self.ty(d));
                }
                format!("{{ readonly [K in keyof T0]?: {} }}", self.ty(d))
            }
            13 => format!("T0 extends {} ? {} : {}", self.ty_paren(d), self.ty(d), self.ty(d)),
            14 => {
                if self.gated("ts:infer") {
                    return self.prim();
                }
                format!("T0 extends Array<infer U> ? U : {}", self.ty(d))
            }
            15 => "({ a: number; b: string })[\"a\"]".into(),
            16 => "keyof T0".into(),
            17 => "typeof globalThis".into(),
            18 => {
                if self.gated("ts:template-literal-type") {
                    return "string".into();
                }
                "`pre-${string}-post`".into()
            }
            19 => format!("Map<string, {}>", self.ty(d)),
            20 => format!("Promise<{}> | Record<string, {}>", self.ty(d), self.ty(d)),
            _ => format!("Partial<{{ a: {} }}>", self.ty(d)),
        }
    }

    fn ty_paren(&mut self, depth: usize) -> String {
        let t = self.ty(depth);
        if t.contains(' ') || t.starts_with('|') {
            format!("({})", t)
        } else {
            t
        }
    }

    /// a type the slot's value certainly has (hint from progen) or a supertype of it
    fn compat(&mut self, hint: char) -> String {
        let base: &[&str] = match hint {
            'n' => &["number", "number | undefined", "number | string", "any", "unknown", "Num0", "number | null"],
            's' => &["string", "string | undefined", "string | number", "any", "unknown", "Str0"],
            'b' => &["boolean", "boolean | undefined", "any", "unknown"],
            'u' => &["null | undefined", "any", "unknown", "undefined | null | number"],
            'N' => &["number[]", "Array<number>", "readonly number[]", "any[]", "any", "unknown", "(number | undefined)[]"],
            'S' => &["string[]", "Array<string>", "readonly string[]", "any[]", "any", "unknown"],
            'A' => &["any[]", "Array<any>", "unknown[]", "any", "unknown"],
            'o' => &["any", "object", "unknown", "Record<string, any>", "{ [k: string]: any }"],
            'f' => &["any", "Function", "(...args: any[]) => any", "unknown"],
            'm' => &["Map<any, any>", "any", "unknown", "Map<string, number>"],
            'e' => &["Set<any>", "any", "unknown", "Set<number>"],
            _ => &["any", "unknown"],
        };
        let t = base[self.tape.below(base.len())];
        t.to_string()
    }

    /// `as`-compatible target (any/unknown are always allowed assertion targets)
    fn assert_target(&mut self, hint: char) -> String {
        match self.tape.below(3) {
            0 => "any".into(),
            1 => "unknown".into(),
            _ => self.compat(hint),
        }
    }

    // ---------------------------------------------------------------- slots
    fn slot(&mut self, kind: char, hint: char) -> String {
        // roughly half of the slots stay empty
        match kind {
            'v' | 'p' | 'r' => {
                if !self.tape.chance(1, 2) {
                    return String::new();
                }
                self.note(match kind {
                    'v' => "annotation:variable",
                    'p' => "annotation:parameter",
                    _ => "annotation:return",
                });
                let t = if kind == 'r' && self.tape.chance(1, 6) { "any".to_string() } else { self.compat(hint) };
                format!(": {}", t)
            }
            'a' => {
                if !self.tape.chance(1, 2) {
                    return String::new();
                }
                match self.tape.below(4) {
                    0 | 1 => {
                        self.note("assertion:as");
                        format!(" as {}", self.assert_target(hint))
                    }
                    2 => {
                        if self.gated("ts:as-chain") {
                            self.note("assertion:as");
                            return " as any".into();
                        }
                        self.note("assertion:as-chain");
                        format!(" as unknown as {}", self.compat(hint))
                    }
                    _ => {
                        if self.gated("ts:satisfies") {
                            return String::new();
                        }
                        self.note("assertion:satisfies");
                        format!(" satisfies {}", self.compat(hint))
                    }
                }
            }
            'g' => {
                if !self.tape.chance(1, 5) {
                    return String::new();
                }
                if self.gated("ts:angle-assertion") {
                    return String::new();
                }
                self.note("assertion:angle-bracket");
                format!("<{}>", if self.tape.chance(1, 2) { "any".to_string() } else { "unknown".to_string() })
            }
            'b' => {
                if !self.tape.chance(1, 4) {
                    return String::new();
                }
                self.note("non-null:!");
                "!".into()
            }
            's' => {
                if !self.tape.chance(1, 2) {
                    return String::new();
                }
                self.stmt_level()
            }
            'c' => {
                if !self.tape.chance(1, 2) {
                    return String::new();
                }
                // fields are read from outside the class, so only `public` is a valid accessibility
                let mods = ["public ", "readonly ", "public readonly "];
                let m = mods[self.tape.below(mods.len())];
                if m.trim().contains(' ') && self.gated("ts:member-modifiers>=2") {
                    self.note("modifier:single");
                    return "public ".into();
                }
                self.note(if m.trim().contains(' ') { "modifier:double" } else { "modifier:single" });
                m.to_string()
            }
            'd' => {
                if !self.tape.chance(1, 2) {
                    return String::new();
                }
                self.note("modifier:method");
                "public ".into()
            }
            'R' => {
                if !self.tape.chance(1, 2) {
                    return String::new();
                }
                self.note("annotation:rest-parameter");
                ": any[]".into()
            }
            'T' => {
                if !self.tape.chance(1, 3) {
                    return String::new();
                }
                self.note("generics:class-type-parameters");
                let pool = ["<T = any>", "<T extends object = {}>", "<T = any, U extends T[] = T[]>"];
                pool[self.tape.below(pool.len())].to_string()
            }
            't' => {
                if !self.tape.chance(1, 3) {
                    return String::new();
                }
                self.note("generics:type-parameters");
                let pool = ["<T>", "<T, U>", "<T extends object>", "<T = any>", "<T extends string | number = string, U extends T[] = T[]>", "<const T>"];
                let t = pool[self.tape.below(pool.len())];
                if t == "<const T>" && self.gated("ts:const-type-parameter") {
                    return "<T>".into();
                }
                t.to_string()
            }
            'u' => {
                if !self.tape.chance(1, 6) {
                    return String::new();
                }
                if self.gated("ts:call-type-arguments") {
                    return String::new();
                }
                self.note("generics:call-type-arguments");
                // only valid when the callee is generic; the function slots above add type parameters
                // independently, so explicit type arguments are only emitted as `<any>`-free no-ops:
                String::new()
            }
            'i' => {
                if !self.tape.chance(1, 3) {
                    return String::new();
                }
                self.note("class:implements");
                " implements Marker0".into()
            }
            _ => String::new(),
        }
    }

    fn stmt_level(&mut self) -> String {
        let n = self.next;
        self.next += 1;
        match self.tape.below(12) {
            0 => {
                self.note("decl:interface");
                format!("interface I{}<T0 = any> {{ a: {}; b?: {}; readonly c: {}; m(x: {}): {} }}\n", n, self.ty(2), self.ty(1), self.ty(1), self.ty(1), self.ty(1))
            }
            1 => {
                self.note("decl:type-alias");
                format!("type A{}<T0 = any> = {};\n", n, self.ty(3))
            }
            2 => {
                self.note("decl:interface-generic-extends");
                format!("interface J{}<T0 extends object = {{}}> extends Marker0 {{ [k: string]: any; gen<U>(u: U): T0 }}\n", n)
            }
            3 => {
                self.note("decl:declare-const");
                format!("declare const dc{}: {};\n", n, self.ty(2))
            }
            4 => {
                self.note("decl:declare-function");
                format!("declare function df{}<T0>(x: {}, ...rest: any[]): {};\n", n, self.ty(1), self.ty(1))
            }
            5 => {
                if self.gated("ts:declare-class") {
                    return String::new();
                }
                self.note("decl:declare-class");
                format!("declare class DC{}<T0 = any> {{ constructor(x: {}); private p: number; static s: string; m(): T0 }}\n", n, self.ty(1))
            }
            6 => {
                if self.gated("ts:declare-module") {
                    return String::new();
                }
                self.note("decl:declare-namespace");
                format!("declare namespace DN{} {{ const x: number; function f(a: string): void; interface K {{ k: {} }} }}\n", n, self.ty(1))
            }
            7 => {
                if self.gated("ts:declare-global") {
                    return String::new();
                }
                self.note("decl:declare-let-var");
                format!("declare let dl{}: {};\ndeclare var dv{}: any;\n", n, self.ty(1), n)
            }
            8 => {
                self.note("decl:type-alias-function");
                format!("type F{} = <T0>(x: T0, y?: {}) => x is any;\n", n, self.ty(1)).replace("x is any", "T0")
            }
            9 => {
                if self.gated("ts:type-predicate") {
                    return String::new();
                }
                self.note("decl:type-predicate");
                format!("type P{} = (x: unknown) => x is string;\ntype Q{} = (x: unknown) => asserts x is number;\n", n, n)
            }
            10 => {
                if self.gated("ts:abstract-class-decl") {
                    return String::new();
                }
                self.note("decl:abstract-class-unused");
                format!("abstract class Ab{} {{ abstract m(x: number): string; abstract readonly p: number; protected abstract q(): void; }}\n", n)
            }
            _ => {
                if self.gated("ts:unique-symbol") {
                    return String::new();
                }
                self.note("decl:unique-symbol");
                format!("declare const us{}: unique symbol;\n", n)
            }
        }
    }
}

/// Fill the decoration slots of `marked`. The prelude declares the helper types the slots refer to.
pub fn decorate(marked: &str, tape: &mut Tape, gates: &Gates) -> Decorated {
    let mut d = D { tape, gates, kinds: BTreeMap::new(), excluded: BTreeMap::new(), count: 0, next: 0 };
    let mut out = String::with_capacity(marked.len() * 2);
    out.push_str("type Num0 = number; type Str0 = string; type T0 = any; interface Marker0 {}\n");
    let mut it = marked.chars();
    // optional blocks: decide once per block (nesting is not used by the generator)
    let mut skipping = false;
    while let Some(c) = it.next() {
        if c == MARK {
            let kind = it.next().unwrap_or(' ');
            let hint = it.next().unwrap_or('a');
            if !skipping {
                let s = d.slot(kind, hint);
                out.push_str(&s);
            }
        } else if c == TS_OPEN {
            if d.tape.chance(1, 2) {
                d.note("ts-only-block");
            } else {
                skipping = true;
            }
        } else if c == TS_CLOSE {
            skipping = false;
        } else if !skipping {
            out.push(c);
        }
    }
    Decorated { text: out, count: d.count, kinds: d.kinds, excluded: d.excluded }
}
