//! Typed expression generation.

use super::lib_table::{Arg, LibEntry, Recv, Ret, LIB};
use super::{Gen, Ty};

const NUM_PLAIN: &[&str] = &["0", "1", "2", "3", "5", "7", "10", "-1", "-3", "0.5", "-2.5", "1.5", "100", "255", "256", "1000", "0.1", "3.75", "42", "12.5"];
const NUM_SPECIAL: &[&str] = &["-0", "NaN", "Infinity", "-Infinity", "2147483647", "2147483648", "-2147483648", "4294967295", "4294967296", "9007199254740991", "1e21", "1e-7", "123456789", "0.000001", "65535", "-65536", "1e300", "5e-324"];
const STR_ASCII: &[&str] = &["\"\"", "\"a\"", "\"b\"", "\"abc\"", "\"hello world\"", "\"A,b,C\"", "\"  pad  \"", "\"x-y-z\"", "\"Hello\"", "\"aXbXc\"", "\"foo bar foo\"", "\"line1\\nline2\"", "\"tab\\there\"", "\"q\\\"uote\""];
const STR_NUMERIC: &[&str] = &["\"10\"", "\" 12 \"", "\"0x10\"", "\"1e3\"", "\"-5\"", "\"3.5\"", "\"007\"", "\"12px\"", "\"Infinity\"", "\".5\"", "\"5.\""];
const STR_BMP: &[&str] = &["\"é\"", "\"ßü\"", "\"中文\"", "\"naïve café\"", "\"Ω≈ç\""];
const STR_ASTRAL: &[&str] = &["\"😀\"", "\"a😀b\"", "\"𝒳y\""];
const IDX: &[&str] = &["0", "1", "2", "3", "-1", "-2", "5", "10", "1.5", "-0", "NaN", "undefined", "Infinity", "-Infinity", "\"1\"", "null", "100", "2.9", "-0.5"];
const KEYS: &[&str] = &["a", "b", "c", "x", "y", "k", "val", "n", "name", "id"];
const REGEX: &[&str] = &["/a/", "/[a-c]+/", "/\\d+/", "/\\s+/", "/o+/i", "/^h/", "/d$/", "/(a)(b)?/", "/l{2}/", "/a|b/", "/\\w+/", "/[^a-z]/", "/x*?y/", "/./s"];
const REGEX_G: &[&str] = &["/a/g", "/[a-c]/g", "/\\d/g", "/\\s+/g", "/o/gi", "/(\\w)\\w*/g", "/b|c/g", "/^/gm"];
const JSON_TEXT: &[&str] = &["'{\"a\":1,\"b\":[1,2,{\"c\":null}]}'", "'[1,\"two\",true,null]'", "'\"str\"'", "'12.5'", "'{\"x\":{\"y\":{\"z\":[]}}}'", "'{bad json}'", "'[1,2'", "'{\"k\":\"\\\\u0041\\\\n\"}'", "' {\"sp\" : 1 } '", "'-0'", "'1e3'"];

impl<'t, 'a, 'g> Gen<'t, 'a, 'g> {
    // ------------------------------------------------------------------ literals
    pub fn num_lit(&mut self) -> String {
        if self.tape.chance(1, 4) && !self.gated("num-special-literals") {
            let s = *self.tape.pick(NUM_SPECIAL);
            self.tag(format!("lit:num:{}", s));
            // negative literals are parenthesised by callers where needed
            s.to_string()
        } else {
            self.tag("lit:num:plain");
            self.tape.pick(NUM_PLAIN).to_string()
        }
    }

    pub fn str_lit(&mut self) -> String {
        match self.tape.weighted(&[8, 3, 2, 1]) {
            0 => {
                self.tag("lit:str:ascii");
                self.tape.pick(STR_ASCII).to_string()
            }
            1 => {
                self.tag("lit:str:numeric-looking");
                self.tape.pick(STR_NUMERIC).to_string()
            }
            2 => {
                if self.gated("str-non-ascii") {
                    return self.tape.pick(STR_ASCII).to_string();
                }
                self.tag("lit:str:bmp-non-ascii");
                self.tape.pick(STR_BMP).to_string()
            }
            _ => {
                if self.gated("str-astral") || self.gated("str-non-ascii") {
                    return self.tape.pick(STR_ASCII).to_string();
                }
                self.tag("lit:str:astral");
                self.tape.pick(STR_ASTRAL).to_string()
            }
        }
    }

    fn paren_neg(s: String) -> String {
        if s.starts_with('-') {
            format!("({})", s)
        } else {
            s
        }
    }

    pub fn literal(&mut self, ty: &Ty) -> String {
        match ty {
            Ty::Num => Self::paren_neg(self.num_lit()),
            Ty::Str => self.str_lit(),
            Ty::Bool => {
                self.tag("lit:bool");
                if self.tape.chance(1, 2) { "true".into() } else { "false".into() }
            }
            Ty::Nul => {
                self.tag("lit:nullish");
                if self.tape.chance(1, 2) { "undefined".into() } else { "null".into() }
            }
            Ty::Arr(t) => {
                let n = self.tape.range(0, 4) as usize;
                let mut parts = vec![];
                for _ in 0..n {
                    if self.tape.chance(1, 16) && !self.gated("arr-holes") {
                        self.tag("lit:array-hole");
                        parts.push(String::new());
                    } else {
                        parts.push(self.literal(t));
                    }
                }
                self.tag("lit:array");
                // a trailing hole needs an extra comma
                let mut s = parts.join(", ");
                if parts.last().map(|p| p.is_empty()).unwrap_or(false) {
                    s.push(',');
                }
                format!("[{}]", s)
            }
            Ty::Rec(fields) => {
                self.tag("lit:object");
                let parts: Vec<String> = fields.iter().map(|(k, t)| format!("{}: {}", k, self.literal(t))).collect();
                format!("{{{}}}", parts.join(", "))
            }
            Ty::Func(params, ret) => self.arrow(params, ret, 0),
            Ty::Map(k, v) => {
                self.tag("lit:map");
                let n = self.tape.range(0, 3);
                let parts: Vec<String> = (0..n).map(|_| format!("[{}, {}]", self.literal(k), self.literal(v))).collect();
                format!("new Map([{}])", parts.join(", "))
            }
            Ty::Set(t) => {
                self.tag("lit:set");
                let n = self.tape.range(0, 4);
                let parts: Vec<String> = (0..n).map(|_| self.literal(t)).collect();
                format!("new Set([{}])", parts.join(", "))
            }
            Ty::Inst(c) => self.new_inst(*c, 0),
            Ty::GenOf(_) => "[][Symbol.iterator]()".into(),
            Ty::Any => {
                let t = self.any_concrete();
                self.literal(&t)
            }
        }
    }

    /// choose a concrete type for an `any` position
    pub fn any_concrete(&mut self) -> Ty {
        if self.no_numbers {
            return match self.tape.weighted(&[5, 3, 3, 2]) {
                0 => Ty::Str,
                1 => Ty::Bool,
                2 => Ty::Nul,
                _ => Ty::Arr(Box::new(Ty::Str)),
            };
        }
        match self.tape.weighted(&[5, 5, 3, 3, 2, 2, 1]) {
            0 => Ty::Num,
            1 => Ty::Str,
            2 => Ty::Bool,
            3 => Ty::Nul,
            4 => Ty::Arr(Box::new(Ty::Num)),
            5 => Ty::Rec(vec![("a".into(), Ty::Num), ("b".into(), Ty::Str)]),
            _ => Ty::Arr(Box::new(Ty::Str)),
        }
    }

    pub fn prim_concrete(&mut self) -> Ty {
        match self.tape.weighted(&[5, 5, 3, 3]) {
            0 => Ty::Num,
            1 => Ty::Str,
            2 => Ty::Bool,
            _ => Ty::Nul,
        }
    }

    pub fn rec_shape(&mut self) -> Vec<(String, Ty)> {
        let n = self.tape.range(1, 4) as usize;
        let mut used = vec![];
        let mut out = vec![];
        for _ in 0..n {
            let k = self.tape.pick(KEYS).to_string();
            if used.contains(&k) {
                continue;
            }
            used.push(k.clone());
            let t = match self.tape.weighted(&[4, 4, 2, 1, 1]) {
                0 => Ty::Num,
                1 => Ty::Str,
                2 => Ty::Bool,
                3 => Ty::Arr(Box::new(Ty::Num)),
                _ => Ty::Nul,
            };
            out.push((k, t));
        }
        out
    }

    // ------------------------------------------------------------------ entry point
    pub fn expr(&mut self, ty: &Ty, depth: usize) -> String {
        if depth == 0 {
            return self.leaf(ty);
        }
        if self.cfg.ts_slots && self.tape.chance(1, 6) {
            // decoration slot around an expression: `(<T>e)`, `(e as T)`, `(e satisfies T)`, `(e)!`
            let inner = self.expr_inner(ty, depth);
            return format!("({}{}{}){}", self.mark('g', ty), inner, self.mark('a', ty), self.mark('b', ty));
        }
        self.expr_inner(ty, depth)
    }

    fn expr_inner(&mut self, ty: &Ty, depth: usize) -> String {
        match ty {
            Ty::Num => self.num_expr(depth),
            Ty::Str => self.str_expr(depth),
            Ty::Bool => self.bool_expr(depth),
            Ty::Nul => self.nul_expr(depth),
            Ty::Arr(t) => self.arr_expr(t, depth),
            Ty::Rec(f) => self.rec_expr(f, depth),
            Ty::Func(p, r) => self.arrow(p, r, depth),
            Ty::Any => self.any_expr(depth),
            _ => self.leaf(ty),
        }
    }

    pub fn leaf(&mut self, ty: &Ty) -> String {
        // prefer a variable of the right type half of the time
        if self.tape.chance(1, 2) {
            let want = ty.clone();
            if let Some(v) = self.pick_var(|t| *t == want || (want == Ty::Any && !matches!(t, Ty::Func(..) | Ty::GenOf(_)))) {
                self.tag("expr:var");
                if self.cfg.ts_slots {
                    return format!("{}{}", v.name, self.mark('b', ty));
                }
                return v.name;
            }
        }
        self.literal(ty)
    }

    /// an expression of a primitive type chosen by the tape, returns (text, type)
    pub fn prim_expr(&mut self, depth: usize) -> (String, Ty) {
        let t = self.prim_concrete();
        (self.expr(&t, depth), t)
    }

    // ------------------------------------------------------------------ numbers
    pub fn num_expr(&mut self, depth: usize) -> String {
        let d = depth - 1;
        match self.tape.weighted(&[3, 6, 2, 2, 3, 2, 3, 2, 2, 1, 2, 1]) {
            0 => self.leaf(&Ty::Num),
            1 => {
                // arithmetic on numbers
                let ops = ["+", "-", "*", "/", "%"];
                let op = ops[self.rr_pick("num-arith", ops.len())];
                self.tag(format!("binop:{}×(num,num)", op));
                format!("({} {} {})", self.expr(&Ty::Num, d), op, self.expr(&Ty::Num, d))
            }
            2 => {
                // bitwise
                let ops = ["&", "|", "^", "<<", ">>", ">>>"];
                let op = ops[self.rr_pick("num-bit", ops.len())];
                if self.gated("bitwise-large-operands") {
                    self.tag(format!("binop:{}×(small,small)", op));
                    return format!("({} {} {})", self.tape.range(0, 300), op, self.tape.range(0, 31));
                }
                self.tag(format!("binop:{}×(num,num)", op));
                format!("({} {} {})", self.expr(&Ty::Num, d), op, self.expr(&Ty::Num, d))
            }
            3 => {
                // unary on numbers / coercing unary on primitives
                let ops = ["-", "+", "~"];
                let mut op = ops[self.rr_pick("num-unary", ops.len())];
                if op == "~" && self.gated("bitwise-large-operands") {
                    op = "-";
                }
                if self.tape.chance(1, 3) {
                    let (e, t) = self.prim_expr(d);
                    if t == Ty::Str && self.gated("tonumber-string-whitespace") {
                        return format!("({}{})", op, self.expr(&Ty::Num, d));
                    }
                    self.tag(format!("unop:{}×{}", op, t.short()));
                    format!("({} {})", op, e)
                } else {
                    self.tag(format!("unop:{}×num", op));
                    format!("({} {})", op, self.expr(&Ty::Num, d))
                }
            }
            4 => {
                // mixed-type arithmetic that yields a number: - * / % with coercion
                let ops = ["-", "*", "/", "%"];
                let op = ops[self.rr_pick("num-mixed", ops.len())];
                let (a, ta) = self.prim_expr(d);
                let (b, tb) = self.prim_expr(d);
                if (ta == Ty::Str || tb == Ty::Str) && self.gated("tonumber-string-whitespace") {
                    return self.leaf(&Ty::Num);
                }
                self.tag(format!("binop:{}×({},{})", op, ta.short(), tb.short()));
                format!("({} {} {})", a, op, b)
            }
            5 => {
                // length
                if self.tape.chance(1, 2) {
                    self.tag("member:str.length");
                    format!("{}.length{}", self.atom(&Ty::Str, d), self.mark('b', &Ty::Num))
                } else {
                    self.tag("member:arr.length");
                    let t = self.arr_elem_ty();
                    format!("{}.length{}", self.atom(&Ty::Arr(Box::new(t)), d), self.mark('b', &Ty::Num))
                }
            }
            6 => self.lib_call(&Ty::Num, d).unwrap_or_else(|| self.leaf(&Ty::Num)),
            7 => {
                self.tag("expr:conditional");
                format!("({} ? {} : {})", self.expr(&Ty::Bool, d), self.expr(&Ty::Num, d), self.expr(&Ty::Num, d))
            }
            8 => self.call_user_fn(&Ty::Num, d).unwrap_or_else(|| self.leaf(&Ty::Num)),
            9 => {
                // exponentiation only where exactly specified: small integer base/exponent
                self.tag("binop:**×(small-int,small-int)");
                format!("({} ** {})", self.tape.range(0, 9), self.tape.range(0, 6))
            }
            10 => {
                // update expression on a mutable numeric variable
                if let Some(v) = self.pick_mut_var(&Ty::Num) {
                    let forms = ["{}++", "{}--", "++{}", "--{}"];
                    let f = forms[self.rr_pick("update", forms.len())];
                    self.tag(format!("update:{}", f.replace("{}", "v")));
                    format!("({})", f.replace("{}", &v))
                } else {
                    self.leaf(&Ty::Num)
                }
            }
            _ => {
                self.tag("expr:comma");
                format!("({}, {})", self.expr(&Ty::Any, d.min(1)), self.expr(&Ty::Num, d))
            }
        }
    }

    pub fn pick_mut_var(&mut self, ty: &Ty) -> Option<String> {
        let want = ty.clone();
        let vs: Vec<_> = self.visible().into_iter().filter(|v| v.mutable && v.ty == want).collect();
        if vs.is_empty() {
            None
        } else {
            let i = self.tape.below(vs.len());
            Some(vs[i].name.clone())
        }
    }

    pub fn arr_elem_ty(&mut self) -> Ty {
        match self.tape.weighted(&[4, 3, 1]) {
            0 => Ty::Num,
            1 => Ty::Str,
            _ => Ty::Any,
        }
    }

    /// an expression safe as a method receiver / member base (parenthesised when compound)
    /// a receiver / operand that binds tighter than member access; carries a non-null slot (`v!.length`)
    pub fn atom(&mut self, ty: &Ty, depth: usize) -> String {
        let a = self.atom_inner(ty, depth);
        format!("{}{}", a, self.mark('b', ty))
    }

    fn atom_inner(&mut self, ty: &Ty, depth: usize) -> String {
        let want = ty.clone();
        if self.tape.chance(2, 3) {
            if let Some(v) = self.pick_var(|t| *t == want) {
                return v.name;
            }
        }
        let e = if depth > 0 && self.tape.chance(1, 4) { self.expr(ty, depth - 1) } else { self.literal(ty) };
        match ty {
            Ty::Num => format!("({})", e),
            Ty::Rec(_) => format!("({})", e),
            Ty::Func(..) => format!("({})", e),
            _ => {
                if e.starts_with('[') || e.starts_with('"') || e.starts_with("new ") || e.chars().all(|c| c.is_alphanumeric() || c == '_') {
                    e
                } else {
                    format!("({})", e)
                }
            }
        }
    }

    // ------------------------------------------------------------------ strings
    pub fn str_expr(&mut self, depth: usize) -> String {
        let d = depth - 1;
        match self.tape.weighted(&[3, 4, 3, 4, 2, 2, 2, 1, 1]) {
            0 => self.leaf(&Ty::Str),
            1 => {
                // concatenation: string + primitive / primitive + string
                let (p, tp) = self.prim_expr(d);
                let s = self.expr(&Ty::Str, d);
                if self.tape.chance(1, 2) {
                    self.tag(format!("binop:+×(str,{})", tp.short()));
                    format!("({} + {})", s, p)
                } else {
                    self.tag(format!("binop:+×({},str)", tp.short()));
                    format!("({} + {})", p, s)
                }
            }
            2 => {
                // template literal
                self.tag("expr:template");
                let n = self.tape.range(1, 3);
                let mut s = String::from("`");
                for i in 0..n {
                    s.push_str(["", "a", " ", "x=", "-"][self.tape.below(5)]);
                    let t = self.any_concrete();
                    self.tag(format!("template:${{{}}}", t.short()));
                    let e = self.expr(&t, d);
                    s.push_str(&format!("${{{}}}", e));
                    if i + 1 == n {
                        s.push_str(["", "!", " end"][self.tape.below(3)]);
                    }
                }
                s.push('`');
                s
            }
            3 => self.lib_call(&Ty::Str, d).unwrap_or_else(|| self.leaf(&Ty::Str)),
            4 => {
                self.tag("unop:typeof");
                let t = self.any_concrete();
                let t = if self.tape.chance(1, 5) { Ty::Func(vec![], Box::new(Ty::Num)) } else { t };
                format!("(typeof {})", self.atom(&t, d))
            }
            5 => {
                self.tag("expr:conditional");
                format!("({} ? {} : {})", self.expr(&Ty::Bool, d), self.expr(&Ty::Str, d), self.expr(&Ty::Str, d))
            }
            6 => self.call_user_fn(&Ty::Str, d).unwrap_or_else(|| self.leaf(&Ty::Str)),
            7 => {
                // string + array / object (ToPrimitive)
                self.tag("binop:+×(str,object)");
                let t = if self.tape.chance(1, 2) { Ty::Arr(Box::new(Ty::Num)) } else { Ty::Rec(vec![("a".into(), Ty::Num)]) };
                format!("({} + {})", self.expr(&Ty::Str, d), self.atom(&t, d))
            }
            _ => {
                self.tag("lib:String()");
                let t = self.any_concrete();
                format!("String({})", self.expr(&t, d))
            }
        }
    }

    // ------------------------------------------------------------------ booleans
    pub fn bool_expr(&mut self, depth: usize) -> String {
        let d = depth - 1;
        match self.tape.weighted(&[2, 5, 4, 3, 2, 2, 3, 2, 2]) {
            0 => self.leaf(&Ty::Bool),
            1 => {
                // equality over every pair of primitive types
                let ops = ["===", "!==", "==", "!="];
                let op = ops[self.rr_pick("eq", ops.len())];
                let (a, ta) = self.prim_expr(d);
                let (b, tb) = if self.tape.chance(1, 2) { (self.expr(&ta, d), ta.clone()) } else { self.prim_expr(d) };
                if (op == "==" || op == "!=") && ta != tb && (ta == Ty::Str || tb == Ty::Str) && self.gated("tonumber-string-whitespace") {
                    return self.leaf(&Ty::Bool);
                }
                self.tag(format!("binop:{}×({},{})", op, ta.short(), tb.short()));
                format!("({} {} {})", a, op, b)
            }
            2 => {
                // relational
                let ops = ["<", "<=", ">", ">="];
                let op = ops[self.rr_pick("rel", ops.len())];
                match self.tape.weighted(&[5, 3, 2]) {
                    0 => {
                        self.tag(format!("binop:{}×(num,num)", op));
                        format!("({} {} {})", self.expr(&Ty::Num, d), op, self.expr(&Ty::Num, d))
                    }
                    1 => {
                        if self.gated("rel-str-str") {
                            return self.leaf(&Ty::Bool);
                        }
                        self.tag(format!("binop:{}×(str,str)", op));
                        format!("({} {} {})", self.expr(&Ty::Str, d), op, self.expr(&Ty::Str, d))
                    }
                    _ => {
                        let (a, ta) = self.prim_expr(d);
                        let (b, tb) = self.prim_expr(d);
                        if ta == Ty::Str && tb == Ty::Str && self.gated("rel-str-str") {
                            return self.leaf(&Ty::Bool);
                        }
                        if (ta == Ty::Str || tb == Ty::Str) && self.gated("tonumber-string-whitespace") {
                            return self.leaf(&Ty::Bool);
                        }
                        self.tag(format!("binop:{}×({},{})", op, ta.short(), tb.short()));
                        format!("({} {} {})", a, op, b)
                    }
                }
            }
            3 => {
                self.tag("unop:!");
                let t = self.any_concrete();
                format!("(!{})", self.atom(&t, d))
            }
            4 => {
                let op = ["&&", "||"][self.tape.below(2)];
                self.tag(format!("logical:{}×(bool,bool)", op));
                format!("({} {} {})", self.expr(&Ty::Bool, d), op, self.expr(&Ty::Bool, d))
            }
            5 => self.lib_call(&Ty::Bool, d).unwrap_or_else(|| self.leaf(&Ty::Bool)),
            6 => {
                // in / instanceof
                match self.tape.below(5) {
                    0 => {
                        if let Some(v) = self.pick_var(|t| matches!(t, Ty::Rec(_))) {
                            let key = if let Ty::Rec(f) = &v.ty {
                                if !f.is_empty() && self.tape.chance(2, 3) { f[self.tape.below(f.len())].0.clone() } else { "zz".to_string() }
                            } else {
                                "zz".into()
                            };
                            self.tag("op:in×(key,own)");
                            return format!("(\"{}\" in {})", key, v.name);
                        }
                        self.leaf(&Ty::Bool)
                    }
                    1 => {
                        if self.gated("op-in-inherited") {
                            return self.leaf(&Ty::Bool);
                        }
                        self.tag("op:in×(key,inherited)");
                        format!("(\"toString\" in {})", self.atom(&Ty::Rec(vec![("a".into(), Ty::Num)]), 0))
                    }
                    2 => {
                        if self.gated("op-in-array-index") {
                            return self.leaf(&Ty::Bool);
                        }
                        self.tag("op:in×(key,array-index)");
                        format!("({} in {})", self.tape.range(0, 4), self.atom(&Ty::Arr(Box::new(Ty::Num)), 0))
                    }
                    3 => {
                        self.tag("op:instanceof×Array");
                        let t = if self.tape.chance(1, 2) { Ty::Arr(Box::new(Ty::Num)) } else { Ty::Rec(vec![("a".into(), Ty::Num)]) };
                        format!("({} instanceof Array)", self.atom(&t, 0))
                    }
                    _ => {
                        if !self.classes.is_empty() {
                            let c = self.tape.below(self.classes.len());
                            let other = self.tape.below(self.classes.len());
                            self.tag("op:instanceof×class");
                            let inst = self.new_inst(c, 0);
                            return format!("({} instanceof {})", inst, self.classes[other].name);
                        }
                        self.tag("op:instanceof×Object");
                        format!("({} instanceof Object)", self.atom(&Ty::Arr(Box::new(Ty::Num)), 0))
                    }
                }
            }
            7 => self.call_user_fn(&Ty::Bool, d).unwrap_or_else(|| self.leaf(&Ty::Bool)),
            _ => {
                self.tag("lib:Boolean()");
                let t = self.any_concrete();
                format!("Boolean({})", self.expr(&t, d))
            }
        }
    }

    pub fn nul_expr(&mut self, depth: usize) -> String {
        let d = depth - 1;
        match self.tape.below(4) {
            0 => self.leaf(&Ty::Nul),
            1 => {
                self.tag("unop:void");
                format!("(void {})", self.expr(&Ty::Num, d))
            }
            2 => {
                self.tag("member:missing-property");
                format!("{}.nope", self.atom(&Ty::Rec(vec![("a".into(), Ty::Num)]), d))
            }
            _ => {
                self.tag("optional-chain:nullish-base");
                let base = if self.tape.chance(1, 2) { "null" } else { "undefined" };
                match self.tape.below(3) {
                    0 => format!("({})?.x", base),
                    1 => format!("({})?.[0]", base),
                    _ => format!("({})?.f(1)", base),
                }
            }
        }
    }

    // ------------------------------------------------------------------ arrays
    pub fn arr_expr(&mut self, elem: &Ty, depth: usize) -> String {
        let d = depth - 1;
        let arr_ty = Ty::Arr(Box::new(elem.clone()));
        match self.tape.weighted(&[3, 4, 3, 3, 1]) {
            0 => self.leaf(&arr_ty),
            1 => {
                // literal with computed elements and spread
                let n = self.tape.range(0, 4);
                let mut parts = vec![];
                for _ in 0..n {
                    if self.tape.chance(1, 5) {
                        self.tag("spread:array-literal");
                        parts.push(format!("...{}", self.atom(&arr_ty, d)));
                    } else {
                        parts.push(self.expr(elem, d));
                    }
                }
                self.tag("lit:array");
                format!("[{}]", parts.join(", "))
            }
            2 => self.lib_call(&arr_ty, d).unwrap_or_else(|| self.leaf(&arr_ty)),
            3 => self.call_user_fn(&arr_ty, d).unwrap_or_else(|| self.leaf(&arr_ty)),
            _ => {
                self.tag("expr:conditional");
                format!("({} ? {} : {})", self.expr(&Ty::Bool, d), self.expr(&arr_ty, d), self.expr(&arr_ty, d))
            }
        }
    }

    // ------------------------------------------------------------------ records
    pub fn rec_expr(&mut self, fields: &[(String, Ty)], depth: usize) -> String {
        let d = depth - 1;
        let ty = Ty::Rec(fields.to_vec());
        match self.tape.weighted(&[2, 5, 2]) {
            0 => self.leaf(&ty),
            1 => {
                let mut parts = vec![];
                for (k, t) in fields {
                    match self.tape.weighted(&[6, 1, 1, 1]) {
                        0 => parts.push(format!("{}: {}", k, self.expr(t, d))),
                        1 => {
                            self.tag("obj:computed-key");
                            parts.push(format!("[\"{}\"]: {}", k, self.expr(t, d)));
                        }
                        2 => {
                            self.tag("obj:quoted-key");
                            parts.push(format!("\"{}\": {}", k, self.expr(t, d)));
                        }
                        _ if self.gated("obj-getter-copied-raw") => parts.push(format!("{}: {}", k, self.expr(t, d))),
                        _ => {
                            // shorthand if a variable of that name and type exists, else getter
                            self.tag("obj:getter");
                            parts.push(format!("get {}() {{ return {}; }}", k, self.expr(t, d)));
                        }
                    }
                }
                self.tag("lit:object");
                format!("{{{}}}", parts.join(", "))
            }
            _ => {
                // spread of a same-shaped record then overrides
                self.tag("spread:object-literal");
                let base = self.atom(&ty, d);
                if let Some((k, t)) = fields.first() {
                    format!("{{...{}, {}: {}}}", base, k, self.expr(t, d))
                } else {
                    format!("{{...{}}}", base)
                }
            }
        }
    }

    // ------------------------------------------------------------------ any
    pub fn any_expr(&mut self, depth: usize) -> String {
        let d = depth - 1;
        match self.tape.weighted(&[4, 3, 3, 2, 3, 2, 2, 2]) {
            0 => {
                let t = self.any_concrete();
                self.expr(&t, depth)
            }
            1 => {
                // + over any pair of primitive types
                let (a, ta) = self.prim_expr(d);
                let (b, tb) = self.prim_expr(d);
                self.tag(format!("binop:+×({},{})", ta.short(), tb.short()));
                format!("({} + {})", a, b)
            }
            2 => {
                // logical operators returning operands
                let ops = ["||", "&&", "??"];
                let op = ops[self.rr_pick("logical-any", ops.len())];
                let ta = self.any_concrete();
                let tb = self.any_concrete();
                self.tag(format!("logical:{}×({},{})", op, ta.short(), tb.short()));
                format!("({} {} {})", self.expr(&ta, d), op, self.expr(&tb, d))
            }
            3 => {
                // indexing arrays / strings with index-like values
                let idx = self.idx_arg();
                if self.tape.chance(1, 2) {
                    self.tag(format!("index:arr[{}]", idx));
                    let t = self.arr_elem_ty();
                    format!("{}[{}]{}", self.atom(&Ty::Arr(Box::new(t)), d), idx, self.mark('b', &Ty::Any))
                } else {
                    if self.gated("str-non-ascii") {
                        // string indexing is only exact on ASCII while that finding is open
                    }
                    self.tag(format!("index:str[{}]", idx));
                    format!("{}[{}]{}", self.atom(&Ty::Str, d), idx, self.mark('b', &Ty::Any))
                }
            }
            4 => {
                // property access on records (existing or missing), optional chaining
                if let Some(v) = self.pick_var(|t| matches!(t, Ty::Rec(_))) {
                    if let Ty::Rec(f) = &v.ty {
                        if !f.is_empty() {
                            let k = f[self.tape.below(f.len())].0.clone();
                            return match self.tape.below(3) {
                                0 => {
                                    self.tag("member:dot");
                                    format!("{}{}.{}{}", v.name, self.mark('b', &Ty::Any), k, self.mark('b', &Ty::Any))
                                }
                                1 => {
                                    self.tag("member:computed");
                                    format!("{}{}[\"{}\"]{}", v.name, self.mark('b', &Ty::Any), k, self.mark('b', &Ty::Any))
                                }
                                _ => {
                                    self.tag("optional-chain:object-base");
                                    format!("{}{}?.{}{}", v.name, self.mark('b', &Ty::Any), k, self.mark('b', &Ty::Any))
                                }
                            };
                        }
                    }
                }
                let t = self.any_concrete();
                self.expr(&t, d)
            }
            5 => {
                self.tag("expr:conditional");
                let ta = self.any_concrete();
                let tb = self.any_concrete();
                format!("({} ? {} : {})", self.expr(&Ty::Bool, d), self.expr(&ta, d), self.expr(&tb, d))
            }
            6 => self.lib_call(&Ty::Any, d).unwrap_or_else(|| self.leaf(&Ty::Any)),
            _ => {
                // instance member / getter / method
                if !self.classes.is_empty() {
                    let c = self.tape.below(self.classes.len());
                    return self.inst_use(c, d);
                }
                let t = self.any_concrete();
                self.expr(&t, d)
            }
        }
    }

    // ------------------------------------------------------------------ functions
    pub fn arrow(&mut self, params: &[Ty], ret: &Ty, depth: usize) -> String {
        self.scopes.push(vec![]);
        let saved_fn = self.fn_depth;
        let saved_loops = std::mem::take(&mut self.loops);
        let saved_gen = self.in_generator;
        self.in_generator = false;
        self.fn_depth += 1;
        let mut names = vec![];
        for t in params {
            let n = self.fresh("p");
            self.declare(&n, t.clone(), true);
            names.push(format!("{}{}", n, self.mark('p', t)));
        }
        let body = self.expr(ret, depth.min(2));
        self.fn_depth = saved_fn;
        self.loops = saved_loops;
        self.in_generator = saved_gen;
        self.scopes.pop();
        self.tag("expr:arrow");
        // C03: half of the bodies lose their redundant outer parentheses (`=> a + b`, `=> x < y`), so that
        // a return type annotation is directly followed by `=>` and an unparenthesised expression
        let body = if self.cfg.ts_slots && self.tape.chance(1, 2) { strip_outer_parens(body) } else { body };
        let body = if body.starts_with('{') { format!("({})", body) } else { body };
        format!("({}({}){} => {})", self.mark('w', ret), names.join(", "), self.mark('r', ret), body)
    }

    /// call a user function variable whose result type matches
    pub fn call_user_fn(&mut self, want: &Ty, depth: usize) -> Option<String> {
        let w = want.clone();
        let v = self.pick_var(|t| matches!(t, Ty::Func(_, r) if **r == w))?;
        if let Ty::Func(params, _) = &v.ty {
            let params = params.clone();
            let mut args = vec![];
            for p in &params {
                args.push(self.expr(p, depth.min(1)));
            }
            // argument-count variations: drop the last or add an extra one
            match self.tape.below(8) {
                0 if !args.is_empty() => {
                    self.tag("call:missing-argument");
                    args.pop();
                }
                1 => {
                    self.tag("call:extra-argument");
                    args.push(self.literal(&Ty::Num));
                }
                _ => {}
            }
            let form = self.tape.below(6);
            return Some(match form {
                0 => {
                    self.tag("call:.call");
                    let mut a = vec!["undefined".to_string()];
                    a.extend(args);
                    format!("{}.call({})", v.name, a.join(", "))
                }
                1 => {
                    self.tag("call:.apply");
                    format!("{}.apply(null, [{}])", v.name, args.join(", "))
                }
                2 if !args.is_empty() => {
                    self.tag("call:spread-arguments");
                    format!("{}(...[{}])", v.name, args.join(", "))
                }
                _ => {
                    self.tag("call:plain");
                    let args: Vec<String> = args.into_iter().enumerate().map(|(k, a)| format!("{}{}", a, self.mark('A', params.get(k).unwrap_or(&Ty::Any)))).collect();
                    format!("{}{}({}){}", v.name, self.mark('u', want), args.join(", "), self.mark('b', want))
                }
            });
        }
        None
    }

    // ------------------------------------------------------------------ classes
    pub fn new_inst(&mut self, c: usize, depth: usize) -> String {
        let Some(info) = self.classes.get(c).cloned() else { return "({})".into() };
        let args: Vec<String> = info.ctor_params.iter().map(|t| self.expr(t, depth.min(1))).collect();
        self.tag("expr:new");
        format!("new {}({})", info.name, args.join(", "))
    }

    pub fn inst_use(&mut self, c: usize, depth: usize) -> String {
        let Some(info) = self.classes.get(c).cloned() else { return "0".into() };
        let inst = {
            let cc = c;
            if let Some(v) = self.pick_var(|t| *t == Ty::Inst(cc)) { v.name } else { format!("({})", self.new_inst(c, depth)) }
        };
        let mut choices = vec![];
        if !info.fields.is_empty() {
            choices.push(0);
        }
        if !info.methods.is_empty() {
            choices.push(1);
        }
        if !info.getters.is_empty() {
            choices.push(2);
        }
        if !info.statics.is_empty() {
            choices.push(3);
        }
        if choices.is_empty() {
            return inst;
        }
        match choices[self.tape.below(choices.len())] {
            0 => {
                self.tag("class:field-read");
                let f = &info.fields[self.tape.below(info.fields.len())];
                format!("{}{}.{}{}", inst, self.mark('b', &Ty::Any), f.0, self.mark('b', &Ty::Any))
            }
            1 => {
                self.tag("class:method-call");
                let m = info.methods[self.tape.below(info.methods.len())].clone();
                let args: Vec<String> = m.1.iter().map(|t| self.expr(t, depth.min(1))).collect();
                format!("{}{}.{}{}({}){}", inst, self.mark('b', &Ty::Any), m.0, self.mark('b', &Ty::Any), args.join(", "), self.mark('b', &Ty::Any))
            }
            2 => {
                self.tag("class:getter-read");
                let g = &info.getters[self.tape.below(info.getters.len())];
                format!("{}{}.{}{}", inst, self.mark('b', &Ty::Any), g.0, self.mark('b', &Ty::Any))
            }
            _ => {
                self.tag("class:static-call");
                let m = info.statics[self.tape.below(info.statics.len())].clone();
                let args: Vec<String> = m.1.iter().map(|t| self.expr(t, depth.min(1))).collect();
                format!("{}.{}({})", info.name, m.0, args.join(", "))
            }
        }
    }

    // ------------------------------------------------------------------ library
    pub fn idx_arg(&mut self) -> String {
        let s = *self.tape.pick(IDX);
        s.to_string()
    }

    fn ret_matches(&self, r: Ret, want: &Ty, recv_elem: &Ty) -> bool {
        match (r, want) {
            (Ret::Num, Ty::Num) | (Ret::Str, Ty::Str) | (Ret::Bool, Ty::Bool) | (Ret::Nul, Ty::Nul) => true,
            (Ret::ArrNum, Ty::Arr(t)) => **t == Ty::Num,
            (Ret::ArrStr, Ty::Arr(t)) => **t == Ty::Str,
            (Ret::ArrAny, Ty::Arr(t)) => **t == Ty::Any,
            (Ret::ArrSame, Ty::Arr(t)) => **t == *recv_elem,
            (_, Ty::Any) => true,
            _ => false,
        }
    }

    /// Generate a library call whose result has type `want`.
    pub fn lib_call(&mut self, want: &Ty, depth: usize) -> Option<String> {
        // receiver element type for array receivers: if want is an array use its elem type
        let recv_elem = match want {
            Ty::Arr(t) => (**t).clone(),
            _ => self.arr_elem_ty(),
        };
        let cands: Vec<&LibEntry> = LIB
            .iter()
            .filter(|e| self.ret_matches(e.ret, want, &recv_elem))
            .filter(|e| match e.recv {
                Recv::RArrNum => recv_elem == Ty::Num,
                Recv::RArrStr => recv_elem == Ty::Str,
                _ => true,
            })
            .collect();
        if cands.is_empty() {
            return None;
        }
        let e = *cands[self.rr_pick("lib", cands.len())];
        if let Some(gname) = e.gate {
            if self.gated(gname) {
                return None;
            }
        }
        let fq = match e.recv {
            Recv::Static(ns) if ns.is_empty() => e.name.to_string(),
            Recv::Static(ns) => format!("{}.{}", ns, e.name),
            Recv::RStr => format!("String.prototype.{}", e.name),
            Recv::RArr | Recv::RArrNum | Recv::RArrStr => format!("Array.prototype.{}", e.name),
            Recv::RNum => format!("Number.prototype.{}", e.name),
            Recv::RMap => format!("Map.prototype.{}", e.name),
            Recv::RSet => format!("Set.prototype.{}", e.name),
            Recv::RRec => format!("Object.prototype.{}", e.name),
        };
        if self.gated(&format!("lib-{}", fq)) {
            return None;
        }
        let recv_ty = match e.recv {
            Recv::RStr => Some(Ty::Str),
            Recv::RArr | Recv::RArrNum | Recv::RArrStr => Some(Ty::Arr(Box::new(recv_elem.clone()))),
            Recv::RNum => Some(Ty::Num),
            Recv::RMap => Some(Ty::Map(Box::new(Ty::Str), Box::new(Ty::Num))),
            Recv::RSet => Some(Ty::Set(Box::new(Ty::Num))),
            Recv::RRec => Some(Ty::Rec(vec![("a".into(), Ty::Num), ("b".into(), Ty::Str)])),
            Recv::Static(_) => None,
        };
        if e.recv == Recv::RStr && self.gates.excluded("str-non-ascii") {
            // fine: string literals are ASCII-only while the finding is open (see str_lit)
        }
        let mut args = vec![];
        let mut argtags = vec![];
        // JSON.stringify prints numbers through another printer (open finding C15-json-number-notation)
        let saved_no_numbers = self.no_numbers;
        if fq == "JSON.stringify" && self.gated("C15:json-number-notation") {
            self.no_numbers = true;
        }
        for a in e.args {
            match self.lib_arg(*a, &recv_elem, depth) {
                Some((s, t)) => {
                    if !s.is_empty() {
                        args.push(s);
                    } else {
                        break; // a missing optional argument ends the list
                    }
                    if !t.is_empty() {
                        argtags.push(t);
                    }
                }
                None => {
                    self.no_numbers = saved_no_numbers;
                    return None;
                }
            }
        }
        self.no_numbers = saved_no_numbers;
        for t in &argtags {
            // gates can name one argument class of one entry, e.g. "lib-String.prototype.replaceAll×regex-g"
            if self.gated(&format!("lib-{}×{}", fq, t)) {
                return None;
            }
        }
        self.tag(format!("lib:{}", fq));
        for t in argtags {
            self.tag(format!("lib:{}×{}", fq, t));
        }
        let call = match (recv_ty, e.recv) {
            (None, Recv::Static(ns)) if ns.is_empty() => format!("{}({})", e.name, args.join(", ")),
            (None, Recv::Static(ns)) => format!("{}.{}({})", ns, e.name, args.join(", ")),
            (Some(rt), _) => {
                let recv = if e.mutates {
                    // mutate a variable when one exists, else a fresh literal
                    let want_rt = rt.clone();
                    match self.pick_var(|t| *t == want_rt) {
                        Some(v) => v.name,
                        None => self.atom(&rt, 0),
                    }
                } else {
                    self.atom(&rt, depth)
                };
                if e.name == "size" {
                    format!("{}.size{}", recv, self.mark('b', &Ty::Num))
                } else {
                    format!("{}.{}({}){}", recv, e.name, args.join(", "), self.mark('b', &Ty::Any))
                }
            }
            _ => return None,
        };
        Some(call)
    }

    /// returns (text, tag); empty text = optional argument omitted
    fn lib_arg(&mut self, a: Arg, elem: &Ty, depth: usize) -> Option<(String, String)> {
        let d = depth.min(1);
        Some(match a {
            Arg::Idx => {
                let s = self.idx_arg();
                (s.clone(), format!("idx:{}", s))
            }
            Arg::OptIdx => {
                if self.tape.chance(1, 3) {
                    (String::new(), "idx:missing".into())
                } else {
                    let s = self.idx_arg();
                    (s.clone(), format!("idx:{}", s))
                }
            }
            Arg::Num => (self.expr(&Ty::Num, d), String::new()),
            Arg::OptNum => {
                if self.tape.chance(1, 3) { (String::new(), String::new()) } else { (self.expr(&Ty::Num, d), String::new()) }
            }
            Arg::Small => (self.tape.range(0, 6).to_string(), String::new()),
            Arg::Count => {
                let pool = ["0", "1", "2", "3", "5", "8", "12", "-1", "2.5", "NaN", "undefined"];
                let s = pool[self.tape.below(pool.len())];
                (s.to_string(), format!("count:{}", s))
            }
            Arg::Str => (self.expr(&Ty::Str, d), String::new()),
            Arg::Sep => {
                let pool = ["\",\"", "\"\"", "\" \"", "\"-\"", "\"ab\"", "\"X\""];
                (pool[self.tape.below(pool.len())].to_string(), String::new())
            }
            Arg::OptSep => {
                if self.tape.chance(1, 3) {
                    (String::new(), "sep:missing".into())
                } else {
                    let pool = ["\",\"", "\"\"", "\" \"", "\"-\"", "\"ab\"", "\"*\"", "undefined"];
                    (pool[self.tape.below(pool.len())].to_string(), String::new())
                }
            }
            Arg::Prim => {
                let (e, t) = self.prim_expr(d);
                (e, format!("prim:{}", t.short()))
            }
            Arg::Any => {
                let t = self.any_concrete();
                (self.expr(&t, d), format!("any:{}", t.short()))
            }
            Arg::Elem => (self.expr(elem, d), String::new()),
            Arg::ArrSame => (self.expr(&Ty::Arr(Box::new(elem.clone())), d), String::new()),
            Arg::ArrNum => (self.expr(&Ty::Arr(Box::new(Ty::Num)), d), String::new()),
            Arg::CbElemToNum => (self.callback(&[elem.clone(), Ty::Num], &Ty::Num), String::new()),
            Arg::CbElemToBool => (self.callback(&[elem.clone(), Ty::Num], &Ty::Bool), String::new()),
            Arg::CbElemToAny => (self.callback(&[elem.clone(), Ty::Num], &Ty::Any), String::new()),
            Arg::CbElemToArr => (self.callback(&[elem.clone()], &Ty::Arr(Box::new(elem.clone()))), String::new()),
            Arg::CbReduce => (self.callback(&[Ty::Num, Ty::Num], &Ty::Num), String::new()),
            Arg::CbCmp => {
                // consistent comparators only (sort with an inconsistent comparator is implementation-defined)
                // total orders only: NaN is mapped to a fixed key, otherwise the comparator would be inconsistent
                let pool = [
                    "((a, b) => { const k = (x) => (x !== x ? 1e9 : x); return k(a) === k(b) ? 0 : k(a) < k(b) ? -1 : 1; })",
                    "((a, b) => { const k = (x) => (x !== x ? 1e9 : x); return k(a) === k(b) ? 0 : k(a) < k(b) ? 1 : -1; })",
                    "((a, b) => { const k = (x) => (x % 3 !== x % 3 ? 9 : x % 3); return k(a) - k(b); })",
                    "((a, b) => { const k = (x) => (x !== x ? -1e9 : x); return k(a) === k(b) ? 0 : k(a) < k(b) ? -1 : 1; })",
                ];
                (pool[self.tape.below(pool.len())].to_string(), String::new())
            }
            Arg::Radix => {
                let pool = ["2", "8", "10", "16", "36", "3", "7"];
                (pool[self.tape.below(pool.len())].to_string(), "radix".into())
            }
            Arg::ParseRadix => {
                let pool = ["2", "8", "10", "16", "4", "32"];
                (pool[self.tape.below(pool.len())].to_string(), "radix".into())
            }
            Arg::Digits => (self.tape.range(0, 8).to_string(), String::new()),
            Arg::Precision => (self.tape.range(1, 10).to_string(), String::new()),
            Arg::Regex => {
                if self.gated("regex") {
                    return None;
                }
                (self.tape.pick(REGEX).to_string(), "regex".into())
            }
            Arg::RegexG => {
                if self.gated("regex") {
                    return None;
                }
                (self.tape.pick(REGEX_G).to_string(), "regex-g".into())
            }
            Arg::Repl => {
                if self.tape.chance(1, 4) {
                    ("((m) => \"<\" + m + \">\")".to_string(), "repl:function".into())
                } else if self.gated("replace-dollar-patterns") {
                    let pool = ["\"_\"", "\"\"", "\"xy\"", "\"-\""];
                    (pool[self.tape.below(pool.len())].to_string(), "repl:plain".into())
                } else {
                    let pool = ["\"_\"", "\"\"", "\"[$&]\"", "\"$1\"", "\"$$\"", "\"xy\""];
                    (pool[self.tape.below(pool.len())].to_string(), "repl:string".into())
                }
            }
            Arg::Rec => {
                let shape = self.rec_shape();
                (self.atom(&Ty::Rec(shape), d), String::new())
            }
            Arg::Key => {
                let k = self.tape.pick(KEYS).to_string();
                (format!("\"{}\"", k), String::new())
            }
            Arg::Pairs => {
                let n = self.tape.range(0, 3);
                let parts: Vec<String> = (0..n).map(|i| format!("[\"k{}\", {}]", i, self.literal(&Ty::Num))).collect();
                (format!("[{}]", parts.join(", ")), String::new())
            }
            Arg::JsonText => (self.tape.pick(JSON_TEXT).to_string(), String::new()),
            Arg::Indent => {
                let pool = ["2", "0", "\"\\t\"", "4", "undefined", "\"--\""];
                (pool[self.tape.below(pool.len())].to_string(), String::new())
            }
            Arg::NumStr => {
                if self.gated("parse-numeric-prefix-strings") {
                    let pool = ["\"10\"", "\"-5\"", "\"3.5\"", "\"42\"", "\"abc\"", "\"7\""];
                    return Some((pool[self.tape.below(pool.len())].to_string(), "numstr-plain".into()));
                }
                if self.tape.chance(1, 2) {
                    (self.tape.pick(STR_NUMERIC).to_string(), "numstr".into())
                } else {
                    (self.expr(&Ty::Str, 0), String::new())
                }
            }
        })
    }

    pub fn callback(&mut self, params: &[Ty], ret: &Ty) -> String {
        // use between 1 and all of the parameters
        let n = 1 + self.tape.below(params.len().max(1));
        let ps: Vec<Ty> = params.iter().take(n).cloned().collect();
        self.tag("expr:callback");
        self.arrow(&ps, ret, 1)
    }
}

/// `(inner)` -> `inner` when the parentheses enclose the whole text and `inner` can stand alone as an
/// arrow function body (no top-level comma, not an object literal / function / class); otherwise unchanged
fn strip_outer_parens(text: String) -> String {
    if !text.starts_with('(') || !text.ends_with(')') || text.contains('`') {
        return text;
    }
    let chars: Vec<char> = text.chars().collect();
    let mut depth = 0i32;
    let mut quote: Option<char> = None;
    let mut i = 0;
    while i < chars.len() {
        let c = chars[i];
        if let Some(q) = quote {
            if c == '\\' {
                i += 2;
                continue;
            }
            if c == q {
                quote = None;
            }
        } else {
            match c {
                '"' | '\'' => quote = Some(c),
                '(' | '[' | '{' => depth += 1,
                ')' | ']' | '}' => {
                    depth -= 1;
                    if depth == 0 && i + 1 != chars.len() {
                        return text; // the first parenthesis closes before the end
                    }
                }
                ',' if depth == 1 => return text,
                _ => {}
            }
        }
        i += 1;
    }
    let inner: String = chars[1..chars.len() - 1].iter().collect();
    let t = inner.trim_start();
    if t.starts_with('{') || t.starts_with("function") || t.starts_with("class") || t.is_empty() {
        return text;
    }
    inner
}
