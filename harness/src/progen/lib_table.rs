//! Pinned library table: receiver × method × argument classes × result type (DESIGN §3).
//! Only exactly-specified behaviour (no transcendental Math, no locale, no function toString).

#[derive(Clone, Copy, Debug, PartialEq)]
pub enum Recv {
    RStr,
    /// any array (element type is tracked by the caller)
    RArr,
    RArrNum,
    RArrStr,
    RNum,
    /// static namespace call, e.g. Math.abs(..)
    Static(&'static str),
    RMap,
    RSet,
    RRec,
}

#[derive(Clone, Copy, Debug, PartialEq)]
pub enum Arg {
    /// index-like: small ints plus NaN, -0, negative, fractional, out-of-range, undefined
    Idx,
    /// index-like or missing
    OptIdx,
    Num,
    /// small integer 0..6 (counts, repeat, fill lengths)
    Small,
    /// count for repeat/padStart: 0..12 plus -1, 2.5, NaN
    Count,
    Str,
    /// separator-like short string
    Sep,
    /// any primitive
    Prim,
    /// anything
    Any,
    /// element of the receiver's element type
    Elem,
    /// array with the receiver's element type
    ArrSame,
    ArrNum,
    /// callbacks
    CbElemToNum,
    CbElemToBool,
    CbElemToAny,
    CbReduce,
    CbCmp,
    CbElemToArr,
    /// radix 2..36
    Radix,
    /// radix for parsing: powers of two and 10 only (other radices may be approximated beyond 2^53)
    ParseRadix,
    /// digits 0..20
    Digits,
    /// precision 1..21
    Precision,
    /// regular expression literal from the portable subset
    Regex,
    /// regex with g flag
    RegexG,
    /// replacement string or function
    Repl,
    /// record literal
    Rec,
    /// a property key that exists / does not exist
    Key,
    /// missing optional argument allowed: wraps another class by convention (handled in code)
    OptSep,
    OptNum,
    /// array of [k,v] pairs
    Pairs,
    /// JSON text
    JsonText,
    /// indent argument for JSON.stringify
    Indent,
    /// numeric-looking or arbitrary string for Number()/parseInt()/parseFloat()
    NumStr,
}

#[derive(Clone, Copy, Debug, PartialEq)]
pub enum Ret {
    Num,
    Str,
    Bool,
    Nul,
    /// array with the receiver's element type
    ArrSame,
    ArrNum,
    ArrStr,
    ArrAny,
    /// element type or undefined
    ElemOrUndef,
    Any,
    /// returns the receiver itself (Map.set / Set.add)
    SelfRecv,
}

#[derive(Clone, Copy, Debug)]
pub struct LibEntry {
    pub recv: Recv,
    pub name: &'static str,
    pub args: &'static [Arg],
    pub ret: Ret,
    /// gate name consulted in the clean profile
    pub gate: Option<&'static str>,
    /// mutates the receiver (only emitted on variables or fresh literals; never on frozen things)
    pub mutates: bool,
}

const fn e(recv: Recv, name: &'static str, args: &'static [Arg], ret: Ret) -> LibEntry {
    LibEntry { recv, name, args, ret, gate: None, mutates: false }
}
const fn m(recv: Recv, name: &'static str, args: &'static [Arg], ret: Ret) -> LibEntry {
    LibEntry { recv, name, args, ret, gate: None, mutates: true }
}
const fn g(recv: Recv, name: &'static str, args: &'static [Arg], ret: Ret, gate: &'static str) -> LibEntry {
    LibEntry { recv, name, args, ret, gate: Some(gate), mutates: false }
}

use Arg::*;
use Recv::*;

pub static LIB: &[LibEntry] = &[
    // ---- String.prototype ----
    e(RStr, "charAt", &[Idx], Ret::Str),
    e(RStr, "charCodeAt", &[Idx], Ret::Num),
    e(RStr, "codePointAt", &[Idx], Ret::Any),
    e(RStr, "indexOf", &[Arg::Str, OptIdx], Ret::Num),
    e(RStr, "lastIndexOf", &[Arg::Str, OptIdx], Ret::Num),
    e(RStr, "includes", &[Arg::Str, OptIdx], Ret::Bool),
    e(RStr, "startsWith", &[Arg::Str, OptIdx], Ret::Bool),
    e(RStr, "endsWith", &[Arg::Str, OptIdx], Ret::Bool),
    e(RStr, "slice", &[Idx, OptIdx], Ret::Str),
    e(RStr, "substring", &[Idx, OptIdx], Ret::Str),
    e(RStr, "substr", &[Idx, OptIdx], Ret::Str),
    e(RStr, "toUpperCase", &[], Ret::Str),
    e(RStr, "toLowerCase", &[], Ret::Str),
    e(RStr, "trim", &[], Ret::Str),
    e(RStr, "trimStart", &[], Ret::Str),
    e(RStr, "trimEnd", &[], Ret::Str),
    e(RStr, "padStart", &[Count, OptSep], Ret::Str),
    e(RStr, "padEnd", &[Count, OptSep], Ret::Str),
    e(RStr, "repeat", &[Count], Ret::Str),
    e(RStr, "concat", &[Prim, Prim], Ret::Str),
    e(RStr, "split", &[Sep, OptIdx], Ret::ArrStr),
    e(RStr, "split", &[], Ret::ArrStr),
    e(RStr, "at", &[Idx], Ret::Any),
    e(RStr, "replace", &[Arg::Str, Repl], Ret::Str),
    e(RStr, "replace", &[Regex, Repl], Ret::Str),
    e(RStr, "replaceAll", &[Arg::Str, Repl], Ret::Str),
    e(RStr, "replaceAll", &[RegexG, Repl], Ret::Str),
    e(RStr, "match", &[Regex], Ret::Any),
    e(RStr, "match", &[RegexG], Ret::Any),
    e(RStr, "search", &[Regex], Ret::Num),
    e(RStr, "toString", &[], Ret::Str),
    e(RStr, "valueOf", &[], Ret::Str),
    e(RStr, "normalize", &[], Ret::Str),
    // ---- Array.prototype (non-mutating) ----
    e(RArr, "slice", &[OptIdx, OptIdx], Ret::ArrSame),
    e(RArr, "concat", &[ArrSame], Ret::ArrSame),
    e(RArr, "concat", &[Elem, ArrSame], Ret::ArrSame),
    e(RArr, "indexOf", &[Elem, OptIdx], Ret::Num),
    e(RArr, "lastIndexOf", &[Elem], Ret::Num),
    e(RArr, "includes", &[Elem, OptIdx], Ret::Bool),
    e(RArr, "join", &[OptSep], Ret::Str),
    e(RArr, "at", &[Idx], Ret::ElemOrUndef),
    e(RArr, "map", &[CbElemToNum], Ret::ArrNum),
    e(RArr, "map", &[CbElemToAny], Ret::ArrAny),
    e(RArr, "filter", &[CbElemToBool], Ret::ArrSame),
    e(RArr, "find", &[CbElemToBool], Ret::ElemOrUndef),
    e(RArr, "findIndex", &[CbElemToBool], Ret::Num),
    e(RArr, "findLast", &[CbElemToBool], Ret::ElemOrUndef),
    e(RArr, "findLastIndex", &[CbElemToBool], Ret::Num),
    e(RArr, "some", &[CbElemToBool], Ret::Bool),
    e(RArr, "every", &[CbElemToBool], Ret::Bool),
    e(RArr, "forEach", &[CbElemToAny], Ret::Nul),
    e(RArr, "flatMap", &[CbElemToArr], Ret::ArrAny),
    e(RArr, "flat", &[], Ret::ArrAny),
    e(RArr, "toString", &[], Ret::Str),
    e(RArr, "toReversed", &[], Ret::ArrSame),
    e(RArr, "toSorted", &[], Ret::ArrSame),
    e(RArr, "toSpliced", &[Idx, Small], Ret::ArrSame),
    e(RArr, "with", &[Small, Elem], Ret::ArrSame),
    e(RArrNum, "reduce", &[CbReduce, Arg::Num], Ret::Num),
    e(RArrNum, "reduce", &[CbReduce], Ret::Any),
    e(RArrNum, "reduceRight", &[CbReduce, Arg::Num], Ret::Num),
    e(RArrNum, "toSorted", &[CbCmp], Ret::ArrNum),
    // ---- Array.prototype (mutating) ----
    m(RArr, "push", &[Elem], Ret::Num),
    m(RArr, "push", &[Elem, Elem], Ret::Num),
    m(RArr, "pop", &[], Ret::ElemOrUndef),
    m(RArr, "shift", &[], Ret::ElemOrUndef),
    m(RArr, "unshift", &[Elem], Ret::Num),
    m(RArr, "reverse", &[], Ret::ArrSame),
    m(RArr, "sort", &[], Ret::ArrSame),
    m(RArrNum, "sort", &[CbCmp], Ret::ArrNum),
    m(RArr, "splice", &[Idx, Small], Ret::ArrSame),
    m(RArr, "splice", &[Idx, Small, Elem], Ret::ArrSame),
    m(RArr, "fill", &[Elem, OptIdx, OptIdx], Ret::ArrSame),
    m(RArr, "copyWithin", &[Idx, Idx], Ret::ArrSame),
    // ---- Number.prototype ----
    e(RNum, "toFixed", &[Digits], Ret::Str),
    e(RNum, "toString", &[], Ret::Str),
    e(RNum, "toString", &[Radix], Ret::Str),
    e(RNum, "toPrecision", &[Precision], Ret::Str),
    e(RNum, "toExponential", &[Digits], Ret::Str),
    e(RNum, "valueOf", &[], Ret::Num),
    // ---- Math (exactly specified only) ----
    e(Static("Math"), "abs", &[Arg::Num], Ret::Num),
    e(Static("Math"), "floor", &[Arg::Num], Ret::Num),
    e(Static("Math"), "ceil", &[Arg::Num], Ret::Num),
    e(Static("Math"), "round", &[Arg::Num], Ret::Num),
    e(Static("Math"), "trunc", &[Arg::Num], Ret::Num),
    e(Static("Math"), "sign", &[Arg::Num], Ret::Num),
    e(Static("Math"), "sqrt", &[Arg::Num], Ret::Num),
    e(Static("Math"), "min", &[Arg::Num, Arg::Num], Ret::Num),
    e(Static("Math"), "max", &[Arg::Num, Arg::Num], Ret::Num),
    e(Static("Math"), "min", &[], Ret::Num),
    e(Static("Math"), "max", &[Arg::Num, Arg::Num, Arg::Num], Ret::Num),
    e(Static("Math"), "abs", &[Prim], Ret::Num),
    // ---- Number / global conversion ----
    e(Static("Number"), "isInteger", &[Arg::Any], Ret::Bool),
    e(Static("Number"), "isFinite", &[Arg::Any], Ret::Bool),
    e(Static("Number"), "isNaN", &[Arg::Any], Ret::Bool),
    e(Static("Number"), "isSafeInteger", &[Arg::Any], Ret::Bool),
    e(Static("Number"), "parseFloat", &[NumStr], Ret::Num),
    e(Static("Number"), "parseInt", &[NumStr, ParseRadix], Ret::Num),
    e(Static(""), "Number", &[NumStr], Ret::Num),
    e(Static(""), "Number", &[Arg::Any], Ret::Num),
    e(Static(""), "parseInt", &[NumStr], Ret::Num),
    e(Static(""), "parseInt", &[NumStr, ParseRadix], Ret::Num),
    e(Static(""), "parseFloat", &[NumStr], Ret::Num),
    e(Static(""), "isNaN", &[Prim], Ret::Bool),
    e(Static(""), "isFinite", &[Prim], Ret::Bool),
    e(Static(""), "String", &[Arg::Any], Ret::Str),
    e(Static(""), "Boolean", &[Arg::Any], Ret::Bool),
    // ---- String statics ----
    e(Static("String"), "fromCharCode", &[Small, Small], Ret::Str),
    e(Static("String"), "fromCodePoint", &[Small], Ret::Str),
    // ---- Array statics ----
    e(Static("Array"), "isArray", &[Arg::Any], Ret::Bool),
    e(Static("Array"), "of", &[Arg::Num, Arg::Num], Ret::ArrNum),
    e(Static("Array"), "from", &[Arg::ArrNum], Ret::ArrNum),
    e(Static("Array"), "from", &[Arg::Str], Ret::ArrStr),
    e(Static("Array"), "from", &[Arg::ArrNum, CbElemToNum], Ret::ArrNum),
    // ---- Object statics ----
    e(Static("Object"), "keys", &[Arg::Rec], Ret::ArrStr),
    e(Static("Object"), "values", &[Arg::Rec], Ret::ArrAny),
    e(Static("Object"), "entries", &[Arg::Rec], Ret::ArrAny),
    e(Static("Object"), "assign", &[Arg::Rec, Arg::Rec], Ret::Any),
    e(Static("Object"), "fromEntries", &[Pairs], Ret::Any),
    e(Static("Object"), "freeze", &[Arg::Rec], Ret::Any),
    e(Static("Object"), "isFrozen", &[Arg::Rec], Ret::Bool),
    e(Static("Object"), "getOwnPropertyNames", &[Arg::Rec], Ret::ArrStr),
    e(Static("Object"), "is", &[Prim, Prim], Ret::Bool),
    g(Static("Object"), "keys", &[Arg::ArrNum], Ret::ArrStr, "object-keys-on-array"),
    g(Static("Object"), "entries", &[Arg::ArrNum], Ret::ArrAny, "object-keys-on-array"),
    e(RRec, "hasOwnProperty", &[Key], Ret::Bool),
    // ---- JSON ----
    e(Static("JSON"), "stringify", &[Arg::Any], Ret::Any),
    e(Static("JSON"), "stringify", &[Arg::Any, Arg::Any, Indent], Ret::Any),
    e(Static("JSON"), "parse", &[JsonText], Ret::Any),
    // ---- Map / Set ----
    e(RMap, "get", &[Prim], Ret::Any),
    e(RMap, "has", &[Prim], Ret::Bool),
    m(RMap, "set", &[Prim, Arg::Any], Ret::SelfRecv),
    m(RMap, "delete", &[Prim], Ret::Bool),
    e(RMap, "size", &[], Ret::Num),
    e(RSet, "has", &[Prim], Ret::Bool),
    m(RSet, "add", &[Prim], Ret::SelfRecv),
    m(RSet, "delete", &[Prim], Ret::Bool),
    e(RSet, "size", &[], Ret::Num),
    // gated examples (kept in the table so that the gate is exact)
    g(Static("Array"), "from", &[Arg::Rec], Ret::ArrAny, "lib-Array.from-array-like"),
];
