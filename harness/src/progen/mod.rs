//! progen — the shared, type-directed program generator (DESIGN §3).
//!
//! Programs are built top-down from a typed grammar by construction (no rejection): every
//! expression is generated at a requested static type with an environment of typed bindings.
//! Every production records a feature tag; productions matching the gate of an *open* known
//! finding are never emitted (and counted). Output is program text carrying *decoration
//! markers* (private-use code points) at every position where TypeScript allows purely static
//! syntax; `render_plain` strips them (JavaScript), `decorate` (C03) fills them.

use crate::findings::Gates;
use crate::tape::Tape;
use std::collections::{BTreeMap, BTreeSet};

pub mod expr;
pub mod lib_table;
pub mod stmt;
pub mod ts;

pub const MARK: char = '\u{E000}';
/// start / end of an optional TypeScript-only text block (stripped in the JavaScript rendering)
pub const TS_OPEN: char = '\u{E001}';
pub const TS_CLOSE: char = '\u{E002}';

#[derive(Clone, Debug, PartialEq)]
pub enum Ty {
    Num,
    Str,
    Bool,
    /// null or undefined
    Nul,
    Arr(Box<Ty>),
    /// record with known fields
    Rec(Vec<(String, Ty)>),
    /// function with parameter types and result type
    Func(Vec<Ty>, Box<Ty>),
    Map(Box<Ty>, Box<Ty>),
    Set(Box<Ty>),
    /// instance of generated class #n
    Inst(usize),
    /// generator object yielding T
    GenOf(Box<Ty>),
    /// dynamically typed: any of the primitive/array/record shapes
    Any,
}

impl Ty {
    pub fn hint(&self) -> char {
        match self {
            Ty::Num => 'n',
            Ty::Str => 's',
            Ty::Bool => 'b',
            Ty::Nul => 'u',
            Ty::Arr(t) => match **t {
                Ty::Num => 'N',
                Ty::Str => 'S',
                _ => 'A',
            },
            Ty::Rec(_) => 'o',
            Ty::Func(..) => 'f',
            Ty::Map(..) => 'm',
            Ty::Set(..) => 'e',
            Ty::Inst(_) => 'i',
            Ty::GenOf(_) => 'g',
            Ty::Any => 'a',
        }
    }
    pub fn is_prim(&self) -> bool {
        matches!(self, Ty::Num | Ty::Str | Ty::Bool | Ty::Nul)
    }
    pub fn short(&self) -> String {
        match self {
            Ty::Num => "num".into(),
            Ty::Str => "str".into(),
            Ty::Bool => "bool".into(),
            Ty::Nul => "nul".into(),
            Ty::Arr(t) => format!("arr<{}>", t.short()),
            Ty::Rec(_) => "rec".into(),
            Ty::Func(..) => "fn".into(),
            Ty::Map(..) => "map".into(),
            Ty::Set(..) => "set".into(),
            Ty::Inst(_) => "inst".into(),
            Ty::GenOf(_) => "gen".into(),
            Ty::Any => "any".into(),
        }
    }
}

#[derive(Clone, Debug)]
pub struct Var {
    pub name: String,
    pub ty: Ty,
    pub mutable: bool,
}

#[derive(Clone, Debug)]
pub struct ClassInfo {
    pub name: String,
    pub fields: Vec<(String, Ty)>,
    /// (name, param types, return type)
    pub methods: Vec<(String, Vec<Ty>, Ty)>,
    pub getters: Vec<(String, Ty)>,
    pub statics: Vec<(String, Vec<Ty>, Ty)>,
    pub ctor_params: Vec<Ty>,
    /// Some(n): only ever used as a base class; TypeScript may declare it abstract with abstract
    /// members am<n>/ap<n>/ag<n>/ao<n>, which every class derived from it implements
    pub only_base: Option<usize>,
}

#[derive(Clone, Debug, PartialEq)]
pub enum Profile {
    /// known-finding gates on (C01)
    Clean,
    /// no gates (self-differential properties)
    Full,
}

#[derive(Clone, Debug)]
pub struct Config {
    pub profile: Profile,
    pub max_stmts: usize,
    pub max_depth: usize,
    /// allow generator functions / classes / etc. (switches for narrowing while triaging)
    pub allow_async: bool,
    /// bias towards allocation-heavy productions (C02/C14)
    pub alloc_bias: bool,
    /// wrap the whole program in an IIFE without global writes (C14)
    pub self_contained: bool,
    /// emit TypeScript decoration slots inside expressions and between statements (C03)
    pub ts_slots: bool,
}

impl Config {
    pub fn clean(max_stmts: usize) -> Config {
        Config { profile: Profile::Clean, max_stmts, max_depth: 3, allow_async: false, alloc_bias: false, self_contained: false, ts_slots: false }
    }
    pub fn full(max_stmts: usize) -> Config {
        Config { profile: Profile::Full, max_stmts, max_depth: 3, allow_async: false, alloc_bias: false, self_contained: false, ts_slots: false }
    }
}

pub struct Gen<'t, 'a, 'g> {
    pub tape: &'t mut Tape<'a>,
    pub gates: &'g Gates,
    pub cfg: Config,
    pub scopes: Vec<Vec<Var>>,
    pub classes: Vec<ClassInfo>,
    pub tags: BTreeSet<String>,
    pub excluded: BTreeMap<String, u32>,
    pub next_id: usize,
    pub trace_id: usize,
    /// >0 while generating inside a function body (return allowed)
    pub fn_depth: usize,
    /// enclosing breakable constructs, innermost last: (label, kind) with kind 'L' loop, 'S' switch, 'B' labelled block
    pub loops: Vec<(Option<String>, char)>,
    /// inside a generator function body (yield allowed)
    pub in_generator: bool,
    /// deferred function declarations to append at the end of the current block (hoisting)
    pub deferred: Vec<Vec<String>>,
    /// budget of statements left
    pub stmt_budget: usize,
    /// nesting depth of blocks
    pub block_depth: usize,
    /// >0 while inside a block that shadows an outer binding
    pub shadow_depth: usize,
    /// >0 while generating the body of a finally block
    pub in_finally: usize,
    /// while set, `any` positions avoid number-typed values
    pub no_numbers: bool,
    /// while set, expressions do not read string/array/object variables (assignment right-hand sides:
    /// `v = v + v` in nested loops would grow without bound)
    pub no_big_vars: bool,
    /// round-robin counters so that operator × type pairs and library entries are all hit
    pub rr: BTreeMap<&'static str, usize>,
    /// number of linked TypeScript-only block groups handed out
    pub ts_groups: u32,
}

impl<'t, 'a, 'g> Gen<'t, 'a, 'g> {
    pub fn new(tape: &'t mut Tape<'a>, gates: &'g Gates, cfg: Config) -> Self {
        let budget = cfg.max_stmts;
        Gen {
            tape,
            gates,
            cfg,
            scopes: vec![vec![]],
            classes: vec![],
            tags: BTreeSet::new(),
            excluded: BTreeMap::new(),
            next_id: 0,
            trace_id: 0,
            fn_depth: 0,
            loops: vec![],
            in_generator: false,
            deferred: vec![],
            stmt_budget: budget,
            block_depth: 0,
            shadow_depth: 0,
            in_finally: 0,
            no_numbers: false,
            no_big_vars: false,
            rr: BTreeMap::new(),
            ts_groups: 0,
        }
    }

    pub fn tag(&mut self, t: impl Into<String>) {
        self.tags.insert(t.into());
    }

    /// true if this production is excluded by an open finding's gate (clean profile only)
    pub fn gated(&mut self, gate: &str) -> bool {
        if self.cfg.profile == Profile::Clean && self.gates.excluded(gate) {
            *self.excluded.entry(gate.to_string()).or_insert(0) += 1;
            true
        } else {
            false
        }
    }

    pub fn fresh(&mut self, prefix: &str) -> String {
        let n = self.next_id;
        self.next_id += 1;
        format!("{}{}", prefix, n)
    }

    pub fn mark(&self, kind: char, ty: &Ty) -> String {
        let mut s = String::new();
        s.push(MARK);
        s.push(kind);
        s.push(ty.hint());
        s
    }

    /// text that exists only in the TypeScript rendering (when the decoration keeps it)
    pub fn ts_only(&self, text: &str) -> String {
        self.ts_only_group('0', text)
    }

    /// TypeScript-only text whose presence is decided together with every other block of the same
    /// group (group '0' = decided on its own): TS_OPEN, group id, text, TS_CLOSE
    pub fn ts_only_group(&self, group: char, text: &str) -> String {
        if self.cfg.ts_slots {
            format!("{}{}{}{}", TS_OPEN, group, text, TS_CLOSE)
        } else {
            String::new()
        }
    }

    /// a fresh group id for linked TypeScript-only blocks
    pub fn ts_group(&mut self) -> char {
        self.ts_groups += 1;
        char::from_u32(0x100 + self.ts_groups).unwrap_or('1')
    }

    pub fn declare(&mut self, name: &str, ty: Ty, mutable: bool) {
        if let Some(s) = self.scopes.last_mut() {
            s.push(Var { name: name.to_string(), ty, mutable });
        }
    }

    pub fn visible(&self) -> Vec<Var> {
        // inner scopes shadow outer ones
        let mut seen = BTreeSet::new();
        let mut out = vec![];
        for s in self.scopes.iter().rev() {
            for v in s.iter().rev() {
                if seen.insert(v.name.clone()) {
                    out.push(v.clone());
                }
            }
        }
        out
    }

    pub fn vars_of(&self, pred: impl Fn(&Ty) -> bool) -> Vec<Var> {
        let no_big = self.no_big_vars;
        self.visible()
            .into_iter()
            .filter(|v| pred(&v.ty))
            .filter(|v| !(no_big && matches!(v.ty, Ty::Str | Ty::Arr(_) | Ty::Any | Ty::Rec(_))))
            .collect()
    }

    pub fn pick_var(&mut self, pred: impl Fn(&Ty) -> bool) -> Option<Var> {
        let vs = self.vars_of(pred);
        if vs.is_empty() {
            None
        } else {
            let i = self.tape.below(vs.len());
            vs.get(i).cloned()
        }
    }

    /// round-robin + tape: guarantees every index of a table is visited as programs accumulate
    pub fn rr_pick(&mut self, key: &'static str, n: usize) -> usize {
        if n == 0 {
            return 0;
        }
        let t = self.tape.below(n);
        let c = self.rr.entry(key).or_insert(0);
        *c += 1;
        t
    }
}

/// Strip decoration markers: the JavaScript rendering.
pub fn render_plain(src: &str) -> String {
    let mut out = String::with_capacity(src.len());
    let mut it = src.chars();
    let mut depth = 0usize;
    while let Some(c) = it.next() {
        if c == MARK {
            it.next();
            it.next();
        } else if c == TS_OPEN {
            depth += 1;
        } else if c == TS_CLOSE {
            depth = depth.saturating_sub(1);
        } else if depth == 0 {
            out.push(c);
        }
    }
    out
}

/// The canonical printer prelude shared by both engines (only typeof, Array.isArray,
/// hasOwnProperty.call, Object.keys, JSON.stringify(string), String(number), forEach on Map/Set).
pub const SHOW_PRELUDE: &str = r#"function __show(v, d) {
  d = d || 0;
  if (d > 6) return "<deep>";
  if (v === undefined) return "undefined";
  if (v === null) return "null";
  var t = typeof v;
  if (t === "number") { if (v === 0 && 1 / v < 0) return "-0"; return String(v); }
  if (t === "string") return JSON.stringify(v);
  if (t === "boolean") return v ? "true" : "false";
  if (t === "symbol") return "symbol";
  if (t === "function") return "function";
  if (t === "bigint") return "bigint";
  if (Array.isArray(v)) {
    var parts = [];
    for (var i = 0; i < v.length; i++) { parts.push(Object.prototype.hasOwnProperty.call(v, i) ? __show(v[i], d + 1) : "<hole>"); }
    return "[" + parts.join(",") + "]";
  }
  if (v instanceof Map) { var mp = []; v.forEach(function (val, k) { mp.push(__show(k, d + 1) + "=>" + __show(val, d + 1)); }); return "Map{" + mp.join(",") + "}"; }
  if (v instanceof Set) { var sp = []; v.forEach(function (val) { sp.push(__show(val, d + 1)); }); return "Set{" + sp.join(",") + "}"; }
  if (v instanceof Error) return "Error<" + v.name + ">";
  if (v instanceof Date) return "Date<" + v.getTime() + ">";
  if (v instanceof RegExp) return "RegExp<" + String(v) + ">";
  var ks = Object.keys(v), op = [];
  for (var j = 0; j < ks.length; j++) op.push(JSON.stringify(ks[j]) + ":" + __show(v[ks[j]], d + 1));
  return "{" + op.join(",") + "}";
}
function __t(id, v) { console.log("t" + id + ":" + __show(v)); return v; }
"#;

pub struct Program {
    /// body with decoration markers (no prelude)
    pub marked: String,
    /// the same body, but completing with the raw array of top-level variables instead of its printed form
    pub marked_raw: String,
    pub tags: Vec<String>,
    pub excluded: BTreeMap<String, u32>,
}

impl Program {
    pub fn js(&self) -> String {
        format!("{}{}", SHOW_PRELUDE, render_plain(&self.marked))
    }
    pub fn body_js(&self) -> String {
        render_plain(&self.marked)
    }
    pub fn js_raw(&self) -> String {
        format!("{}{}", SHOW_PRELUDE, render_plain(&self.marked_raw))
    }
}

/// Generate a whole script program.
pub fn gen_script(tape: &mut Tape, gates: &Gates, cfg: Config) -> Program {
    let mut g = Gen::new(tape, gates, cfg);
    let mut lines: Vec<String> = vec![];
    g.deferred.push(vec![]);
    let n = g.tape.range(1, g.cfg.max_stmts as i64) as usize;
    g.stmt_budget = n;
    while g.stmt_budget > 0 {
        g.stmt_budget -= 1;
        let s = g.stmt(0);
        if g.cfg.ts_slots {
            lines.push(g.mark('s', &Ty::Any));
        }
        lines.push(s);
    }
    let d = g.deferred.pop().unwrap_or_default();
    lines.extend(d);
    // final expression: show every visible top-level variable that is printable
    let vars: Vec<String> = g
        .scopes
        .first()
        .map(|s| s.iter().filter(|v| !matches!(v.ty, Ty::Func(..))).map(|v| v.name.clone()).collect())
        .unwrap_or_default();
    let fin = if vars.is_empty() { "__show(0)".to_string() } else { format!("__show([{}])", vars.join(", ")) };
    let body = lines.join("\n");
    let fin_raw = format!("[{}]", vars.join(", "));
    let (marked, marked_raw) = if g.cfg.self_contained {
        (format!("(function () {{\n{}\nreturn {};\n}})()", body, fin), format!("(function () {{\n{}\nreturn {};\n}})()", body, fin_raw))
    } else {
        (format!("{}\n{}", body, fin), format!("{}\n{}", body, fin_raw))
    };
    Program { marked, marked_raw, tags: g.tags.into_iter().collect(), excluded: g.excluded }
}
