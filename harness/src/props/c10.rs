//! C10 — meaning does not depend on size: big constructs work or are refused.
//!
//! Construct families x size n x context (see `c10gen.rs`); every program is self-checking against a
//! closed form the generator knows. Accepted => exactly the closed form; or refused before anything ran
//! with an explicit limit error. Sequences may not be refused when their one-statement version is accepted.

use super::c10gen::{self as g, render, shortened};
use crate::core::{guarded, Ctx, Exec, Plan, Property, Tier};
use crate::engine::{describe_step, error_class, new_interp, reset_hooks};
use crate::tape::Tape;
use serde_json::{json, Value};
use std::cell::RefCell;
use std::rc::Rc;
use tsrun::StepResult;

pub struct C10Prop;
pub static C10: C10Prop = C10Prop;

// ------------------------------------------------------------------------------------------------
// running one program
// ------------------------------------------------------------------------------------------------
#[derive(Debug, Clone)]
pub enum End {
    /// finished; console lines
    Done(Vec<String>),
    /// an error came back from prepare()/step(); (class, text, console lines so far)
    Error(String, String, Vec<String>),
    Panic(String),
    /// the armed instruction budget ran out (the programs have bounded, known work)
    Runaway,
    /// NeedImports / Suspended: cannot happen for these programs
    Odd(String),
}

pub fn run_program(src: &str, instr_budget: u64) -> End {
    reset_hooks();
    let log = Rc::new(RefCell::new(Vec::new()));
    let r = guarded(|| {
        let mut interp = new_interp(&log);
        tsrun::verif_hooks::vm_instr_reset();
        tsrun::verif_hooks::vm_instr_set_limit(instr_budget);
        let t0 = std::time::Instant::now();
        let prepared = interp.prepare(src, None);
        if std::env::var("VERIF_C10_TIMING").is_ok() {
            eprintln!("C10-TIMING prepare {:?}", t0.elapsed());
        }
        let mut res = match prepared {
            Ok(r) => r,
            Err(e) => return Err((error_class(&e), e.to_string())),
        };
        loop {
            match res {
                StepResult::Continue => {}
                StepResult::Complete(_) | StepResult::Done => return Ok(String::new()),
                other => return Ok(describe_step(&other).chars().take(120).collect()),
            }
            res = match interp.step() {
                Ok(r) => r,
                Err(e) => return Err((error_class(&e), e.to_string())),
            };
        }
    });
    tsrun::verif_hooks::vm_instr_set_limit(0);
    let lines = log.borrow().clone();
    match r {
        Ok(Ok(odd)) if odd.is_empty() => End::Done(lines),
        Ok(Ok(odd)) => End::Odd(odd),
        Ok(Err((class, text))) => End::Error(class, text, lines),
        Err(p) => {
            if p.contains("verif: vm work limit") {
                End::Runaway
            } else {
                End::Panic(p)
            }
        }
    }
}

/// the property's wording of an explicit limit error
pub fn is_limit_message(text: &str) -> bool {
    let t = text.to_ascii_lowercase();
    ["too many", "limit", "exceed", "max", "nest"].iter().any(|w| t.contains(w))
}

#[derive(Debug, Clone, PartialEq)]
pub enum Judged {
    Accepted,
    Refused(String),
    Bad(String, String),
}

/// judge one program against its expected output
pub fn judge(src: &str, expect: &str, budget: u64) -> Judged {
    match run_program(src, budget) {
        End::Done(lines) => {
            if lines.len() == 2 && lines[0] == "start" && lines[1] == expect {
                Judged::Accepted
            } else {
                let got = lines.get(1).cloned().unwrap_or_default();
                let what = if lines.len() != 2 {
                    "wrong-output-shape"
                } else {
                    // which field differs: a result or a sentinel
                    let e: Vec<&str> = expect.split('|').collect();
                    let o: Vec<&str> = got.split('|').collect();
                    if e.len() == o.len() && e.last() != o.last() { "sentinel-changed" } else { "wrong-value" }
                };
                Judged::Bad(format!("c10:{}", what), format!("expected output {:?}, got {:?}", expect, lines.iter().skip(1).take(3).collect::<Vec<_>>()))
            }
        }
        End::Error(class, text, lines) => {
            if lines.is_empty() {
                if is_limit_message(&text) {
                    Judged::Refused(text)
                } else {
                    Judged::Bad("c10:refused-without-limit-error".into(), format!("rejected before running, but not with an explicit limit error: {} {}", class, text))
                }
            } else {
                Judged::Bad(format!("c10:runtime-error {}", class), format!("run-time error after the program started: {} ({}); output so far {:?}", text, class, lines.iter().skip(1).take(2).collect::<Vec<_>>()))
            }
        }
        End::Panic(p) => Judged::Bad(format!("c10:{}", p), format!("panic (harness profile has debug assertions and overflow checks on): {}", p)),
        End::Runaway => Judged::Bad("c10:runaway".into(), "the program did not finish within 100x its known work (instruction budget)".into()),
        End::Odd(o) => Judged::Bad("c10:odd-end".into(), format!("unexpected step result {}", o)),
    }
}

fn budget_for(work: u64) -> u64 {
    work.saturating_mul(100).saturating_add(20_000_000)
}

// ------------------------------------------------------------------------------------------------
// the family grid
// ------------------------------------------------------------------------------------------------
#[derive(Clone, Copy, PartialEq)]
enum Big {
    /// register-bound or nesting-bound: beyond the dense range only refusal probes
    Probe,
    /// works far beyond 2^16
    Full,
}

struct Fam {
    fam: &'static str,
    k: u32,
    k2: u32,
    kind: &'static str,
    big: Big,
}

fn families() -> Vec<Fam> {
    let mut v: Vec<Fam> = vec![];
    let mut add = |fam: &'static str, k: u32, k2: u32, kind: &'static str, big: Big| v.push(Fam { fam, k, k2, kind, big });
    add("arr", 0, 0, "", Big::Probe);
    add("arr_spread", 0, 0, "", Big::Full);
    for k in 0..4 {
        add("obj", k, 0, "", Big::Full);
    }
    for k in 0..8 {
        add("call", k, 0, "", Big::Probe);
    }
    for k in 0..3 {
        add("spread_args", k, 0, "", Big::Full);
    }
    for k in 0..8 {
        add("spread_rt", k, 0, "", Big::Full);
    }
    for pv in 0..5 {
        for cv in 0..3 {
            add("params", pv, cv, "", Big::Probe);
        }
        for cv in 0..2 {
            add("params_default", pv, cv, "", Big::Probe);
            add("params_rest", pv, cv, "", if cv == 1 { Big::Full } else { Big::Probe });
        }
    }
    for k in 0..3 {
        add("template", k, 0, "", Big::Probe);
    }
    add("tagged", 0, 0, "", Big::Probe);
    for k in 0..8 {
        add("strlit", k, 0, "", Big::Full);
    }
    for k in 0..6 {
        add("switch", k, 0, "", Big::Full);
    }
    for k in 0..18 {
        add("chain", k, 0, "", Big::Probe);
    }
    for k in 0..21 {
        add("nest", k, 0, "", Big::Probe);
    }
    for k in 0..7 {
        add("destr_arr", k, 0, "", if k == 6 { Big::Probe } else { Big::Full });
    }
    for k in 0..6 {
        add("destr_obj", k, 0, "", Big::Full);
    }
    for k in 0..8 {
        if k != 6 {
            add("class", k, 0, "", Big::Full);
        }
    }
    for k in 0..3 {
        for f in 0..2 {
            add("decl", k, f, "", Big::Full);
        }
    }
    for k in 0..3 {
        add("closure", k, 0, "", Big::Full);
    }
    for kind in g::SEQ_KINDS.iter() {
        add("seq", 0, 0, kind, Big::Full);
    }
    for kind in g::LB_KINDS.iter() {
        add("lb", 0, 0, kind, if *kind == "condexpr" { Big::Probe } else { Big::Full });
    }
    v
}

fn part_json(f: &Fam, n: usize, fl: u32) -> Value {
    let mut p = json!({"fam": f.fam, "n": n, "fl": fl});
    if !f.kind.is_empty() {
        p["kind"] = json!(f.kind);
    } else {
        p["k"] = json!(f.k);
        if matches!(f.fam, "params" | "params_default" | "params_rest" | "decl") {
            p["k2"] = json!(f.k2);
        }
    }
    p
}

const CTXS: [&str; 4] = ["top", "fn", "encl", "live"];

/// sizes beyond the dense range for register/nesting-bound families: they must be refused explicitly
/// (or work); the values sit at the points where a narrowing cast would wrap
fn probe_sizes(tier: Tier) -> Vec<usize> {
    let v = vec![301usize, 511, 512, 1000, 4095, 4096, 4097, 32768, 65535, 65536, 65537, 65791, 70000];
    v.into_iter().filter(|n| tier == Tier::Thorough || ![511usize, 4095, 4097, 32768].contains(n)).collect()
}

/// variants that get the sizes around 2^16 and 70 000 in the quick tier (all do in the thorough tier)
fn is_key(f: &Fam) -> bool {
    match f.fam {
        "seq" => matches!(f.kind, "assign" | "call2" | "decl" | "try" | "if" | "fndecl" | "iife" | "mcall"),
        "lb" => matches!(f.kind, "while" | "iftrue" | "iffalse" | "trycatch" | "switch" | "breakcont" | "generator" | "labeled"),
        "obj" | "switch" | "class" | "destr_arr" | "closure" | "destr_obj" => f.k == 0,
        "decl" => f.k == 0 && f.k2 == 1,
        // run-time sizes: the program text is tiny
        "spread_rt" | "strlit" | "params_rest" => true,
        _ => false,
    }
}

/// (n, flavour) pairs beyond the dense range for families that work far beyond 2^16
fn full_sizes(tier: Tier, f: &Fam, fi: usize) -> Vec<(usize, u32)> {
    let mut v: Vec<(usize, u32)> = vec![];
    for (si, n) in [512usize, 1024, 2048, 4096, 8192, 16384].iter().enumerate() {
        // n class declarations in one body compile in super-linear time (16384: ~30 s)
        if tier == Tier::Quick && f.fam == "seq" && f.kind == "class" && *n > 4096 {
            continue;
        }
        v.push((*n, ((si + fi) % 5) as u32));
    }
    if tier == Tier::Thorough || is_key(f) {
        // where n is an element/argument/case count, or the text is tiny, +-3 around 2^16; else +-1 (quick)
        let dense3 = tier == Tier::Thorough || matches!(f.fam, "spread_rt" | "strlit" | "params_rest" | "obj" | "switch") || (f.fam == "seq" && f.kind == "assign");
        for n in [32768usize, 65533, 65534, 65535, 65536, 65537, 65538, 65539, 70000] {
            if !dense3 && matches!(n, 65533 | 65534 | 65538 | 65539) {
                continue;
            }
            v.push((n, 0));
        }
    }
    // distinct numeric / string constants in one function (> 2^16)
    if (f.fam == "seq" && matches!(f.kind, "assign" | "try")) || (f.fam == "lb" && f.kind == "while") || tier == Tier::Thorough {
        for n in [32768usize, 65536, 70000] {
            v.push((n, 1));
            v.push((n, 2));
        }
    }
    if tier == Tier::Thorough {
        for (si, n) in [4095usize, 4097, 32767, 32769, 65791, 100_000, 131_072, 140_000].iter().enumerate() {
            v.push((*n, if *n > 60000 { 0 } else { ((si + fi) % 5) as u32 }));
        }
    }
    v
}

fn dense_max(tier: Tier) -> usize {
    tier.pick(300, 600)
}

impl C10Prop {
    fn grid(&self, tier: Tier) -> Vec<Value> {
        let fams = families();
        let mut out = vec![];
        let dm = dense_max(tier);
        // dense part: every n in 0..=dm, context and flavour rotate with n so that each (family, n) is hit
        // in every context over 4 consecutive sizes; thorough runs all 4 contexts for every n
        for (fi, f) in fams.iter().enumerate() {
            for n in 0..=dm {
                // quick tier: families that are not bound by the register window or the nesting budget
                // take every n up to 40 and every third n beyond (the residue rotates with the family)
                if tier == Tier::Quick && f.big == Big::Full && n > 40 && n % 3 != fi % 3 && !(253..=259).contains(&n) {
                    continue;
                }
                let fl = ((n + fi) % 5) as u32;
                if tier == Tier::Thorough {
                    for (ci, c) in CTXS.iter().enumerate() {
                        out.push(json!({"ctx": c, "lv": (n + ci) % 6, "parts": [part_json(f, n, fl)]}));
                    }
                } else {
                    // quick: two contexts per (family, n): "live" always (registers hold only temporaries,
                    // so this is where a clobbered register shows) and one of the others in rotation
                    out.push(json!({"ctx": "live", "lv": n % 6, "parts": [part_json(f, n, fl)]}));
                    out.push(json!({"ctx": CTXS[(n + fi) % 3], "lv": 0, "parts": [part_json(f, n, fl)]}));
                }
            }
        }
        let which = std::env::var("VERIF_C10_GRID").unwrap_or_default();
        if which == "big" {
            out.clear();
        }
        if which == "consts" {
            // investigation aid: where does the constant pool of one function overflow?
            out.clear();
            for f in fams.iter().filter(|f| matches!(f.fam, "seq" | "lb" | "decl" | "closure")) {
                for fl in 0..5u32 {
                    for n in [16384usize, 21000, 32768, 65536] {
                        out.push(json!({"ctx": "fn", "lv": 0, "parts": [part_json(f, n, fl)]}));
                    }
                }
            }
            return out;
        }
        // big part
        for (fi, f) in fams.iter().enumerate() {
            if which == "dense" {
                break;
            }
            let sizes: Vec<(usize, u32)> = match f.big {
                Big::Probe => probe_sizes(tier).into_iter().enumerate().map(|(si, n)| (n, ((si + fi) % 5) as u32)).collect(),
                Big::Full => full_sizes(tier, f, fi),
            };
            for (si, (n, fl)) in sizes.into_iter().enumerate() {
                let ctxs: Vec<&str> = if tier == Tier::Thorough { vec!["top", "fn", "live"] } else { vec![["fn", "top", "live", "encl"][(si + fi) % 4]] };
                for c in ctxs {
                    out.push(json!({"ctx": c, "lv": (si + fi) % 6, "parts": [part_json(f, n, fl)]}));
                }
            }
        }
        out
    }
}

fn pick_family(tape: &mut Tape, fams: &[Fam]) -> usize {
    tape.below(fams.len())
}

fn pick_size(tape: &mut Tape, big: Big, tier: Tier) -> usize {
    // sizes cluster around the internal widths
    let wbig = if big == Big::Full && tier == Tier::Thorough { 5 } else { 10 };
    match tape.weighted(&[30, 25, 20, 15, wbig]) {
        0 => tape.below(40),
        1 => tape.range(100, 300) as usize,
        2 => tape.range(120, 135) as usize + if tape.chance(1, 2) { 124 } else { 0 },
        3 => *tape.pick(&[62usize, 63, 64, 84, 85, 86, 126, 127, 128, 129, 130, 250, 251, 252, 253, 254, 255, 256, 257, 258, 259, 260]),
        _ => match big {
            Big::Probe => *tape.pick(&[301usize, 400, 512, 1000, 4096, 65536, 65537]),
            Big::Full => {
                let top = tier.pick(6000, 20000);
                tape.range(301, top) as usize
            }
        },
    }
}

impl Property for C10Prop {
    fn id(&self) -> &'static str {
        "C10"
    }
    fn rule(&self) -> String {
        "Enumerated part: construct families (array/object literals, call/new/super/spread arguments, parameters plain/default/rest, templates, switch, string/identifier lengths, 18 operator/member/call chains, 20 nestings, array/object patterns, class members, declarations, closures, 34 statement sequences, 14 long bodies crossed by jumps) x every n in 0..=300 (600 thorough) x contexts (top level, function with sentinels, inner function with sentinels in the enclosing one, live temporaries around the construct), plus sizes 512..70000 incl. 65533..65539 (thorough: ..140000; quick: every third n beyond 40 for families not bound by registers/nesting, top sizes for 40 key variants). Random part: 2-3 families with tape-chosen sizes in one body or one nested inside another. Every program prints a closed form the generator knows. Oracle: output == closed form (incl. sentinels), or refused before anything ran with an explicit limit message; never a panic, run-time error, runaway or process death; a refusal is a violation when the same program with its statement sequences cut to one statement is accepted (cumulative limit). Non-trivial: max n >= 32. Distinct = (families, sizes, flavour, context).".into()
    }
    fn assumptions(&self) -> Vec<String> {
        vec![
            "the closed forms (Rust mirror of the JS digest helpers in c10gen.rs) are trusted; the helpers use only loops, %, charCodeAt on ASCII, Object.keys, rest/arguments".into(),
            "an explicit limit error is recognised by its text (too many|limit|exceed|max|nest, case-insensitive) and by the fact that nothing was printed before it".into(),
        ]
    }
    fn plan(&self, tier: Tier) -> Plan {
        Plan { shards: 16, cases_per_shard: tier.pick(220, 2500), tape_len: 64, watchdog_s: tier.pick(1500, 14400) }
    }
    fn fixed_cases(&self, ctx: &Ctx) -> Vec<Value> {
        let gates = &ctx.gates;
        self.grid(ctx.tier)
            .into_iter()
            .enumerate()
            .filter(|(i, _)| i % ctx.nshards == ctx.shard)
            .map(|(_, c)| c)
            .map(|c| gate_case(c, gates))
            .collect()
    }
    fn exhaustive_part(&self, tier: Tier) -> Option<String> {
        Some(format!("every n in 0..={} for each of the {} construct variants (contexts rotate in the quick tier, all 4 in the thorough tier)", dense_max(tier), families().len()))
    }
    fn generate(&self, tape: &mut Tape, ctx: &Ctx) -> Value {
        let fams = families();
        let nparts = 2 + tape.below(2);
        let mut parts = vec![];
        for _ in 0..nparts {
            let fi = pick_family(tape, &fams);
            let f = &fams[fi];
            let n = pick_size(tape, f.big, ctx.tier);
            let fl = tape.below(5) as u32;
            parts.push(part_json(f, n, fl));
        }
        let nest = tape.chance(1, 2);
        let c = *tape.pick(&["live", "fn", "top", "encl"]);
        let lv = tape.below(6);
        gate_case(json!({"ctx": c, "lv": lv, "nest": nest, "parts": parts}), &ctx.gates)
    }
    fn execute(&self, case: &Value, _ctx: &mut Ctx) -> Exec {
        execute_case(case)
    }
}

/// Known-finding gates: an open finding names (family label, n-range); the generator then does not
/// emit that shape (the case is marked and counted, and runs as a discard).
fn gate_case(mut c: Value, gates: &crate::findings::Gates) -> Value {
    let mut hit: Option<String> = None;
    if let Some(parts) = c["parts"].as_array() {
        for p in parts {
            for g in gate_names(p) {
                if gates.excluded(&g) {
                    hit = Some(g);
                }
            }
        }
    }
    if let Some(h) = hit {
        c["gated"] = json!(h);
    }
    c
}

/// Distinct constants (numbers > 127, strings, names, function chunks) that one item of a sequence part
/// adds to the constant pool of the enclosing function, in quarters; 0 for parts that are one construct
pub fn const_slope_q(p: &Value) -> u64 {
    let fam = p["fam"].as_str().unwrap_or("");
    let kind = p["kind"].as_str().unwrap_or("");
    // flavour 1 = distinct numbers, 2 = distinct strings, 4 = a quarter each of 0..3; small integers
    // (flavours 0 and 3) are immediate operands
    let flq = match p["fl"].as_u64().unwrap_or(0) {
        1 | 2 => 4,
        4 => 2,
        _ => 0,
    };
    match fam {
        "seq" => match kind {
            // one name or string per statement
            "propread" | "strmethod" => 4,
            // one function chunk per statement (the value lives in the inner chunk)
            "iife" | "arrow" | "closure" => 4,
            // one name / one template object per statement, plus the value
            "decl" | "tagged" => 4 + flq,
            // name + chunk (class: class chunk + name)
            "fndecl" | "class" => 8,
            _ => flq,
        },
        "lb" if kind != "condexpr" => flq,
        "decl" | "closure" => 4 + flq,
        _ => 0,
    }
}

/// gate names a part can match: the constants-per-function gate (by estimated pool size) and the
/// (family label, n-range) entries of GATE_RANGES
fn gate_names(p: &Value) -> Vec<String> {
    let label = g::part_label(p);
    let n = p["n"].as_u64().unwrap_or(0);
    let mut v = vec![];
    if const_slope_q(p) * n / 4 >= 65_000 {
        v.push("C10:constants-per-function>=65000".to_string());
    }
    for (name, lab, lo, hi) in GATE_RANGES.iter() {
        let m = if lab.ends_with(':') { label.starts_with(lab) } else { label == *lab };
        if m && n >= *lo && n <= *hi {
            v.push(name.to_string());
        }
    }
    v
}

/// (gate name, family label or "fam:" prefix, n-lo, n-hi) — consulted only when an open finding lists the gate
const GATE_RANGES: &[(&str, &str, u64, u64)] = &[];

pub fn execute_case(case: &Value) -> Exec {
    // raw form (pinned regressions): {"src", "expect", optional "short_src"/"short_expect"}
    if let Some(src) = case["src"].as_str() {
        let expect = case["expect"].as_str().unwrap_or("");
        let j = judge(src, expect, 2_000_000_000);
        return match j {
            Judged::Accepted => Exec::pass(true).with_tags(vec!["raw:accepted".into()]),
            Judged::Refused(t) => {
                if let (Some(ss), Some(se)) = (case["short_src"].as_str(), case["short_expect"].as_str()) {
                    if judge(ss, se, 2_000_000_000) == Judged::Accepted {
                        return Exec::fail("c10:cumulative-limit raw", format!("refused ({}) although the same program with one-statement sequences is accepted", t));
                    }
                }
                if case["must_accept"].as_bool().unwrap_or(false) {
                    return Exec::fail("c10:refused raw", format!("refused: {}", t));
                }
                Exec::pass(true).with_tags(vec!["raw:refused".into()])
            }
            Judged::Bad(sig, msg) => Exec::fail(sig, msg),
        };
    }
    if let Some(gname) = case["gated"].as_str() {
        return Exec::discard(format!("excluded_by_gate:{}", gname)).count(&format!("excluded_by_gate:{}", gname), 1);
    }
    let prog = match render(case) {
        Ok(p) => p,
        Err(e) => return Exec::fail("c10:bad-spec", e),
    };
    if let Ok(path) = std::env::var("VERIF_C10_DUMP") {
        let _ = std::fs::write(&path, format!("{}\n// EXPECT {}\n", prog.src, prog.expect));
    }
    let label = prog.fams.join("+");
    let ctxname = case["ctx"].as_str().unwrap_or("top").to_string();
    let mut tags = vec![format!("ctx:{}", ctxname)];
    for f in &prog.fams {
        tags.push(format!("fam:{}", f));
    }
    let size_class = match prog.max_n {
        0..=31 => "n<32",
        32..=127 => "n:32-127",
        128..=254 => "n:128-254",
        255..=300 => "n:255-300",
        301..=4096 => "n:301-4096",
        4097..=65000 => "n:4097-65000",
        _ => "n>65000",
    };
    tags.push(size_class.to_string());
    if case["nest"].as_bool().unwrap_or(false) {
        tags.push("nested".into());
    }
    let nontrivial = prog.max_n >= 32;
    let head: String = prog.src.chars().rev().take(600).collect::<String>().chars().rev().collect();
    let t0 = std::time::Instant::now();
    let verdict = judge(&prog.src, &prog.expect, budget_for(prog.work));
    if let Ok(path) = std::env::var("VERIF_C10_TIMES") {
        // investigation aid only: never part of a verdict or of the evidence
        use std::io::Write;
        if let Ok(mut f) = std::fs::OpenOptions::new().create(true).append(true).open(path) {
            let _ = writeln!(f, "{}\t{}\t{:?}\t{}\t{}", t0.elapsed().as_millis(), label, sizes(case), ctxname, match &verdict { Judged::Accepted => "acc".to_string(), Judged::Refused(t) => format!("ref {}", t), Judged::Bad(s, _) => format!("BAD {}", s) });
        }
    }
    match verdict {
        Judged::Accepted => {
            tags.push("accepted".into());
            Exec::pass(nontrivial).with_tags(tags).with_observed(json!({"end": "accepted", "output": prog.expect, "bytes": prog.src.len()}))
        }
        Judged::Refused(text) => {
            tags.push("refused".into());
            tags.push(format!("refused:{}", text.chars().filter(|c| !c.is_ascii_digit()).take(40).collect::<String>()));
            if prog.has_long_seq {
                if let Some(short) = shortened(case) {
                    if let Ok(sp) = render(&short) {
                        if judge(&sp.src, &sp.expect, budget_for(sp.work)) == Judged::Accepted {
                            let mut e = Exec::fail(
                                format!("c10:cumulative-limit {}", label),
                                format!("{} in context {} with sizes {:?} is refused ({}), but the same program with every statement sequence cut to one statement is accepted: the limit is cumulative", label, ctxname, sizes(case), text),
                            );
                            e.observed = json!({"refusal": text, "program_tail": head});
                            return e.with_tags(tags);
                        }
                    }
                }
            }
            Exec::pass(nontrivial).with_tags(tags).with_observed(json!({"end": "refused", "message": text}))
        }
        Judged::Bad(sig, msg) => {
            let mut e = Exec::fail(format!("{} {}", sig, label), format!("{} ctx={} sizes={:?}: {}", label, ctxname, sizes(case), msg));
            e.observed = json!({"program_tail": head, "bytes": prog.src.len()});
            e.with_tags(tags)
        }
    }
}

fn sizes(case: &Value) -> Vec<u64> {
    case["parts"].as_array().map(|a| a.iter().map(|p| p["n"].as_u64().unwrap_or(0)).collect()).unwrap_or_default()
}
