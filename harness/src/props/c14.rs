//! C14 — garbage is reclaimed: repeating a self-contained program keeps the live-object count constant.

use crate::core::{guarded, Ctx, Exec, Plan, Property, Tier};
use crate::engine::{describe_step, error_class, new_interp, reset_hooks};
use crate::progen::{gen_script, Config};
use crate::tape::Tape;
use serde_json::{json, Value};
use std::cell::RefCell;
use std::rc::Rc;
use tsrun::StepResult;

pub struct C14Prop;
pub static C14: C14Prop = C14Prop;

const REPEATS: usize = 8;
const WARMUP: usize = 2;

/// run `src` to its end on `interp`; returns a short end description
fn run_once(interp: &mut tsrun::Interpreter, src: &str, budget: u64) -> String {
    let mut res = match interp.prepare(src, None) {
        Ok(r) => r,
        Err(e) => return format!("error:{}", error_class(&e)),
    };
    let mut steps = 0u64;
    loop {
        match res {
            StepResult::Continue => {}
            other => return describe_step(&other).chars().take(80).collect(),
        }
        steps += 1;
        if steps > budget {
            return "budget".into();
        }
        res = match interp.step() {
            Ok(r) => r,
            Err(e) => return format!("error:{}", error_class(&e)),
        };
    }
}

impl Property for C14Prop {
    fn id(&self) -> &'static str {
        "C14"
    }
    fn rule(&self) -> String {
        format!("progen full profile in self-contained mode (the program is one IIFE that writes no globals; scripts, not modules), biased to cycles, closures, generators (exhausted / abandoned / closed early), class instances, Map/Set, destructuring, exceptions thrown at depth and runs that end in an uncaught error. Each program is run {} times on one interpreter with collect() after every run; oracle: gc_stats().live_objects is identical after every run from run {} on (the first {} runs absorb one-time caches), the interpreter is quiescent (H4) and call_depth() is 0 after every run. One case in four repeats instead a program that awaits host orders (C07's generator: values, objects, error responses, pending host promises resolved or rejected later, handlers on pending promises, pending completions across finally blocks; the host forces collections while the run is parked) with the same host answers every time: the live-object count must be constant from the same run on and a completed or failed run must leave the interpreter quiescent. Non-trivial: the program swept >= 10 objects per run and contains >= 1 leak-prone construct (closure, generator, class, cycle, try/catch, Map/Set). Distinct = distinct program text.", REPEATS, WARMUP + 1, WARMUP)
    }
    fn assumptions(&self) -> Vec<String> {
        vec!["module namespaces and interned strings are deliberately immortal and therefore outside the domain (scripts only)".into()]
    }
    fn plan(&self, tier: Tier) -> Plan {
        Plan { shards: 16, cases_per_shard: tier.pick(1500, 30000), tape_len: tier.pick(700, 1500), watchdog_s: tier.pick(900, 7200) }
    }
    fn generate(&self, tape: &mut Tape, ctx: &Ctx) -> Value {
        if tape.below(4) == 3 {
            // a program that awaits host orders (C07's generator), repeated on one interpreter
            let mut c = crate::props::c07::C07.generate(tape, ctx);
            c["hosted"] = json!(true);
            return c;
        }
        let max = if ctx.tier == Tier::Quick { 14 } else { 28 };
        let mut cfg = Config::full(max);
        cfg.self_contained = true;
        cfg.alloc_bias = true;
        // gates of open C14 findings exclude exactly the leaking constructs (clean profile semantics)
        cfg.profile = crate::progen::Profile::Clean;
        let gates = ctx.gates.only_prefixed("C14:");
        let p = gen_script(tape, &gates, cfg);
        // the canonical printer goes INSIDE the IIFE: top-level function declarations would be writes to
        // global state, which the property's domain excludes
        let body = crate::progen::render_plain(&p.marked);
        let src = body.replacen("(function () {\n", &format!("(function () {{\n{}", crate::progen::SHOW_PRELUDE), 1);
        json!({"src": src, "tags": p.tags, "excluded": p.excluded})
    }
    fn execute(&self, case: &Value, _ctx: &mut Ctx) -> Exec {
        if case["host_src"].is_string() {
            return execute_hosted(case);
        }
        let src = case["src"].as_str().unwrap_or("").to_string();
        let tags: Vec<String> = case["tags"].as_array().map(|a| a.iter().filter_map(|x| x.as_str().map(|s| s.to_string())).collect()).unwrap_or_default();
        let mut counters: Vec<(String, u64)> = vec![];
        if let Some(ex) = case["excluded"].as_object() {
            for (k, v) in ex {
                counters.push((format!("excluded_by_gate:{}", k), v.as_u64().unwrap_or(0)));
            }
        }
        reset_hooks();
        let log = Rc::new(RefCell::new(Vec::new()));
        let r = guarded(|| {
            let mut interp = new_interp(&log);
            let mut live: Vec<usize> = vec![];
            let mut ends: Vec<String> = vec![];
            let mut quiesc: Vec<String> = vec![];
            let mut swept_per_run: Vec<u64> = vec![];
            for _ in 0..REPEATS {
                let s0 = tsrun::verif_hooks::swept();
                tsrun::verif_hooks::vm_instr_set_limit(50_000_000);
                tsrun::verif_hooks::vm_instr_reset();
                let end = run_once(&mut interp, &src, 3_000_000);
                tsrun::verif_hooks::vm_instr_set_limit(0);
                interp.collect();
                live.push(interp.gc_stats().live_objects);
                swept_per_run.push(tsrun::verif_hooks::swept() - s0);
                let q = interp.verif_quiescence();
                let mut bad = vec![];
                if interp.call_depth() != 0 {
                    bad.push(format!("call_depth={}", interp.call_depth()));
                }
                if !q.env_is_global {
                    bad.push("env-not-global".to_string());
                }
                if q.env_guards != 0 {
                    bad.push(format!("env_guards={}", q.env_guards));
                }
                if q.active_vm {
                    bad.push("active_vm".to_string());
                }
                if q.wait_contexts != 0 || q.suspended_for_order || q.pending_orders != 0 {
                    bad.push("async-leftovers".to_string());
                }
                quiesc.push(bad.join(","));
                ends.push(end);
            }
            (live, ends, quiesc, swept_per_run)
        });
        tsrun::verif_hooks::vm_instr_set_limit(0);
        let (live, ends, quiesc, swept) = match r {
            Ok(x) => x,
            Err(p) => {
                if p.contains("verif: vm work limit") {
                    return Exec::discard("budget");
                }
                return Exec::discard(format!("panic (C01/C06 business): {}", p.chars().take(80).collect::<String>()));
            }
        };
        if ends.iter().any(|e| e == "budget") {
            return Exec::discard("budget");
        }
        let observed = json!({"live_objects_after_each_run": live, "ends": ends.first(), "swept_per_run": swept, "quiescence": quiesc});
        // every run must end the same way (same program, same interpreter, no global state)
        if ends.iter().skip(WARMUP).any(|e| Some(e) != ends.get(WARMUP)) {
            let mut e = Exec::fail("c14:ends-differ", format!("the same self-contained program ends differently on repetition: {:?}", ends));
            e.observed = observed;
            return e.with_tags(tags);
        }
        let steady: Vec<usize> = live.iter().skip(WARMUP).cloned().collect();
        if steady.windows(2).any(|w| w[0] != w[1]) {
            let delta = steady.last().unwrap_or(&0).wrapping_sub(*steady.first().unwrap_or(&0)) as i64;
            let mut e = Exec::fail(
                format!("c14:live-objects-grow per-run-delta={}", if steady.len() > 1 { delta / (steady.len() as i64 - 1) } else { 0 }),
                format!("live objects after collect() are not constant over repeated runs: {:?}", live),
            );
            e.observed = observed;
            e.counters = counters;
            return e.with_tags(tags);
        }
        if let Some(q) = quiesc.iter().find(|q| !q.is_empty()) {
            let mut e = Exec::fail(format!("c14:not-quiescent {}", q), format!("interpreter not quiescent after a finished run: {:?}", quiesc));
            e.observed = observed;
            return e.with_tags(tags);
        }
        let leak_prone = tags.iter().any(|t| t.starts_with("closure:") || t.starts_with("decl:generator") || t.starts_with("decl:class") || t.starts_with("stmt:try") || t.starts_with("lib:Map") || t.starts_with("lib:Set") || t.starts_with("expr:arrow") || t.starts_with("decl:function"));
        let nontrivial = swept.iter().skip(WARMUP).all(|s| *s >= 10) && leak_prone;
        let mut e = Exec::pass(nontrivial);
        e.tags = tags;
        e.counters = counters;
        e.observed = observed;
        e
    }
}

/// The repeated program awaits host orders (values, objects, errors, pending host promises resolved or
/// rejected later, host-forced collections while parked): everything a finished run allocated - settled
/// promises, their reactions, order payloads and responses, suspended frames - must be reclaimed.
fn execute_hosted(case: &Value) -> Exec {
    use crate::props::c07::{drive_host, kind_of, Kind};
    use std::collections::BTreeMap;
    let src = case["host_src"].as_str().unwrap_or("").to_string();
    let kinds: BTreeMap<u64, Kind> = case["kinds"].as_object().map(|m| m.iter().map(|(k, v)| (k.parse().unwrap_or(0), kind_of(v))).collect()).unwrap_or_default();
    let sched: Vec<u64> = case["schedules"][0].as_array().map(|a| a.iter().map(|x| x.as_u64().unwrap_or(0)).collect()).unwrap_or_else(|| vec![0]);
    let mut tags: Vec<String> = case["tags"].as_array().map(|a| a.iter().filter_map(|x| x.as_str().map(|s| s.to_string())).collect()).unwrap_or_default();
    tags.push("hosted-program".into());
    reset_hooks();
    let log = Rc::new(RefCell::new(Vec::new()));
    let r = guarded(|| {
        let mut interp = new_interp(&log);
        let mut live: Vec<usize> = vec![];
        let mut ends: Vec<String> = vec![];
        let mut quiesc: Vec<String> = vec![];
        let mut susp = 0u64;
        for _ in 0..REPEATS {
            tsrun::verif_hooks::vm_instr_set_limit(50_000_000);
            tsrun::verif_hooks::vm_instr_reset();
            let end = drive_host(&mut interp, &src, None, &kinds, &sched, &mut susp);
            tsrun::verif_hooks::vm_instr_set_limit(0);
            log.borrow_mut().clear();
            interp.collect();
            live.push(interp.gc_stats().live_objects);
            let q = interp.verif_quiescence();
            let mut bad = vec![];
            if interp.call_depth() != 0 {
                bad.push(format!("call_depth={}", interp.call_depth()));
            }
            if !q.env_is_global {
                bad.push("env-not-global".to_string());
            }
            if q.env_guards != 0 {
                bad.push(format!("env_guards={}", q.env_guards));
            }
            if q.active_vm {
                bad.push("active_vm".to_string());
            }
            if q.wait_contexts != 0 || q.suspended_for_order || q.pending_orders != 0 {
                bad.push("async-leftovers".to_string());
            }
            quiesc.push(bad.join(","));
            ends.push(end);
        }
        (live, ends, quiesc, susp)
    });
    tsrun::verif_hooks::vm_instr_set_limit(0);
    let (live, ends, quiesc, susp) = match r {
        Ok(x) => x,
        Err(p) => {
            if p.contains("verif: vm work limit") {
                return Exec::discard("budget");
            }
            return Exec::discard(format!("panic (C01/C06 business): {}", p.chars().take(80).collect::<String>()));
        }
    };
    if ends.iter().any(|e| e == "budget") {
        return Exec::discard("budget");
    }
    let observed = json!({"live_objects_after_each_run": live, "ends": ends.first(), "quiescence": quiesc, "suspensions": susp});
    if ends.iter().skip(WARMUP).any(|e| Some(e) != ends.get(WARMUP)) {
        let mut e = Exec::fail("c14:hosted-ends-differ", format!("the same program with the same host answers ends differently on repetition: {:?}", ends));
        e.observed = observed;
        return e.with_tags(tags);
    }
    let steady: Vec<usize> = live.iter().skip(WARMUP).cloned().collect();
    if steady.windows(2).any(|w| w[0] != w[1]) {
        let delta = steady.last().unwrap_or(&0).wrapping_sub(*steady.first().unwrap_or(&0)) as i64;
        let mut e = Exec::fail(
            format!("c14:hosted-live-objects-grow per-run-delta={}", if steady.len() > 1 { delta / (steady.len() as i64 - 1) } else { 0 }),
            format!("live objects after collect() are not constant over repeated runs of a program that awaits host orders: {:?}", live),
        );
        e.observed = observed;
        return e.with_tags(tags);
    }
    // a run that ended (complete / error) must leave nothing behind; a run that ended stuck is judged by the count only
    if ends.first().map(|e| e.starts_with("complete") || e.starts_with("error")).unwrap_or(false) {
        if let Some(q) = quiesc.iter().find(|q| !q.is_empty()) {
            let mut e = Exec::fail(format!("c14:hosted-not-quiescent {}", q), format!("interpreter not quiescent after a finished run: {:?}", quiesc));
            e.observed = observed;
            return e.with_tags(tags);
        }
    }
    let mut e = Exec::pass(susp >= REPEATS as u64);
    e.tags = tags;
    e.observed = observed;
    e
}
