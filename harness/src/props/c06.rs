//! C06 — the host keeps control: bounded steps, no script can abort the process.
//!
//! Domain (tables in `c06paths.rs`):
//!  (1) PATH x BODY programs: a path routes control from running code back into script code
//!      (plain call, method, constructor/super, bound function, arrow, async function, generator
//!      resumption, accessor, coercion hook, proxy trap, callback run by a native, call/apply/Reflect,
//!      iterator protocol, tagged template, promise reaction, class initialisation); the body entered
//!      through it is an infinite loop, an endless loop that re-enters the path once per iteration,
//!      unbounded self-recursion through the path, mutual recursion across two paths, or a finite
//!      recursion of tape-chosen depth (returning, or throwing at the bottom). The first call is made
//!      from a tape-chosen statement context (function nest, try/catch/finally, loops, blocks, switch,
//!      constructor, async function, ...), as a script or as a module, optionally with a random
//!      `progen` program as filler before the start, in the callee prologue or inside the loop.
//!  (2) SIZE probes: every built-in taking a length/count/index/digits argument x sizes around
//!      2^31, 2^32, 2^53, 1e10, 1e21, +-Infinity, NaN, negatives, fractions, random powers of two.
//!  (3) DEEP data: graphs of depth/width up to 10^5 built iteratively (nested arrays/objects, JSON
//!      text, cycles, prototype / closure / bound-function / proxy / promise / generator-delegation /
//!      class-extends chains, Map/Set links, wide arrays) x natives and host API calls that walk them.
//!
//! Oracle (deterministic counters only): a scripted host prepares the program and calls step() under
//! a step budget and a call_depth() budget (10^4). (i) the H3 instruction delta of every step() is
//! <= 10^4 (armed: a loop inside one step is a deterministic panic, caught and classified);
//! (ii) the H3 native re-entry depth stays <= 32 whatever the script depth (armed at 33) and
//! recursion reaches the host's depth budget; call_depth() grows with script depth and returns to its
//! base; (iii) no abort: every case runs on a thread with a fixed 8 MiB stack in a worker with
//! RLIMIT_AS = 4 GiB; a dead worker is attributed by the supervisor through the journal; size and
//! depth probes end in a value, a catchable script error or Err(JsError).

use super::c06paths::{CtxDef, PathDef, CONTEXTS, DEEPS, LOOPS, PATHS, REC_SHAPES, SIZES, SIZE_PROBES, SMALL_SIZES};
use crate::core::{guarded, Ctx, Exec, Plan, Property, Tier};
use crate::engine::{error_class, new_interp, reset_hooks};
use crate::findings::Gates;
use crate::tape::Tape;
use serde_json::{json, Map, Value};
use std::cell::RefCell;
use std::rc::Rc;
use tsrun::StepResult;

pub struct C06Prop;
pub static C06: C06Prop = C06Prop;

pub const STACK_BYTES: usize = 8 << 20;
pub const AS_LIMIT_BYTES: u64 = 4 << 30;
/// host budgets
pub const STEP_BUDGET_LOOP: u64 = 200_000;
pub const STEP_BUDGET_RECURSION: u64 = 2_000_000;
pub const DEPTH_BUDGET: usize = 10_000;
/// bounds of the oracle
pub const STEP_INSTR_BOUND: u64 = 10_000;
pub const REENTRY_BOUND: u32 = 32;
/// survive-kind runs (recursion through a path family whose boundedness finding is open): no armed
/// bound, only a runaway cut so that a hang inside one step becomes a verdict instead of a watchdog
const SURVIVE_RUNAWAY_CUT: u64 = 50_000_000;
/// finite recursion depth allowed through a gated (re-entrant) family: 8 levels x at most 3 nested
/// native entries per level stay below REENTRY_BOUND
const GATED_FINITE_MAX: u64 = 8;

pub fn gate_of(family: &str) -> String {
    format!("C06:reentry:{}", family)
}

// ---------------------------------------------------------------------------------------------
// the scripted host
// ---------------------------------------------------------------------------------------------
#[derive(Clone, Debug, Default)]
pub struct Measure {
    pub end: String,
    pub err_text: String,
    pub log: Vec<String>,
    pub steps: u64,
    pub max_step_instr: u64,
    pub total_instr: u64,
    pub instr_after_enter: u64,
    pub max_call_depth: usize,
    pub final_call_depth: usize,
    /// largest call_depth() seen after the marker line "R ..." was logged (finite recursion returned)
    pub max_call_depth_after_return: usize,
    pub max_reentry: u32,
    pub panic: Option<String>,
    pub collected: bool,
}

impl Measure {
    pub fn to_json(&self) -> Value {
        let log: Vec<String> = self.log.iter().take(8).map(|l| l.chars().take(160).collect()).collect();
        json!({"end": self.end.chars().take(200).collect::<String>(), "err_text": self.err_text.chars().take(240).collect::<String>(), "log_head": log, "log_len": self.log.len(), "steps": self.steps,
               "max_step_instr": self.max_step_instr, "total_instr": self.total_instr, "instr_after_enter": self.instr_after_enter,
               "max_call_depth": self.max_call_depth, "final_call_depth": self.final_call_depth, "max_call_depth_after_return": self.max_call_depth_after_return,
               "max_reentry": self.max_reentry, "panic": self.panic})
    }
}

#[derive(Clone, Copy, Debug)]
pub struct HostOpts {
    pub step_budget: u64,
    pub depth_budget: usize,
    /// armed H3 per-step instruction limit (0 = unarmed)
    pub step_instr_limit: u64,
    /// armed H3 re-entry depth limit (0 = unarmed)
    pub reentry_limit: u32,
    pub module: bool,
    /// run a collection while the completion value (if any) is still held, then drop everything
    pub collect_at_end: bool,
    pub gc_threshold: Option<usize>,
}

/// prepare + step() loop of a host that counts steps and checks call_depth() after every step.
pub fn host_run(src: &str, o: HostOpts) -> Measure {
    use tsrun::verif_hooks as h;
    let log = Rc::new(RefCell::new(Vec::new()));
    let mut m = Measure::default();
    reset_hooks();
    {
        let mref = RefCell::new(&mut m);
        let r = guarded(|| {
            let mut interp = new_interp(&log);
            if let Some(t) = o.gc_threshold {
                interp.set_gc_threshold(t);
            }
            h::vm_instr_reset();
            h::vm_instr_set_limit(o.step_instr_limit);
            h::reentry_set_limit(o.reentry_limit);
            let path = if o.module { Some(tsrun::ModulePath::new("/main.ts".to_string())) } else { None };
            let mut res = match interp.prepare(src, path) {
                Ok(r) => r,
                Err(e) => {
                    let mut m = mref.borrow_mut();
                    m.end = format!("error:{}", error_class(&e));
                    m.err_text = e.to_string();
                    return;
                }
            };
            let mut entered = false;
            let mut returned = false;
            let mut scanned = 0usize;
            loop {
                let mut m = mref.borrow_mut();
                let d = h::vm_instr_get();
                m.total_instr += d;
                if entered {
                    m.instr_after_enter += d;
                }
                if d > m.max_step_instr {
                    m.max_step_instr = d;
                }
                {
                    let lg = log.borrow();
                    while scanned < lg.len() {
                        if let Some(l) = lg.get(scanned) {
                            if l == "E" {
                                entered = true;
                            } else if l.starts_with("R ") {
                                returned = true;
                            }
                        }
                        scanned += 1;
                    }
                }
                let cd = interp.call_depth();
                m.final_call_depth = cd;
                if cd > m.max_call_depth {
                    m.max_call_depth = cd;
                }
                if returned && cd > m.max_call_depth_after_return {
                    m.max_call_depth_after_return = cd;
                }
                let mut stop = true;
                match &res {
                    StepResult::Continue => stop = false,
                    StepResult::Complete(v) => {
                        // the host looks at the completion value through the public API
                        h::vm_instr_set_limit(0);
                        m.end = format!("complete:{}", crate::engine::render_value(v).chars().take(120).collect::<String>());
                    }
                    StepResult::Done => m.end = "done".into(),
                    StepResult::NeedImports(_) => m.end = "needimports".into(),
                    StepResult::Suspended { .. } => m.end = "suspended".into(),
                }
                if !stop {
                    if cd > o.depth_budget {
                        m.end = "host-depth-stop".into();
                        stop = true;
                    } else {
                        m.steps += 1;
                        if m.steps > o.step_budget {
                            m.end = "host-step-stop".into();
                            stop = true;
                        }
                    }
                }
                if stop {
                    if o.collect_at_end {
                        h::vm_instr_set_limit(0);
                        interp.collect();
                        m.collected = true;
                    }
                    drop(m);
                    drop(res);
                    drop(interp);
                    return;
                }
                drop(m);
                h::vm_instr_reset();
                res = match interp.step() {
                    Ok(r) => r,
                    Err(e) => {
                        let mut m = mref.borrow_mut();
                        let d = h::vm_instr_get();
                        m.total_instr += d;
                        if d > m.max_step_instr {
                            m.max_step_instr = d;
                        }
                        m.final_call_depth = interp.call_depth();
                        m.end = format!("error:{}", error_class(&e));
                        m.err_text = e.to_string();
                        return;
                    }
                };
            }
        });
        let d = h::vm_instr_get();
        h::vm_instr_set_limit(0);
        h::reentry_set_limit(0);
        if let Err(p) = r {
            let mut m = mref.borrow_mut();
            if d > m.max_step_instr {
                m.max_step_instr = d;
            }
            m.end = "panic".into();
            m.panic = Some(p);
        }
    }
    m.log = log.borrow().clone();
    m.max_reentry = h::reentry_max();
    m
}

// ---------------------------------------------------------------------------------------------
// fixed-stack case thread + address-space limit
// ---------------------------------------------------------------------------------------------
type Job = Box<dyn FnOnce() + Send + 'static>;
static RUNNER: std::sync::Mutex<Option<std::sync::mpsc::Sender<Job>>> = std::sync::Mutex::new(None);
static LIMIT_ONCE: std::sync::Once = std::sync::Once::new();

fn set_address_space_limit() {
    LIMIT_ONCE.call_once(|| {
        if std::env::var("VERIF_C06_NO_RLIMIT").is_ok() {
            return;
        }
        let lim = libc::rlimit { rlim_cur: AS_LIMIT_BYTES as libc::rlim_t, rlim_max: AS_LIMIT_BYTES as libc::rlim_t };
        // an impossible allocation then kills this worker only (observable by the supervisor)
        unsafe {
            libc::setrlimit(libc::RLIMIT_AS, &lim);
        }
    });
}

fn spawn_runner() -> Result<std::sync::mpsc::Sender<Job>, String> {
    let (tx, rx) = std::sync::mpsc::channel::<Job>();
    std::thread::Builder::new()
        .stack_size(STACK_BYTES)
        .name("c06-case".into())
        .spawn(move || {
            while let Ok(job) = rx.recv() {
                job();
            }
        })
        .map_err(|e| format!("infra: cannot spawn case thread: {}", e))?;
    Ok(tx)
}

/// Runs `f` on the worker's long-lived case thread (fixed 8 MiB stack, every case starts at the same
/// stack depth). A stack overflow or allocation failure kills the process: that is what the
/// supervisor's journal is for.
fn on_fixed_stack<T: Send + 'static>(f: impl FnOnce() -> T + Send + 'static) -> Result<T, String> {
    let (rtx, rrx) = std::sync::mpsc::channel::<T>();
    let mut job: Option<Job> = Some(Box::new(move || {
        let _ = rtx.send(f());
    }));
    let mut guard = RUNNER.lock().unwrap_or_else(|e| e.into_inner());
    for _attempt in 0..2 {
        if guard.is_none() {
            *guard = Some(spawn_runner()?);
        }
        let tx = guard.as_ref().cloned();
        match (tx, job.take()) {
            (Some(tx), Some(j)) => match tx.send(j) {
                Ok(()) => break,
                Err(back) => {
                    job = Some(back.0);
                    *guard = None;
                }
            },
            _ => break,
        }
    }
    match rrx.recv() {
        Ok(v) => Ok(v),
        Err(_) => {
            *guard = None;
            Err("panic: escaped the case thread".to_string())
        }
    }
}

// ---------------------------------------------------------------------------------------------
// program assembly
// ---------------------------------------------------------------------------------------------
const EXACT_DEPTH_PATHS: &[&str] = &[
    "call:declaration", "call:function-expression", "call:named-function-expression", "call:optional", "call:spread-arguments", "call:comma-callee",
    "call:rest-and-default-params", "arrow:block-body", "method:object-literal", "method:function-property", "method:computed-member", "method:class",
    "method:class-static", "method:prototype-assigned", "method:inherited", "construct:function", "construct:class", "construct:class-expression",
    "bound:plain", "bound:with-arguments", "bound:twice", "bound:method", "async:function", "tagged-template:function",
    "primitive-method:string-dot", "primitive-method:string-bracket", "primitive-method:string-optional", "primitive-method:string-variable",
    "primitive-method:number-dot", "primitive-method:number-bracket", "primitive-method:number-optional", "primitive-method:number-variable",
    "primitive-method:boolean-dot", "primitive-method:boolean-bracket", "primitive-method:boolean-optional",
    "primitive-method:object-prototype-string-receiver", "primitive-method:object-prototype-number-receiver",
];

const PRELUDE: &str = "let K = 0, D = 0;\nfunction hp() { K++; return K; }\n";

fn inst(text: &str, suffix: &str, body: &str) -> String {
    text.replace("@BODY", body).replace("@F", suffix)
}

#[derive(Clone, Debug)]
pub enum Body {
    /// infinite loop inside the callee
    Loop { form: usize },
    /// infinite loop at the start site that re-enters the path once per iteration (finite callee)
    Repeat { form: usize },
    /// unbounded self recursion through the path
    SelfRec { shape: usize },
    /// unbounded mutual recursion across two paths
    Mutual { shape: usize, shape2: usize },
    /// finite recursion of depth n that returns (throws at the bottom when `throws`)
    Finite { n: u64, shape: usize, throws: bool },
}

impl Body {
    fn name(&self) -> &'static str {
        match self {
            Body::Loop { .. } => "loop",
            Body::Repeat { .. } => "repeat",
            Body::SelfRec { .. } => "self-recursion",
            Body::Mutual { .. } => "mutual-recursion",
            Body::Finite { throws: false, .. } => "finite-recursion",
            Body::Finite { throws: true, .. } => "finite-recursion-throwing",
        }
    }
}

#[derive(Clone, Debug, Default)]
pub struct Filler {
    /// 0 none, 1 before the start, 2 callee prologue, 3 inside the loop body
    pub place: usize,
    pub text: String,
    pub tags: Vec<String>,
}

pub struct PathCaseSpec<'a> {
    pub a: &'a PathDef,
    pub b: Option<&'a PathDef>,
    pub ctx: &'a CtxDef,
    pub body: Body,
    pub module: bool,
    pub filler: Filler,
}

fn path_named(name: &str) -> &'static PathDef {
    PATHS.iter().find(|p| p.name == name).unwrap_or(&PATHS[0])
}

fn shape_of(i: usize) -> (&'static str, &'static str) {
    REC_SHAPES.get(i % REC_SHAPES.len()).copied().unwrap_or(("direct", "@C"))
}
fn loop_of(i: usize) -> (&'static str, &'static str) {
    LOOPS.get(i % LOOPS.len()).copied().unwrap_or(("for-ever", "for (;;) { K++; }"))
}

/// Tags of a progen filler that route control through a family (the filler is dropped when that
/// family's finding is open: a finite callback is fine for the property, but the generator cannot
/// bound its instruction count statically).
const FILLER_FAMILY_TAGS: &[(&str, &str)] = &[
    ("gen:", "generator"),
    ("decl:generator", "generator"),
    ("stmt:for-of", "iterator-protocol"),
    ("spread:", "iterator-protocol"),
    ("destructure:array", "iterator-protocol"),
    ("call:spread-arguments", "iterator-protocol"),
    ("expr:callback", "native-callback"),
    ("lib:", "native-callback"),
    ("obj:getter", "accessor"),
    ("class:getter", "accessor"),
    ("call:.call", "function-reflect"),
    ("call:.apply", "function-reflect"),
    ("class:field", "class-init"),
    ("class:static-field", "class-init"),
    ("class:private-field", "class-init"),
    ("binop:+×(str,object)", "coercion"),
    ("template:", "coercion"),
    ("expr:template", "coercion"),
];

fn filler_blocked_by(tags: &[String], gates: &Gates) -> Option<String> {
    for t in tags {
        for (prefix, fam) in FILLER_FAMILY_TAGS {
            if t.starts_with(prefix) && gates.excluded(&gate_of(fam)) {
                return Some(gate_of(fam));
            }
        }
    }
    None
}

/// Build the case for a PATH x BODY program. Open findings (gates `C06:reentry:<family>`) exclude,
/// by construction, exactly (family x unbounded body under the boundedness oracle): such a request is
/// turned into the `survive` kind (recursion: only the no-abort half of the property is judged) or
/// into a bounded body (loop -> repeat), and counted.
pub fn build_path_case(spec: PathCaseSpec, gates: &Gates) -> Value {
    let mut excluded: Map<String, Value> = Map::new();
    let mut count = |g: &str| {
        let n = excluded.get(g).and_then(|v| v.as_u64()).unwrap_or(0);
        excluded.insert(g.to_string(), json!(n + 1));
    };
    let mut body = spec.body.clone();
    let mut families: Vec<&str> = vec![spec.a.family];
    if let (Body::Mutual { .. }, Some(b)) = (&body, spec.b) {
        families.push(b.family);
    }
    if !spec.ctx.family.is_empty() {
        families.push(spec.ctx.family);
    }
    let gated: Vec<String> = families.iter().map(|f| gate_of(f)).filter(|g| gates.excluded(g)).collect();
    let defers = spec.a.defers || spec.ctx.defers || matches!((&body, spec.b), (Body::Mutual { .. }, Some(b)) if b.defers);
    let mut kind = "control";
    let ctx_gated = !spec.ctx.family.is_empty() && gates.excluded(&gate_of(spec.ctx.family));
    if ctx_gated && !matches!(body, Body::Finite { .. }) {
        // everything started from a gated context runs inside one step(): only bounded bodies
        for g in &gated {
            count(g);
        }
        let shape = match body {
            Body::SelfRec { shape } | Body::Mutual { shape, .. } => shape,
            Body::Loop { form } | Body::Repeat { form } => form,
            Body::Finite { shape, .. } => shape,
        };
        body = Body::Finite { n: GATED_FINITE_MAX, shape, throws: false };
    }
    if !gated.is_empty() {
        match body {
            Body::Loop { form } => {
                for g in &gated {
                    count(g);
                }
                body = Body::Repeat { form };
            }
            Body::SelfRec { shape } | Body::Mutual { shape, .. } => {
                for g in &gated {
                    count(g);
                }
                let recursion_paths_gated = gates.excluded(&gate_of(spec.a.family)) && spec.b.map(|b| gates.excluded(&gate_of(b.family))).unwrap_or(true);
                if defers || !recursion_paths_gated {
                    // recursion that does not grow the native stack at every level (a deferring path, or a
                    // trampolined path running inside a gated context or beside a gated partner) is ended by
                    // nothing once it runs inside one step(): only a bounded version is generated
                    body = Body::Finite { n: GATED_FINITE_MAX, shape, throws: false };
                } else {
                    kind = "survive";
                }
            }
            Body::Finite { n, shape, throws } if n > GATED_FINITE_MAX => {
                for g in &gated {
                    count(g);
                }
                body = Body::Finite { n: 1 + n % GATED_FINITE_MAX, shape, throws };
            }
            _ => {}
        }
    }
    // paths that make more than one script call per level: keep 3n below the host's depth budget
    if let Body::Finite { n, shape, throws } = body.clone() {
        if !EXACT_DEPTH_PATHS.contains(&spec.a.name) && n > 3000 {
            body = Body::Finite { n: 1 + n % 3000, shape, throws };
        }
    }
    let mut filler = spec.filler.clone();
    if !gated.is_empty() && filler.place >= 2 {
        // a filler inside the callee would run inside the nested VM of a gated family: its
        // instruction count per step cannot be bounded statically
        filler.place = 1;
    }
    if filler.place != 0 {
        if let Some(g) = filler_blocked_by(&filler.tags, gates) {
            count(&format!("filler:{}", g));
            filler = Filler::default();
        }
    }
    if matches!(body, Body::Repeat { .. } | Body::Finite { .. }) && filler.place == 3 {
        filler.place = 2;
    }
    if kind == "survive" {
        filler = Filler::default();
    }
    let fill_stmt = if filler.place != 0 { format!("try {{ {}; }} catch (fe) {{ K++; }}\n", filler.text) } else { String::new() };
    let prologue = if filler.place == 2 { fill_stmt.as_str() } else { "" };

    let call_a = inst(spec.a.call, "A", "");
    let (start, defs, expect, depth_bound, step_budget): (String, String, &str, usize, u64);
    // context + path (<= 3 nested calls) + a progen filler's own calls
    let base_depth = spec.ctx.depth + 12;
    match &body {
        Body::Loop { form } => {
            let (_, lp) = loop_of(*form);
            let lp = if filler.place == 3 { format!("for (;;) {{ {} K++; }}", fill_stmt.trim_end()) } else { lp.to_string() };
            let b = format!("{}console.log(\"E\"); {}", prologue, lp);
            defs = inst(spec.a.def, "A", &b);
            start = call_a.clone();
            expect = "host-step-stop";
            depth_bound = base_depth;
            step_budget = STEP_BUDGET_LOOP;
        }
        Body::Repeat { form } => {
            let b = format!("{}K++;", prologue);
            defs = inst(spec.a.def, "A", &b);
            start = match form % 4 {
                0 => format!("console.log(\"E\"); for (;;) {{ {} }}", call_a),
                1 => format!("console.log(\"E\"); while (true) {{ {} K++; }}", call_a),
                2 => format!("console.log(\"E\"); do {{ try {{ {} }} finally {{ K++; }} }} while (true);", call_a),
                _ => format!("console.log(\"E\"); for (let i1 = 0; ; i1++) {{ {} hp(); }}", call_a),
            };
            expect = "host-step-stop";
            depth_bound = base_depth;
            step_budget = STEP_BUDGET_LOOP;
        }
        Body::SelfRec { shape } => {
            let (_, sh) = shape_of(*shape);
            let mark = if kind == "survive" { 10 } else { 100 };
            let b = format!("{}D++; if (D === {}) console.log(\"E\"); {}", prologue, mark, sh.replace("@C", &call_a));
            defs = inst(spec.a.def, "A", &b);
            start = call_a.clone();
            // a filler program in the prologue of every level can use up the step budget first
            expect = if defers || filler.place == 2 { "any-stop" } else { "host-depth-stop" };
            depth_bound = usize::MAX;
            step_budget = STEP_BUDGET_RECURSION;
        }
        Body::Mutual { shape, shape2 } => {
            let pb = spec.b.unwrap_or(spec.a);
            let call_b = inst(pb.call, "B", "");
            let (_, sh) = shape_of(*shape);
            let (_, sh2) = shape_of(*shape2);
            let mark = if kind == "survive" { 10 } else { 100 };
            let ba = format!("{}D++; if (D === {}) console.log(\"E\"); {}", prologue, mark, sh.replace("@C", &call_b));
            let bb = format!("D++; if (D === {}) console.log(\"E\"); {}", mark, sh2.replace("@C", &call_a));
            defs = format!("{}\n{}", inst(spec.a.def, "A", &ba), inst(pb.def, "B", &bb));
            start = call_a.clone();
            expect = if defers || filler.place == 2 { "any-stop" } else { "host-depth-stop" };
            depth_bound = usize::MAX;
            step_budget = STEP_BUDGET_RECURSION;
        }
        Body::Finite { n, shape, throws } => {
            let (_, sh) = shape_of(*shape);
            let mark = (*n).min(100);
            let bottom = if *throws { " else { throw new Error(\"bottom\"); }" } else { "" };
            let b = format!("{}D++; if (D === {}) console.log(\"E\"); if (D < {}) {{ {} }}{}", prologue, mark, n, sh.replace("@C", &call_a), bottom);
            defs = inst(spec.a.def, "A", &b);
            start = if *throws {
                format!("try {{ {} }} catch (e9) {{ console.log(\"R \" + D + \" \" + (e9 && e9.message)); }}\nfor (let i9 = 0; i9 < 50; i9++) {{ hp(); }}", call_a)
            } else {
                format!("{}\nconsole.log(\"R \" + D);\nfor (let i9 = 0; i9 < 50; i9++) {{ hp(); }}", call_a)
            };
            // inside a gated (re-entrant) family the recursion runs within one step(): the host cannot
            // observe its depth, only that it ended and that call_depth() is back at 0
            expect = if defers || !gated.is_empty() { "finite-deferred" } else { "finite" };
            depth_bound = usize::MAX;
            step_budget = STEP_BUDGET_RECURSION;
        }
    }
    let mut src = String::new();
    src.push_str(PRELUDE);
    if filler.place != 0 {
        src.push_str(crate::progen::SHOW_PRELUDE);
    }
    if filler.place == 1 {
        src.push_str(&fill_stmt);
    }
    src.push_str(&defs);
    src.push('\n');
    src.push_str(&spec.ctx.text.replace("@S", &start));
    src.push('\n');
    let finite_n = if let Body::Finite { n, .. } = &body { *n } else { 0 };
    // paths that make exactly one script call per recursion level: call_depth() at the bottom is exact
    let exact_depth = EXACT_DEPTH_PATHS.contains(&spec.a.name) && filler.place == 0 && gated.is_empty();
    let mut paths = vec![spec.a.name.to_string()];
    if let (Body::Mutual { .. }, Some(b)) = (&body, spec.b) {
        paths.push(b.name.to_string());
    }
    let shape_names: Vec<&str> = match &body {
        Body::SelfRec { shape } | Body::Finite { shape, .. } => vec![shape_of(*shape).0],
        Body::Mutual { shape, shape2 } => vec![shape_of(*shape).0, shape_of(*shape2).0],
        Body::Loop { form } => vec![loop_of(*form).0],
        Body::Repeat { .. } => vec![],
    };
    let mut fams: Vec<String> = families.iter().map(|s| s.to_string()).collect();
    fams.sort();
    fams.dedup();
    let depth_bound_v = if depth_bound == usize::MAX { Value::Null } else { json!(depth_bound) };
    let filler_name = match filler.place {
        1 => "before-start",
        2 => "callee-prologue",
        3 => "loop-body",
        _ => "none",
    };
    let ntags = filler.tags.len();
    let excluded_v = Value::Object(excluded);
    json!({
        "kind": kind, "src": src, "body": body.name(), "paths": paths, "families": fams, "ctx": spec.ctx.name, "variant": shape_names,
        "module": spec.module, "expect": expect, "catches": spec.ctx.catches, "finite_n": finite_n, "depth_bound": depth_bound_v,
        "step_budget": step_budget, "filler": filler_name, "filler_tags": ntags, "excluded": excluded_v,
        "ctx_depth": spec.ctx.depth, "exact_depth": exact_depth,
    })
}

fn size_program(probes: &[(String, String)]) -> String {
    let mut s = String::from(PRELUDE);
    s.push_str("console.log(\"E\");\n");
    for (i, (_name, expr)) in probes.iter().enumerate() {
        s.push_str(&format!(
            "try {{ const r{i} = {e}; let d{i} = typeof r{i}; if (r{i} !== null && r{i} !== undefined && typeof r{i}.length === \"number\") {{ d{i} += \" length \" + r{i}.length; }} console.log(\"ok \" + d{i}); }} catch (e{i}) {{ console.log(\"caught \" + (e{i} && e{i}.name) + \": \" + (e{i} && e{i}.message)); }}\n",
            i = i,
            e = expr
        ));
    }
    s.push_str("console.log(\"Z\");\nK\n");
    s
}

fn build_size_case(probes: Vec<(String, String, String)>) -> Value {
    let prog: Vec<(String, String)> = probes.iter().map(|(n, e, _)| (n.clone(), e.clone())).collect();
    let names: Vec<&String> = probes.iter().map(|(n, _, _)| n).collect();
    let sizes: Vec<&String> = probes.iter().map(|(_, _, s)| s).collect();
    json!({"kind": "size", "src": size_program(&prog), "probes": names, "sizes": sizes, "nprobes": probes.len(), "step_budget": STEP_BUDGET_LOOP})
}

/// ops whose work runs script code from a native once per element / level (they fall under that
/// family's open boundedness finding whatever the data looks like)
/// ops whose native recursion depth follows the data through a re-entrant family: they are run, but
/// the re-entry depth oracle (ii) is that family's open finding
fn deep_op_reentrant_family(deep: &str, op: &str) -> Option<&'static str> {
    match (deep, op) {
        ("proxy-function-chain", _) => Some("proxy-trap"),
        ("bound-chain", "call.call") => Some("function-reflect"),
        _ => None,
    }
}

fn deep_op_family(deep: &str, op: &str) -> Option<&'static str> {
    match (deep, op) {
        ("wide-array", "sort") | ("wide-array", "concat-spread") | ("bound-chain", "as-callback") => Some("native-callback"),
        ("generator-delegation-chain", _) => Some("generator"),
        ("promise-chain", _) | ("promise-nesting", _) => Some("promise-reaction"),
        ("wide-array", "destructure-rest") | ("wide-array", "new-Set") | ("wide-array", "spread-array") | ("linked-set", "spread") => None,
        _ => None,
    }
}

fn build_deep_case(di: usize, oi: usize, depth: u64, second: Option<usize>, gates: &Gates) -> Value {
    let d = DEEPS.get(di % DEEPS.len()).copied().unwrap_or(DEEPS[0]);
    let (opname, opexpr) = d.ops.get(oi % d.ops.len()).copied().unwrap_or(("noop", "1"));
    let mut excluded: Map<String, Value> = Map::new();
    if let Some(f) = deep_op_family(d.name, opname) {
        if gates.excluded(&gate_of(f)) {
            excluded.insert(gate_of(f), json!(1));
            return json!({"kind": "excluded", "what": format!("deep:{}:{}", d.name, opname), "excluded": Value::Object(excluded)});
        }
    }
    let mut reentry_oracle = true;
    if let Some(f) = deep_op_reentrant_family(d.name, opname) {
        if gates.excluded(&gate_of(f)) {
            excluded.insert(format!("{}:reentry-depth-oracle", gate_of(f)), json!(1));
            reentry_oracle = false;
        }
    }
    let ds = depth.to_string();
    let mut s = String::from(PRELUDE);
    s.push_str(&d.build.replace("@DEPTH", &ds));
    s.push_str("\nconsole.log(\"E\");\n");
    let mut ops: Vec<String> = vec![opname.to_string()];
    let mut completion = opname == "completion-value";
    let one = |i: usize, expr: &str| -> String {
        format!("try {{ const r{i} = {e}; console.log(\"ok \" + typeof r{i}); }} catch (e{i}) {{ console.log(\"caught \" + (e{i} && e{i}.name) + \": \" + String(e{i} && e{i}.message).slice(0, 80)); }}\n", i = i, e = expr.replace("@DEPTH", &ds))
    };
    if opname == "throw-uncaught" || opname == "uncaught-from-depth" {
        s.push_str(&format!("{};\n", opexpr.replace("@DEPTH", &ds)));
    } else if !completion {
        s.push_str(&one(0, opexpr));
    }
    if let Some(si) = second {
        let (n2, e2) = d.ops.get(si % d.ops.len()).copied().unwrap_or(("noop", "1"));
        let fam_ok = deep_op_family(d.name, n2).map(|f| !gates.excluded(&gate_of(f))).unwrap_or(true)
            && deep_op_reentrant_family(d.name, n2).map(|f| !gates.excluded(&gate_of(f))).unwrap_or(true);
        if fam_ok && n2 != "throw-uncaught" && n2 != "uncaught-from-depth" && n2 != "collect-after-drop" && opname != "collect-after-drop" {
            if n2 == "completion-value" {
                completion = true;
            } else {
                s.push_str(&one(1, e2));
            }
            ops.push(n2.to_string());
        }
    }
    s.push_str("console.log(\"Z\");\n");
    s.push_str(if completion { "g\n" } else { "K\n" });
    json!({"kind": "deep", "src": s, "deep": d.name, "ops": ops, "depth": depth, "step_budget": 400_000 + 60 * depth, "reentry_oracle": reentry_oracle, "excluded": Value::Object(excluded)})
}

// ---------------------------------------------------------------------------------------------
// generators
// ---------------------------------------------------------------------------------------------
fn random_size(tape: &mut Tape) -> String {
    match tape.below(8) {
        0 | 1 | 2 => (*tape.pick(SIZES)).to_string(),
        3 => {
            let k = tape.range(31, 53) as u32;
            let off = tape.range(-2, 2);
            format!("{}", (1i128 << k) + off as i128)
        }
        4 => {
            // uniform between 2^31-1 and 2^53
            let lo = (1u64 << 31) - 1;
            let hi = 1u64 << 53;
            let v = lo + tape.u64() % (hi - lo);
            format!("{}", v)
        }
        5 => {
            let k = tape.range(31, 62) as u32;
            format!("-{}", 1u64 << k)
        }
        6 => {
            let e = tape.range(9, 300);
            format!("{}e{}", tape.range(1, 9), e)
        }
        _ => {
            let v = (1u64 << tape.range(31, 52)) + tape.range(0, 1000) as u64;
            format!("{}.{}", v, tape.range(1, 9))
        }
    }
}

fn gen_filler(tape: &mut Tape, tier: Tier) -> Filler {
    let place = tape.weighted(&[10, 4, 3, 3]);
    if place == 0 {
        return Filler::default();
    }
    let mut cfg = crate::progen::Config::full(tier.pick(4, 8));
    cfg.self_contained = true;
    let p = crate::progen::gen_script(tape, &Gates::none(), cfg);
    let text = crate::progen::render_plain(&p.marked);
    // an uncaught error inside the filler is caught by the wrapper; nothing else leaves the IIFE
    Filler { place, text, tags: p.tags }
}

fn log_uniform(tape: &mut Tape, lo: u64, hi: u64) -> u64 {
    // exponent then mantissa: small depths first on a small tape value
    let lo_b = 64 - lo.max(1).leading_zeros() as i64;
    let hi_b = 64 - hi.max(1).leading_zeros() as i64;
    let b = tape.range(lo_b, hi_b);
    let base = 1u64 << (b - 1).max(0);
    let v = base + tape.u64() % base.max(1);
    v.clamp(lo, hi)
}

impl C06Prop {
    fn gen_path_case(&self, tape: &mut Tape, ctx: &Ctx) -> Value {
        let a = tape.pick(PATHS);
        let kind = tape.weighted(&[5, 3, 5, 3, 4, 2]);
        let cx = if tape.chance(3, 5) { &CONTEXTS[0] } else { tape.pick(CONTEXTS) };
        let module = tape.chance(1, 6);
        let form = tape.below(LOOPS.len());
        let shape = tape.below(REC_SHAPES.len());
        let body = match kind {
            0 => Body::Loop { form },
            1 => Body::Repeat { form },
            2 => Body::SelfRec { shape },
            3 => Body::Mutual { shape, shape2: tape.below(REC_SHAPES.len()) },
            4 => Body::Finite { n: log_uniform(tape, 1, 9000), shape, throws: false },
            _ => Body::Finite { n: log_uniform(tape, 1, 9000), shape, throws: true },
        };
        let b = if matches!(body, Body::Mutual { .. }) { Some(tape.pick(PATHS)) } else { None };
        let filler = gen_filler(tape, ctx.tier);
        build_path_case(PathCaseSpec { a, b, ctx: cx, body, module, filler }, &ctx.gates)
    }

    fn gen_size_case(&self, tape: &mut Tape) -> Value {
        let n = 1 + tape.weighted(&[6, 2, 1]);
        let mut probes = vec![];
        for _ in 0..n {
            let (name, expr) = *tape.pick(SIZE_PROBES);
            let size = if tape.chance(1, 5) { (*tape.pick(SMALL_SIZES)).to_string() } else { random_size(tape) };
            probes.push((name.to_string(), expr.replace("@N", &size), size));
        }
        build_size_case(probes)
    }

    fn gen_deep_case(&self, tape: &mut Tape, ctx: &Ctx) -> Value {
        let di = tape.below(DEEPS.len());
        let oi = tape.below(64);
        let depth = log_uniform(tape, 4, ctx.tier.pick(30_000, 300_000));
        let second = if tape.chance(1, 3) { Some(tape.below(64)) } else { None };
        build_deep_case(di, oi, depth, second, &ctx.gates)
    }
}

// ---------------------------------------------------------------------------------------------
// oracle
// ---------------------------------------------------------------------------------------------
fn run_case_on_thread(src: String, o: HostOpts) -> Result<Measure, String> {
    on_fixed_stack(move || host_run(&src, o))
}

fn family_label(case: &Value) -> String {
    let f: Vec<&str> = case["families"].as_array().map(|a| a.iter().filter_map(|x| x.as_str()).collect()).unwrap_or_default();
    f.join("+")
}

fn judge_bounds(m: &Measure, label: &str) -> Option<(String, String)> {
    if let Some(p) = &m.panic {
        if p.contains("verif: vm work limit") {
            return Some((
                format!("c06:step-overrun family={}", label),
                format!("one Interpreter::step() executed more than {} VM instructions (the host's budget check is never reached): script code entered through [{}] runs inside a single step", STEP_INSTR_BOUND, label),
            ));
        }
        if p.contains("verif: native re-entry depth limit") {
            return Some((
                format!("c06:native-reentry-depth family={}", label),
                format!("native re-entry depth exceeded {}: recursion through [{}] grows the native stack with the script depth (reached {} nested entries at call_depth {})", REENTRY_BOUND, label, m.max_reentry, m.max_call_depth),
            ));
        }
        return Some((p.clone(), format!("the embedding process panicked: {}", p)));
    }
    if m.max_step_instr > STEP_INSTR_BOUND {
        return Some((format!("c06:step-overrun family={}", label), format!("a step executed {} VM instructions (bound {})", m.max_step_instr, STEP_INSTR_BOUND)));
    }
    if m.max_reentry > REENTRY_BOUND {
        return Some((format!("c06:native-reentry-depth family={}", label), format!("native re-entry depth reached {} (bound {})", m.max_reentry, REENTRY_BOUND)));
    }
    None
}

/// The program ended in a way the C06 oracle does not judge: the engine never routed control
/// through the path (an unsupported hook such as Symbol.toPrimitive or a JSON reviver: the marker was
/// never logged), swallowed or converted a thrown error (async functions, coercion hooks), or ended
/// with a script error that is not a depth limit. Those are questions of evaluation semantics (C01),
/// not of host control; they are counted, never reported.
fn unjudged(m: &Measure, entered: bool) -> Exec {
    let why = if !entered {
        "path-not-entered"
    } else if m.end.starts_with("error:") {
        "ended-with-script-error"
    } else {
        "ended-early"
    };
    Exec::discard(format!("unjudged:{}", why))
}

fn engine_depth_limit(m: &Measure) -> bool {
    let t = m.err_text.to_ascii_lowercase();
    m.end.starts_with("error:") && (t.contains("call stack") || t.contains("recursion") || t.contains("stack overflow") || t.contains("too deep"))
}

impl C06Prop {
    fn exec_path(&self, case: &Value) -> Exec {
        let src = case["src"].as_str().unwrap_or("").to_string();
        let kind = case["kind"].as_str().unwrap_or("control");
        let expect = case["expect"].as_str().unwrap_or("");
        let label = family_label(case);
        let survive = kind == "survive";
        let o = HostOpts {
            step_budget: case["step_budget"].as_u64().unwrap_or(STEP_BUDGET_LOOP),
            depth_budget: DEPTH_BUDGET,
            step_instr_limit: if survive { SURVIVE_RUNAWAY_CUT } else { STEP_INSTR_BOUND },
            reentry_limit: if survive { 0 } else { REENTRY_BOUND + 1 },
            module: case["module"].as_bool().unwrap_or(false),
            collect_at_end: false,
            gc_threshold: None,
        };
        let m = match run_case_on_thread(src, o) {
            Ok(m) => m,
            Err(e) => return Exec::fail(e.clone(), e),
        };
        let observed = m.to_json();
        let mut tags = vec![
            format!("kind:{}", kind),
            format!("body:{}", case["body"].as_str().unwrap_or("")),
            format!("ctx:{}", case["ctx"].as_str().unwrap_or("")),
            format!("filler:{}", case["filler"].as_str().unwrap_or("none")),
            format!("end:{}", m.end.split(':').take(2).collect::<Vec<_>>().join(":").chars().take(40).collect::<String>()),
        ];
        if let Some(ps) = case["paths"].as_array() {
            for p in ps {
                tags.push(format!("path:{}", p.as_str().unwrap_or("")));
            }
        }
        if let Some(fs) = case["families"].as_array() {
            for f in fs {
                tags.push(format!("family:{}:{}", f.as_str().unwrap_or(""), kind));
            }
        }
        if case["module"].as_bool().unwrap_or(false) {
            tags.push("as-module".into());
        }
        let mut counters: Vec<(String, u64)> = vec![];
        if let Some(ex) = case["excluded"].as_object() {
            for (k, v) in ex {
                counters.push((format!("excluded_by_gate:{}", k), v.as_u64().unwrap_or(0)));
            }
        }
        let entered = m.log.iter().any(|l| l == "E");
        let finish = |mut e: Exec| -> Exec {
            e.tags = tags.clone();
            e.counters = counters.clone();
            e.observed = observed.clone();
            e
        };
        let fail = |sig: String, msg: String| -> Exec { finish(Exec::fail(sig, msg)) };

        if survive {
            // only the no-abort half is judged: the worker is alive (we are here), no panic, and the
            // recursion ended in a catchable script error / Err result or was stopped by the host
            if let Some(p) = &m.panic {
                if p.contains("verif: vm work limit") {
                    // unbounded work inside one step is the open boundedness finding of this family
                    // (e.g. an iterator whose return() is re-run while unwinding makes the recursion
                    // exponential); the cut only turns it from a hang into a counted, unjudged case
                    return finish(Exec::discard("unjudged:survive-runaway-inside-one-step"));
                }
                return fail(p.clone(), format!("the embedding process panicked: {}", p));
            }
            let stopped = m.end == "host-depth-stop" || m.end == "host-step-stop";
            let range = m.end == "error:RangeError" || m.err_text.contains("Maximum call stack") || m.log.iter().any(|l| l.starts_with("caught RangeError"));
            let other_error = !range && m.end.starts_with("error:");
            // a completion without any error: the engine never entered the path, or swallowed the
            // RangeError inside a coercion hook / iterator close (evaluation semantics, not host control)
            let silent = !(stopped || range || other_error);
            return finish(
                Exec::pass(entered && (range || stopped))
                    .count("survive_range_error", range as u64)
                    .count("survive_host_stop", stopped as u64)
                    .count("survive_other_error", other_error as u64)
                    .count("survive_completed_silently", silent as u64),
            );
        }

        if let Some((sig, msg)) = judge_bounds(&m, &label) {
            return fail(sig, msg);
        }
        let nontrivial = entered && (m.instr_after_enter >= 1000 || m.max_call_depth >= 100);
        match expect {
            "host-step-stop" => {
                if m.end == "host-depth-stop" || case["depth_bound"].as_u64().map(|b| m.max_call_depth as u64 > b).unwrap_or(false) {
                    return fail(
                        format!("c06:depth-grows-without-recursion family={}", label),
                        format!("a loop that never nests more than {} script calls showed call_depth() = {} (end {}): the host's depth budget trips falsely", case["depth_bound"], m.max_call_depth, m.end),
                    );
                }
                if engine_depth_limit(&m) {
                    return fail(format!("c06:depth-limited-by-engine family={}", label), format!("an engine-internal depth limit ended a non-recursive loop: {}", m.err_text));
                }
                if m.end != "host-step-stop" {
                    return finish(unjudged(&m, entered));
                }
            }
            "host-depth-stop" | "any-stop" => {
                if engine_depth_limit(&m) {
                    return fail(
                        format!("c06:depth-limited-by-engine family={}", label),
                        format!("recursion through [{}] was ended by the engine at call_depth {} before the host's depth budget {}: {}", label, m.max_call_depth, DEPTH_BUDGET, m.err_text),
                    );
                }
                let ok = m.end == "host-depth-stop" || (expect == "any-stop" && m.end == "host-step-stop");
                if !ok {
                    if m.end == "host-step-stop" {
                        return fail(
                            format!("c06:depth-not-visible family={}", label),
                            format!("unbounded recursion through [{}] ran {} steps and call_depth() never exceeded {} (max {}): the host cannot see the depth", label, m.steps, DEPTH_BUDGET, m.max_call_depth),
                        );
                    }
                    return finish(unjudged(&m, entered));
                }
            }
            "finite" | "finite-deferred" => {
                let n = case["finite_n"].as_u64().unwrap_or(0);
                if engine_depth_limit(&m) {
                    return fail(format!("c06:depth-limited-by-engine family={}", label), format!("recursion of depth {} (below the host's budget) was ended by the engine: {}", n, m.err_text));
                }
                let calls_per_level = if case["exact_depth"].as_bool().unwrap_or(false) { 1 } else { 3 };
                if m.end == "host-depth-stop" && calls_per_level * n + 60 < DEPTH_BUDGET as u64 {
                    return fail(format!("c06:depth-overcounted family={}", label), format!("recursion of depth {} tripped the host's depth budget {} (call_depth() = {})", n, DEPTH_BUDGET, m.max_call_depth));
                }
                let returned = m.log.iter().any(|l| l.starts_with("R "));
                if !(m.end.starts_with("complete") || m.end == "done" || m.end == "suspended") || !returned {
                    return finish(unjudged(&m, entered));
                }
                if expect == "finite" {
                    let reached = m.log.iter().any(|l| l.starts_with(&format!("R {}", n)));
                    if reached && (m.max_call_depth as u64) < n {
                        return fail(
                            format!("c06:depth-not-visible family={}", label),
                            format!("script recursion reached depth {} but call_depth() never exceeded {}", n, m.max_call_depth),
                        );
                    }
                    if reached && case["exact_depth"].as_bool().unwrap_or(false) {
                        let want = n + case["ctx_depth"].as_u64().unwrap_or(0);
                        if (m.max_call_depth as u64) > want + 1 {
                            return fail(
                                format!("c06:depth-overcounted family={}", label),
                                format!("{} nested script calls were active at the bottom of the recursion but call_depth() reported {}", want, m.max_call_depth),
                            );
                        }
                    }
                    if m.max_call_depth_after_return > 6 || m.final_call_depth != 0 {
                        return fail(
                            format!("c06:depth-not-released family={}", label),
                            format!("after a recursion of depth {} returned, call_depth() was still {} (final {})", n, m.max_call_depth_after_return, m.final_call_depth),
                        );
                    }
                }
            }
            _ => {}
        }
        finish(Exec::pass(nontrivial))
    }

    fn exec_probe(&self, case: &Value) -> Exec {
        let src = case["src"].as_str().unwrap_or("").to_string();
        let kind = case["kind"].as_str().unwrap_or("size");
        let deep = kind == "deep";
        let o = HostOpts {
            step_budget: case["step_budget"].as_u64().unwrap_or(STEP_BUDGET_LOOP),
            depth_budget: DEPTH_BUDGET,
            step_instr_limit: STEP_INSTR_BOUND,
            reentry_limit: if case["reentry_oracle"].as_bool().unwrap_or(true) { REENTRY_BOUND + 1 } else { 0 },
            module: false,
            collect_at_end: deep,
            // building a 10^5-deep graph with the default collection threshold is quadratic (every
            // collection marks the whole graph); the host raises it, then forces one collection at the end
            gc_threshold: if deep { Some(200_000) } else { None },
        };
        let m = match run_case_on_thread(src, o) {
            Ok(m) => m,
            Err(e) => return Exec::fail(e.clone(), e),
        };
        let label = if deep {
            format!("deep:{}:{}", case["deep"].as_str().unwrap_or(""), case["ops"].as_array().and_then(|a| a.first()).and_then(|x| x.as_str()).unwrap_or(""))
        } else {
            format!("size:{}", case["probes"].as_array().and_then(|a| a.first()).and_then(|x| x.as_str()).unwrap_or(""))
        };
        let mut tags = vec![format!("kind:{}", kind), format!("end:{}", m.end.split(':').take(2).collect::<Vec<_>>().join(":").chars().take(40).collect::<String>())];
        if deep {
            tags.push(format!("deep:{}", case["deep"].as_str().unwrap_or("")));
            if let Some(ops) = case["ops"].as_array() {
                for op in ops {
                    tags.push(format!("deep-op:{}:{}", case["deep"].as_str().unwrap_or(""), op.as_str().unwrap_or("")));
                }
            }
            let d = case["depth"].as_u64().unwrap_or(0);
            tags.push(format!("deep-depth:{}", if d >= 100_000 { ">=1e5" } else if d >= 10_000 { ">=1e4" } else if d >= 1000 { ">=1e3" } else { "<1e3" }));
        } else if let Some(ps) = case["probes"].as_array() {
            for p in ps {
                tags.push(format!("size-probe:{}", p.as_str().unwrap_or("")));
            }
        }
        let mut counters: Vec<(String, u64)> = vec![];
        for l in &m.log {
            if l.starts_with("ok ") {
                counters.push(("probe_completed".into(), 1));
            } else if l.starts_with("caught ") {
                let name: String = l.trim_start_matches("caught ").split(':').next().unwrap_or("").chars().take(24).collect();
                counters.push((format!("probe_caught:{}", name), 1));
            }
        }
        if let Some(ex) = case["excluded"].as_object() {
            for (k, v) in ex {
                counters.push((format!("excluded_by_gate:{}", k), v.as_u64().unwrap_or(0)));
            }
        }
        let observed = m.to_json();
        let finish = |mut e: Exec| -> Exec {
            e.tags = tags.clone();
            e.counters = counters.clone();
            e.observed = observed.clone();
            e
        };
        let mut m = m;
        if !case["reentry_oracle"].as_bool().unwrap_or(true) {
            m.max_reentry = m.max_reentry.min(REENTRY_BOUND);
        }
        if let Some((sig, msg)) = judge_bounds(&m, &label) {
            let sig = if sig.starts_with("c06:") { format!("{} probe={}", sig.split(' ').next().unwrap_or(""), label) } else { sig };
            return finish(Exec::fail(sig, msg));
        }
        // alive, no panic, bounded steps: every end is a value, a catchable error, an Err result or a
        // host stop. A probe that was caught must have been caught as an Error object.
        if let Some(bad) = m.log.iter().find(|l| l.starts_with("caught undefined") || l.starts_with("caught null")) {
            return finish(Exec::fail(format!("c06:probe-threw-non-error probe={}", label), format!("a size/depth probe threw something that is not an Error object: {}", bad)));
        }
        let reached = m.log.iter().any(|l| l == "E");
        let big = if deep { case["depth"].as_u64().unwrap_or(0) >= 1000 } else { true };
        finish(Exec::pass(reached && big))
    }
}

impl Property for C06Prop {
    fn id(&self) -> &'static str {
        "C06"
    }
    fn rule(&self) -> String {
        format!(
            "Cases: (1) PATH x BODY programs over {} paths in 17 families x 6 bodies (infinite loop in the callee over {} loop forms; endless loop re-entering the path per iteration; unbounded self recursion; mutual recursion across two tape-chosen paths; finite recursion of depth 1..9000 returning or throwing at the bottom; {} recursion shapes) x {} start contexts x script/module x progen filler (before the start, in the callee prologue, in the loop body); the full grid path x body and context x body is enumerated on every run, the rest is tape-generated. (2) {} built-ins with a length/count/index/digits argument x {} boundary sizes (all pairs enumerated) + random powers of two, integers in [2^31, 2^53], negatives, fractions, decimal exponents. (3) {} deep-data families (depth/width 2000 and 10^5 enumerated, log-uniform depths generated) x the natives / host API calls that walk them. Oracle: scripted host with step budget {} (loops) / {} (recursion) and call_depth() budget {}; per-step H3 instruction delta <= {} (armed), H3 native re-entry depth <= {} (armed), expected end per body (step stop / depth stop / completion with call_depth() back at 0 and >= the script depth at the bottom), worker alive under an 8 MiB stack and RLIMIT_AS 4 GiB. Non-trivial: the marker logged inside the unbounded construct was seen and then >= 1000 VM instructions ran or call_depth() reached >= 100; size probes: the call was reached; deep probes: the graph (depth >= 1000) was built and the operation reached. Families with an open boundedness finding are excluded by construction under the boundedness oracle only (gate C06:reentry:<family>): their loop bodies become per-iteration re-entry, their unbounded recursions are judged for survival only (kind survive: must end in a RangeError / Err result or a host stop, never in process death). Distinct = distinct case text.",
            PATHS.len(), LOOPS.len(), REC_SHAPES.len(), CONTEXTS.len(), SIZE_PROBES.len(), SIZES.len(), DEEPS.len(), STEP_BUDGET_LOOP, STEP_BUDGET_RECURSION, DEPTH_BUDGET, STEP_INSTR_BOUND, REENTRY_BOUND
        )
    }
    fn assumptions(&self) -> Vec<String> {
        vec![
            "hook H3 counts every bytecode instruction dispatched by BytecodeVM::step and every entry into Interpreter::call_function_with_new_target / resume_bytecode_generator (work done inside a native without running bytecode is not counted; it is covered only by worker death and the watchdog, which is never a verdict)".into(),
            "the bounds 10^4 instructions per step and 32 nested native entries are far above what a trampolined path needs (1 and <= 3) and far below any unbounded loop or recursion".into(),
            "worker death (stack overflow on the fixed 8 MiB case thread, allocation failure under RLIMIT_AS = 4 GiB) is attributed by the supervisor to the journaled case and confirmed in a fresh process".into(),
            "regular-expression backtracking and other purely native long-running work are outside what the instruction counter can see".into(),
        ]
    }
    fn plan(&self, tier: Tier) -> Plan {
        Plan { shards: 16, cases_per_shard: tier.pick(120, 6000), tape_len: tier.pick(500, 900), watchdog_s: tier.pick(1500, 14400) }
    }
    fn fixed_cases(&self, ctx: &Ctx) -> Vec<Value> {
        let mut all: Vec<Value> = vec![];
        let top = &CONTEXTS[0];
        // path x body grid
        for (i, a) in PATHS.iter().enumerate() {
            let bodies = [
                Body::Loop { form: i },
                Body::Repeat { form: i },
                Body::SelfRec { shape: i },
                Body::Finite { n: 300, shape: i + 1, throws: false },
                Body::Finite { n: 200, shape: i + 2, throws: true },
                Body::Finite { n: 5, shape: i + 3, throws: i % 2 == 0 },
            ];
            for b in bodies {
                all.push(build_path_case(PathCaseSpec { a, b: None, ctx: top, body: b, module: false, filler: Filler::default() }, &ctx.gates));
            }
            // mutual recursion with the plain call and with the next path of the table
            let nxt = &PATHS[(i + 1) % PATHS.len()];
            all.push(build_path_case(PathCaseSpec { a, b: Some(&PATHS[0]), ctx: top, body: Body::Mutual { shape: i, shape2: 0 }, module: false, filler: Filler::default() }, &ctx.gates));
            all.push(build_path_case(PathCaseSpec { a, b: Some(nxt), ctx: top, body: Body::Mutual { shape: 0, shape2: i }, module: i % 2 == 1, filler: Filler::default() }, &ctx.gates));
        }
        // context x body grid (plain call, method, constructor)
        for (j, cx) in CONTEXTS.iter().enumerate() {
            for (k, name) in ["call:declaration", "method:object-literal", "construct:class", "primitive-method:string-dot"].iter().enumerate() {
                let a = path_named(name);
                for b in [Body::Loop { form: j + k }, Body::Repeat { form: j + k }, Body::SelfRec { shape: j + k }, Body::Finite { n: 400, shape: j, throws: k == 1 }] {
                    all.push(build_path_case(PathCaseSpec { a, b: None, ctx: cx, body: b, module: (j + k) % 3 == 0, filler: Filler::default() }, &ctx.gates));
                }
            }
        }
        // loop forms x (plain call, arrow, method, constructor, bound)
        for (f, _) in LOOPS.iter().enumerate() {
            for name in ["call:declaration", "arrow:block-body", "method:object-literal", "construct:class", "bound:plain", "primitive-method:number-dot"] {
                let a = path_named(name);
                all.push(build_path_case(PathCaseSpec { a, b: None, ctx: top, body: Body::Loop { form: f }, module: false, filler: Filler::default() }, &ctx.gates));
            }
        }
        // size probes: every built-in x every boundary size, plus the ordinary sizes
        for (name, expr) in SIZE_PROBES {
            for s in SIZES.iter().chain(SMALL_SIZES.iter()) {
                all.push(build_size_case(vec![(name.to_string(), expr.replace("@N", s), s.to_string())]));
            }
        }
        // deep data
        let depths: &[u64] = if ctx.tier == Tier::Quick { &[2_000, 100_000] } else { &[300, 2_000, 20_000, 100_000, 400_000] };
        for (di, d) in DEEPS.iter().enumerate() {
            for (oi, _) in d.ops.iter().enumerate() {
                for dep in depths {
                    all.push(build_deep_case(di, oi, *dep, None, &ctx.gates));
                }
            }
        }
        if let Ok(dir) = std::env::var("VERIF_C06_DUMP") {
            // development aid: write the enumerated grid to a file (one JSON case per line)
            if ctx.shard == 0 {
                let text: Vec<String> = all.iter().map(|c| c.to_string()).collect();
                let _ = std::fs::write(format!("{}/c06-grid.jsonl", dir), text.join("\n"));
                std::process::exit(0);
            }
        }
        all.into_iter().enumerate().filter(|(i, _)| i % ctx.nshards.max(1) == ctx.shard).map(|(_, c)| c).collect()
    }
    fn generate(&self, tape: &mut Tape, ctx: &Ctx) -> Value {
        match tape.weighted(&[14, 3, 3]) {
            0 => self.gen_path_case(tape, ctx),
            1 => self.gen_size_case(tape),
            _ => self.gen_deep_case(tape, ctx),
        }
    }
    fn execute(&self, case: &Value, _ctx: &mut Ctx) -> Exec {
        set_address_space_limit();
        match case["kind"].as_str().unwrap_or("") {
            "control" | "survive" => self.exec_path(case),
            "size" | "deep" => self.exec_probe(case),
            "excluded" => {
                let mut e = Exec::pass(false);
                if let Some(ex) = case["excluded"].as_object() {
                    for (k, v) in ex {
                        e.counters.push((format!("excluded_by_gate:{}", k), v.as_u64().unwrap_or(0)));
                    }
                }
                e.tags = vec!["kind:excluded".into()];
                e
            }
            "probe" => {
                // development aid: run a source text under explicit limits and report the measurements
                let src = case["src"].as_str().unwrap_or("").to_string();
                let o = HostOpts {
                    step_budget: case["step_budget"].as_u64().unwrap_or(STEP_BUDGET_RECURSION),
                    depth_budget: DEPTH_BUDGET,
                    step_instr_limit: case["limit"].as_u64().unwrap_or(0),
                    reentry_limit: case["reentry_limit"].as_u64().unwrap_or(0) as u32,
                    module: case["module"].as_bool().unwrap_or(false),
                    collect_at_end: case["collect"].as_bool().unwrap_or(false),
                    gc_threshold: case["gc_threshold"].as_u64().map(|t| t as usize),
                };
                match run_case_on_thread(src, o) {
                    Ok(m) => Exec::pass(true).with_observed(m.to_json()),
                    Err(e) => Exec::fail(e.clone(), e),
                }
            }
            other => Exec::discard(format!("unknown case kind `{}`", other)),
        }
    }
}
