//! C15 reference model, written from the ECMAScript specification text (Number::toString,
//! StringToNumber / numeric literal MV, ToInt32/ToUint32, Number.prototype.toFixed /
//! toExponential / toPrecision / toString(radix)) and independent of tsrun.
//!
//! Trusted base: `ryu` (shortest round-trip digits; cross-checked against `core::fmt` `{:e}`),
//! Rust's `str::parse::<f64>` (correct rounding; cross-checked against the exact rational
//! predicate below), and the exact `BigUint` arithmetic in bigint.rs (self-tested).

use super::bigint::BigUint;
use std::cmp::Ordering;

/// |x| = m * 2^e exactly for finite x (m < 2^53; normal numbers have bit 52 set, subnormals e = -1074)
pub fn decompose(x: f64) -> (bool, u64, i32) {
    let bits = x.to_bits();
    let neg = bits >> 63 == 1;
    let ex = ((bits >> 52) & 0x7ff) as i32;
    let frac = bits & ((1u64 << 52) - 1);
    if ex == 0 {
        (neg, frac, -1074)
    } else {
        (neg, frac | (1u64 << 52), ex - 1075)
    }
}

/// the double m * 2^e when that value is exactly representable
pub fn compose(m: u64, e: i32) -> Option<f64> {
    if m == 0 {
        return Some(0.0);
    }
    let tz = m.trailing_zeros();
    let m = m >> tz;
    let e = e as i64 + tz as i64;
    let len = 64 - m.leading_zeros() as i64;
    if len > 53 {
        return None;
    }
    let top = e + len - 1; // exponent of the leading bit
    if top > 1023 || e < -1074 {
        return None;
    }
    if top >= -1022 {
        let mant = m << (53 - len);
        let biased = (top + 1023) as u64;
        Some(f64::from_bits((biased << 52) | (mant & ((1u64 << 52) - 1))))
    } else {
        Some(f64::from_bits(m << (e + 1074)))
    }
}

/// "123.45", "1.2e-7", "1E21", "0.001" -> (significant digits without leading/trailing zeros, n)
/// with value = 0.d1d2..dk * 10^n ; zero -> ("", 0)
pub fn parse_sci(s: &str) -> (String, i32) {
    let (mant, exp) = match s.find(|c| c == 'e' || c == 'E') {
        Some(i) => (&s[..i], s[i + 1..].parse::<i32>().expect("exponent")),
        None => (s, 0),
    };
    let (ip, fp) = match mant.find('.') {
        Some(i) => (&mant[..i], &mant[i + 1..]),
        None => (mant, ""),
    };
    let mut point = ip.len() as i32 + exp;
    let all: String = format!("{}{}", ip, fp);
    let stripped = all.trim_start_matches('0');
    point -= (all.len() - stripped.len()) as i32;
    let digits = stripped.trim_end_matches('0');
    if digits.is_empty() {
        return (String::new(), 0);
    }
    (digits.to_string(), point)
}

/// shortest round-trip digits of a finite positive double from ryu
pub fn shortest_ryu(x: f64) -> (String, i32) {
    let mut b = ryu::Buffer::new();
    parse_sci(b.format_finite(x))
}
/// the same from Rust's own `{:e}` (Grisu with Dragon fallback)
pub fn shortest_std(x: f64) -> (String, i32) {
    parse_sci(&format!("{:e}", x))
}

/// ECMAScript Number::toString(x, 10) steps 5-end: k digits, exponent n (value = 0.D * 10^n)
pub fn es_layout(neg: bool, digits: &str, n: i32) -> String {
    let k = digits.len() as i32;
    let mut s = String::new();
    if neg {
        s.push('-');
    }
    if k <= n && n <= 21 {
        s.push_str(digits);
        for _ in 0..(n - k) {
            s.push('0');
        }
    } else if 0 < n && n <= 21 {
        s.push_str(&digits[..n as usize]);
        s.push('.');
        s.push_str(&digits[n as usize..]);
    } else if -6 < n && n <= 0 {
        s.push_str("0.");
        for _ in 0..(-n) {
            s.push('0');
        }
        s.push_str(digits);
    } else {
        let e = n - 1;
        s.push_str(&digits[..1]);
        if k > 1 {
            s.push('.');
            s.push_str(&digits[1..]);
        }
        s.push('e');
        s.push(if e < 0 { '-' } else { '+' });
        s.push_str(&e.abs().to_string());
    }
    s
}

/// Shortest round-trip digits of a finite positive double as Number::toString defines them:
/// fewest digits; among those the closest to x; of two equally close the even one. ryu and
/// `{:e}` agree except on exact ties; a disagreement is settled by exact arithmetic. Err when
/// the two sources differ in any other way, or the result does not read back (never a verdict).
pub fn es_shortest(a: f64) -> Result<(String, i32), String> {
    let (d1, n1) = shortest_ryu(a);
    let (d2, n2) = shortest_std(a);
    if d1 == d2 && n1 == n2 {
        return Ok((d1, n1));
    }
    let fail = || format!("shortest digits disagree for {:#018x}: ryu {}e{} std {}e{}", a.to_bits(), d1, n1, d2, n2);
    if n1 != n2 {
        return Err(fail());
    }
    let k = d1.len().max(d2.len());
    let pad = |d: &str| format!("{}{}", d, "0".repeat(k - d.len()));
    let (p1, p2) = (pad(&d1), pad(&d2));
    let (_, m, e) = decompose(a);
    let scale10 = (k as i32 - n1).max(0) as u32; // multiply x by 10^scale10
    let up10 = (n1 - k as i32).max(0) as u32; // multiply digits by 10^up10
    let xs = BigUint::from_u64(m).shl(e.max(0) as usize).mul(&BigUint::pow(10, scale10));
    let dist = |p: &str| -> Option<BigUint> {
        let v = BigUint::from_digits(p.as_bytes(), 10)?.mul(&BigUint::pow(10, up10)).shl((-e).max(0) as usize);
        Some(if v >= xs { v.sub(&xs) } else { xs.sub(&v) })
    };
    let (Some(a1), Some(a2)) = (dist(&p1), dist(&p2)) else { return Err(fail()) };
    let last_even = |p: &str| (p.as_bytes()[p.len() - 1] - b'0') % 2 == 0;
    let pick = match a1.cmp(&a2) {
        Ordering::Less => p1,
        Ordering::Greater => p2,
        Ordering::Equal => {
            if last_even(&p1) {
                p1
            } else if last_even(&p2) {
                p2
            } else {
                return Err(fail());
            }
        }
    };
    // the chosen digits must read back to a
    let num = BigUint::from_digits(pick.as_bytes(), 10).ok_or_else(fail)?.mul(&BigUint::pow(10, up10));
    let den = BigUint::pow(10, scale10);
    if !rational_rounds_to(&num, &den, a) {
        return Err(fail());
    }
    Ok((pick.trim_end_matches('0').to_string(), n1))
}

/// Number::toString(x) (radix 10). Err when the two shortest-digit sources disagree (never a verdict).
pub fn es_to_string(x: f64) -> Result<String, String> {
    if x.is_nan() {
        return Ok("NaN".into());
    }
    if x == 0.0 {
        return Ok("0".into());
    }
    if x.is_infinite() {
        return Ok(if x > 0.0 { "Infinity".into() } else { "-Infinity".into() });
    }
    let (d1, n1) = es_shortest(x.abs())?;
    Ok(es_layout(x < 0.0, &d1, n1))
}

/// exact decimal expansion of a finite positive double: ASCII digits without leading zeros and
/// without trailing zeros (at least one digit), and `point` with value = 0.D * 10^point
pub fn exact_decimal(x: f64) -> (Vec<u8>, i32) {
    let (_, m, e) = decompose(x);
    exact_decimal_me(m, e)
}

/// the same for any m * 2^e with m != 0 (used for binary midpoints (2m+1) * 2^(e-1))
pub fn exact_decimal_me(m: u64, e: i32) -> (Vec<u8>, i32) {
    assert!(m != 0);
    let (big, frac_digits) = if e >= 0 {
        (BigUint::from_u64(m).shl(e as usize), 0i32)
    } else {
        // m / 2^k = m * 5^k / 10^k
        (BigUint::from_u64(m).mul(&BigUint::pow(5, (-e) as u32)), -e)
    };
    let s = big.to_radix_string(10).into_bytes();
    let point = s.len() as i32 - frac_digits;
    let mut end = s.len();
    while end > 1 && s[end - 1] == b'0' {
        end -= 1;
    }
    (s[..end].to_vec(), point)
}

/// n = round-half-up of (0.D * 10^pos) as a decimal string ("0" for zero): keep `pos` leading
/// digits of D (zero-extended), add one when the next digit is >= 5. Because D is the *exact*
/// expansion, "next digit >= 5" is exactly "remainder >= 1/2", i.e. the ES rule "if there are two
/// such n, pick the larger n".
pub fn round_at(digits: &[u8], pos: i64) -> String {
    if pos < 0 {
        return "0".into();
    }
    let pos = pos as usize;
    let mut kept: Vec<u8> = (0..pos).map(|i| *digits.get(i).unwrap_or(&b'0')).collect();
    let up = digits.get(pos).map(|d| *d >= b'5').unwrap_or(false);
    if up {
        let mut i = kept.len();
        loop {
            if i == 0 {
                kept.insert(0, b'1');
                break;
            }
            i -= 1;
            if kept[i] == b'9' {
                kept[i] = b'0';
            } else {
                kept[i] += 1;
                break;
            }
        }
    }
    let s = String::from_utf8(kept).unwrap();
    let t = s.trim_start_matches('0');
    if t.is_empty() {
        "0".into()
    } else {
        t.to_string()
    }
}

fn nonfinite(x: f64) -> String {
    if x.is_nan() {
        "NaN".into()
    } else if x > 0.0 {
        "Infinity".into()
    } else {
        "-Infinity".into()
    }
}

/// Number.prototype.toFixed(f), 0 <= f <= 100
pub fn to_fixed(x: f64, f: u32) -> Result<String, String> {
    if !x.is_finite() {
        return Ok(nonfinite(x));
    }
    if x == 0.0 {
        // ℝ(x) = 0 for both zeros: no sign
        return Ok(if f == 0 { "0".into() } else { format!("0.{}", "0".repeat(f as usize)) });
    }
    let neg = x < 0.0;
    let a = x.abs();
    if a >= 1e21 {
        return es_to_string(x);
    }
    let (digits, point) = exact_decimal(a);
    let mut m = round_at(&digits, point as i64 + f as i64);
    if f != 0 {
        let f = f as usize;
        if m.len() <= f {
            m = format!("{}{}", "0".repeat(f + 1 - m.len()), m);
        }
        let k = m.len();
        m = format!("{}.{}", &m[..k - f], &m[k - f..]);
    }
    Ok(format!("{}{}", if neg { "-" } else { "" }, m))
}

/// Number.prototype.toExponential(fd): fd None = "as many digits as necessary"
pub fn to_exponential(x: f64, fd: Option<u32>) -> Result<String, String> {
    if !x.is_finite() {
        return Ok(nonfinite(x));
    }
    let neg = x < 0.0;
    let a = x.abs();
    let (m, e): (String, i32) = if a == 0.0 {
        ("0".repeat(fd.unwrap_or(0) as usize + 1), 0)
    } else {
        match fd {
            Some(f) => {
                let (digits, point) = exact_decimal(a);
                let mut n = round_at(&digits, f as i64 + 1);
                let mut e = point - 1;
                if n.len() == f as usize + 2 {
                    // carried to 10^(f+1): same value with e+1
                    assert!(n.ends_with('0'));
                    n.pop();
                    e += 1;
                }
                assert_eq!(n.len(), f as usize + 1);
                (n, e)
            }
            None => {
                let (d1, n1) = es_shortest(a)?;
                (d1, n1 - 1)
            }
        }
    };
    let mut s = String::new();
    if neg {
        s.push('-');
    }
    s.push_str(&m[..1]);
    if m.len() > 1 {
        s.push('.');
        s.push_str(&m[1..]);
    }
    s.push('e');
    s.push(if e < 0 { '-' } else { '+' });
    s.push_str(&e.abs().to_string());
    Ok(s)
}

/// Number.prototype.toPrecision(p), 1 <= p <= 100
pub fn to_precision(x: f64, p: u32) -> Result<String, String> {
    if !x.is_finite() {
        return Ok(nonfinite(x));
    }
    let neg = x < 0.0;
    let a = x.abs();
    let p = p as i32;
    let (m, e): (String, i32) = if a == 0.0 {
        ("0".repeat(p as usize), 0)
    } else {
        let (digits, point) = exact_decimal(a);
        let mut n = round_at(&digits, p as i64);
        let mut e = point - 1;
        if n.len() == p as usize + 1 {
            assert!(n.ends_with('0'));
            n.pop();
            e += 1;
        }
        assert_eq!(n.len(), p as usize);
        (n, e)
    };
    let mut s = String::new();
    if neg {
        s.push('-');
    }
    if e < -6 || e >= p {
        s.push_str(&m[..1]);
        if p != 1 {
            s.push('.');
            s.push_str(&m[1..]);
        }
        s.push('e');
        s.push(if e < 0 { '-' } else { '+' });
        s.push_str(&e.abs().to_string());
        return Ok(s);
    }
    if e == p - 1 {
        s.push_str(&m);
    } else if e >= 0 {
        s.push_str(&m[..e as usize + 1]);
        s.push('.');
        s.push_str(&m[e as usize + 1..]);
    } else {
        s.push_str("0.");
        for _ in 0..(-(e + 1)) {
            s.push('0');
        }
        s.push_str(&m);
    }
    Ok(s)
}

/// ToUint32: truncate, then exact modulo 2^32
pub fn to_uint32(x: f64) -> u32 {
    if !x.is_finite() || x == 0.0 {
        return 0;
    }
    let (neg, m, e) = decompose(x);
    let r: u32 = if e >= 32 {
        0
    } else if e >= 0 {
        (((m as u128) << e) & 0xffff_ffff) as u32
    } else if -e >= 64 {
        0
    } else {
        ((m >> (-e)) & 0xffff_ffff) as u32
    };
    if neg {
        r.wrapping_neg()
    } else {
        r
    }
}
pub fn to_int32(x: f64) -> i32 {
    to_uint32(x) as i32
}

pub fn is_integer(x: f64) -> bool {
    if !x.is_finite() {
        return false;
    }
    if x == 0.0 {
        return true;
    }
    let (_, m, e) = decompose(x);
    e >= 0 || ((-e) < 64 && m & ((1u64 << (-e)) - 1) == 0)
}

/// Number.prototype.toString(radix) where the digits are determined exactly: non-finite, zero,
/// integers (any radix), dyadic fractions in power-of-two radices. None otherwise.
pub fn radix_exact(x: f64, radix: u32) -> Option<String> {
    if !x.is_finite() {
        return Some(nonfinite(x));
    }
    if x == 0.0 {
        return Some("0".into());
    }
    let (neg, m, e) = decompose(x);
    let sign = if neg { "-" } else { "" };
    if e >= 0 {
        return Some(format!("{}{}", sign, BigUint::from_u64(m).shl(e as usize).to_radix_string(radix)));
    }
    if is_integer(x) {
        return Some(format!("{}{}", sign, BigUint::from_u64(m >> (-e)).to_radix_string(radix)));
    }
    if !radix.is_power_of_two() {
        return None;
    }
    let k = radix.trailing_zeros() as usize;
    let fb = (-e) as usize; // fractional bits
    let pad = (k - fb % k) % k;
    let total = fb + pad;
    let n = BigUint::from_u64(m).shl(pad);
    let nd = total / k; // fractional digits
    let mut s = n.to_radix_string(radix);
    if s.len() <= nd {
        s = format!("{}{}", "0".repeat(nd + 1 - s.len()), s);
    }
    let cut = s.len() - nd;
    let ip = &s[..cut];
    let fp = s[cut..].trim_end_matches('0');
    Some(format!("{}{}.{}", sign, ip, fp))
}

/// Does the exact non-negative rational num/den round (to nearest, ties to even) to `x` (x >= 0,
/// may be +Infinity)?
pub fn rational_rounds_to(num: &BigUint, den: &BigUint, x: f64) -> bool {
    assert!(!den.is_zero() && !(x < 0.0) && !x.is_nan());
    // compare num/den with b * 2^s
    let cmp = |b: &BigUint, s: i32| -> Ordering {
        if s >= 0 {
            num.cmp(&b.mul(den).shl(s as usize))
        } else {
            num.shl((-s) as usize).cmp(&b.mul(den))
        }
    };
    if x.is_infinite() {
        // >= MAX + half ulp = (2^54 - 1) * 2^970
        return cmp(&BigUint::from_u64((1u64 << 54) - 1), 970) != Ordering::Less;
    }
    let (_, m, e) = decompose(x);
    let even = m & 1 == 0;
    let up = cmp(&BigUint::from_u64(2 * m + 1), e - 1);
    let ok_up = up == Ordering::Less || (up == Ordering::Equal && even);
    if !ok_up {
        return false;
    }
    if m == 0 {
        return true;
    }
    let lo = if m == 1u64 << 52 && e > -1074 {
        cmp(&BigUint::from_u64(4 * m - 1), e - 2)
    } else {
        cmp(&BigUint::from_u64(2 * m - 1), e - 1)
    };
    lo == Ordering::Greater || (lo == Ordering::Equal && even)
}

/// Validity predicate for toString(radix) of non-dyadic-radix fractions: the printed digits, read
/// exactly in that radix, round to x; plus well-formedness (lower-case digits of the radix, one
/// optional point with digits on both sides, sign only for negative x, no redundant zeros).
pub fn radix_valid(x: f64, radix: u32, printed: &str) -> Result<(), String> {
    let neg = x < 0.0;
    let body = match (neg, printed.strip_prefix('-')) {
        (true, Some(b)) => b,
        (false, None) => printed,
        _ => return Err("sign".into()),
    };
    let (ip, fp) = match body.find('.') {
        Some(i) => (&body[..i], &body[i + 1..]),
        None => (body, ""),
    };
    if ip.is_empty() || (body.contains('.') && fp.is_empty()) {
        return Err("shape".into());
    }
    if ip.len() > 1 && ip.starts_with('0') {
        return Err("leading zero".into());
    }
    if fp.ends_with('0') {
        return Err("trailing zero".into());
    }
    if body.bytes().any(|c| c != b'.' && !(c.is_ascii_digit() || c.is_ascii_lowercase())) || fp.contains('.') {
        return Err("alphabet".into());
    }
    if body.len() > 1200 {
        return Err("length".into());
    }
    let all = format!("{}{}", ip, fp);
    let Some(num) = BigUint::from_digits(all.as_bytes(), radix) else {
        return Err("digit out of radix".into());
    };
    let den = BigUint::pow(radix, fp.len() as u32);
    if rational_rounds_to(&num, &den, x.abs()) {
        Ok(())
    } else {
        Err("digits do not read back to the same double".into())
    }
}

// ---------------------------------------------------------------------------------------------
// text -> number
// ---------------------------------------------------------------------------------------------

/// WhiteSpace + LineTerminator of ECMAScript (StrWhiteSpaceChar)
pub fn is_es_whitespace(c: char) -> bool {
    matches!(
        c,
        '\u{9}' | '\u{B}' | '\u{C}' | ' ' | '\u{A0}' | '\u{FEFF}' | '\n' | '\r' | '\u{2028}' | '\u{2029}'
        // Zs
        | '\u{1680}' | '\u{2000}'..='\u{200A}' | '\u{202F}' | '\u{205F}' | '\u{3000}'
    )
}

/// A decimal magnitude: digits * 10^q (digits ASCII, may have leading zeros)
#[derive(Clone, Debug)]
pub struct Dec {
    pub digits: String,
    pub q: i64,
}

/// Correctly rounded double of digits * 10^q (nearest, ties to even): Rust's parser is the
/// primary reference, verified by the exact rational predicate. Err = the two disagree.
pub fn dec_to_f64(d: &Dec) -> Result<f64, String> {
    let sig = d.digits.trim_start_matches('0');
    if sig.is_empty() {
        return Ok(0.0);
    }
    // decimal magnitude: value in [10^(mag-1), 10^mag)
    let mag = sig.len() as i64 + d.q;
    if mag > 310 {
        return Ok(f64::INFINITY);
    }
    if mag < -326 {
        return Ok(0.0);
    }
    let txt = format!("{}e{}", sig, d.q);
    let r: f64 = txt.parse().map_err(|_| format!("rust parse rejected {}", txt))?;
    let digits = BigUint::from_digits(sig.as_bytes(), 10).ok_or("digits")?;
    let (num, den) = if d.q >= 0 {
        (digits.mul(&BigUint::pow(10, d.q as u32)), BigUint::from_u64(1))
    } else {
        (digits, BigUint::pow(10, (-d.q) as u32))
    };
    if !rational_rounds_to(&num, &den, r) {
        return Err(format!("reference disagreement: rust parse of {} gives {:#018x} which the exact predicate rejects", txt, r.to_bits()));
    }
    Ok(r)
}

/// digits (radix 2/8/16) as an exact integer, correctly rounded
pub fn radix_int_to_f64(digits: &str, radix: u32) -> Result<f64, String> {
    let n = BigUint::from_digits(digits.as_bytes(), radix).ok_or("digit")?;
    Ok(big_to_f64(&n))
}

/// nearest double (ties to even) of an exact integer
pub fn big_to_f64(n: &BigUint) -> f64 {
    let len = n.bit_len();
    if len <= 64 {
        let v = n.low_u64();
        if len <= 53 {
            return v as f64;
        }
    }
    if len > 1024 {
        return f64::INFINITY;
    }
    // keep 53 bits, round on the rest
    let drop = len - 53;
    let mut m = n.shr(drop).low_u64();
    let half = n.bit(drop - 1);
    let rest_zero = n.low_bits_zero(drop - 1);
    if half && (!rest_zero || m & 1 == 1) {
        m += 1;
    }
    let mut e = drop as i32;
    if m == 1u64 << 53 {
        m >>= 1;
        e += 1;
    }
    match compose(m, e) {
        Some(v) => v,
        None => f64::INFINITY,
    }
}

/// StrDecimalLiteral body without sign: returns (Dec, bytes consumed) for the longest valid
/// prefix of `s` (ASCII bytes) or None. "Infinity" is handled by the callers.
fn scan_decimal(s: &[u8]) -> Option<(Dec, usize)> {
    let mut i = 0;
    let mut ip = String::new();
    while i < s.len() && s[i].is_ascii_digit() {
        ip.push(s[i] as char);
        i += 1;
    }
    let mut fp = String::new();
    let mut end = i;
    if i < s.len() && s[i] == b'.' {
        let mut j = i + 1;
        while j < s.len() && s[j].is_ascii_digit() {
            fp.push(s[j] as char);
            j += 1;
        }
        if ip.is_empty() && fp.is_empty() {
            return None;
        }
        end = j;
    } else if ip.is_empty() {
        return None;
    }
    // exponent part: only consumed when complete
    let mut exp: i64 = 0;
    if end < s.len() && (s[end] == b'e' || s[end] == b'E') {
        let mut j = end + 1;
        let mut neg = false;
        if j < s.len() && (s[j] == b'+' || s[j] == b'-') {
            neg = s[j] == b'-';
            j += 1;
        }
        let st = j;
        let mut v: i64 = 0;
        while j < s.len() && s[j].is_ascii_digit() {
            v = (v * 10 + (s[j] - b'0') as i64).min(10_000_000);
            j += 1;
        }
        if j > st {
            exp = if neg { -v } else { v };
            end = j;
        }
    }
    let q = exp - fp.len() as i64;
    Some((Dec { digits: format!("{}{}", ip, fp), q }, end))
}

/// StringToNumber (ES 7.1.4.1.1), demanding the correctly rounded value for every length
pub fn es_string_to_number(s: &str) -> Result<f64, String> {
    let t = s.trim_matches(is_es_whitespace);
    if t.is_empty() {
        return Ok(0.0);
    }
    let b = t.as_bytes();
    if b.len() > 2 && b[0] == b'0' {
        let radix = match b[1] {
            b'x' | b'X' => 16,
            b'o' | b'O' => 8,
            b'b' | b'B' => 2,
            _ => 0,
        };
        if radix != 0 {
            let body = &t[2..];
            if body.bytes().all(|c| (c as char).to_digit(radix).is_some()) {
                return radix_int_to_f64(body, radix);
            }
            return Ok(f64::NAN);
        }
    }
    let (neg, rest) = match b[0] {
        b'+' => (false, &t[1..]),
        b'-' => (true, &t[1..]),
        _ => (false, t),
    };
    let sg = if neg { -1.0 } else { 1.0 };
    if rest == "Infinity" {
        return Ok(sg * f64::INFINITY);
    }
    match scan_decimal(rest.as_bytes()) {
        Some((d, used)) if used == rest.len() => Ok(sg * dec_to_f64(&d)?),
        _ => Ok(f64::NAN),
    }
}

/// parseFloat (ES 19.2.4): trim leading white space, longest StrDecimalLiteral prefix
pub fn es_parse_float(s: &str) -> Result<f64, String> {
    let t = s.trim_start_matches(is_es_whitespace);
    let b = t.as_bytes();
    let (neg, rest) = match b.first() {
        Some(b'+') => (false, &t[1..]),
        Some(b'-') => (true, &t[1..]),
        _ => (false, t),
    };
    let sg = if neg { -1.0 } else { 1.0 };
    if rest.starts_with("Infinity") {
        return Ok(sg * f64::INFINITY);
    }
    match scan_decimal(rest.as_bytes()) {
        Some((d, _)) => Ok(sg * dec_to_f64(&d)?),
        None => Ok(f64::NAN),
    }
}

/// parseInt(s, radix) (ES 19.2.5) with radix already converted by ToInt32. Ok(None) where the
/// specification allows an implementation-approximated integer and this check does not judge:
/// radix outside {2,4,8,10,16,32} with a value of 2^53 or more. Radix 10 is demanded correctly
/// rounded at any length (the property's reading).
pub fn es_parse_int(s: &str, radix: i32) -> Result<Option<f64>, String> {
    let t = s.trim_start_matches(is_es_whitespace);
    let (neg, mut rest) = match t.as_bytes().first() {
        Some(b'+') => (false, &t[1..]),
        Some(b'-') => (true, &t[1..]),
        _ => (false, t),
    };
    let mut r = radix;
    let mut strip = true;
    if r != 0 {
        if !(2..=36).contains(&r) {
            return Ok(Some(f64::NAN));
        }
        if r != 16 {
            strip = false;
        }
    } else {
        r = 10;
    }
    if strip && (rest.starts_with("0x") || rest.starts_with("0X")) {
        rest = &rest[2..];
        r = 16;
    }
    let r = r as u32;
    let end = rest.bytes().position(|c| !(c as char).is_digit(r)).unwrap_or(rest.len());
    let digits = &rest[..end];
    if digits.is_empty() {
        return Ok(Some(f64::NAN));
    }
    let n = BigUint::from_digits(digits.as_bytes(), r).ok_or("digit")?;
    let v = big_to_f64(&n);
    if r == 10 {
        // cross-check with the decimal path
        let d = dec_to_f64(&Dec { digits: digits.to_string(), q: 0 })?;
        if d.to_bits() != v.to_bits() {
            return Err(format!("reference disagreement on parseInt digits {}", digits));
        }
    }
    if !matches!(r, 2 | 4 | 8 | 10 | 16 | 32) && n.bit_len() > 53 {
        return Ok(None);
    }
    Ok(Some(if neg { -v } else { v }))
}

/// NumericLiteral of ECMAScript source text (strict mode, no BigInt suffix, no legacy octal):
/// Some(value) when `s` is a complete valid literal, None when it is not one.
pub fn es_numeric_literal(s: &str) -> Result<Option<f64>, String> {
    let b = s.as_bytes();
    if b.is_empty() || !s.is_ascii() {
        return Ok(None);
    }
    // separators: only between two digits of the same digit run
    let sep_ok = |run: &str, radix: u32| -> bool {
        let r = run.as_bytes();
        if r.is_empty() {
            return false;
        }
        for (i, c) in r.iter().enumerate() {
            if *c == b'_' {
                if i == 0 || i + 1 == r.len() || r[i - 1] == b'_' || r[i + 1] == b'_' {
                    return false;
                }
            } else if (*c as char).to_digit(radix).is_none() {
                return false;
            }
        }
        true
    };
    if b.len() >= 2 && b[0] == b'0' {
        let radix = match b[1] {
            b'x' | b'X' => 16,
            b'o' | b'O' => 8,
            b'b' | b'B' => 2,
            _ => 0,
        };
        if radix != 0 {
            let body = &s[2..];
            if !sep_ok(body, radix) {
                return Ok(None);
            }
            let clean: String = body.chars().filter(|c| *c != '_').collect();
            return Ok(Some(radix_int_to_f64(&clean, radix)?));
        }
    }
    // decimal: split at e/E, then at '.'
    let (mant, exp) = match s.find(|c| c == 'e' || c == 'E') {
        Some(i) => (&s[..i], Some(&s[i + 1..])),
        None => (s, None),
    };
    let (ip, fp) = match mant.find('.') {
        Some(i) => (&mant[..i], Some(&mant[i + 1..])),
        None => (mant, None),
    };
    if ip.is_empty() {
        // ".digits"
        match fp {
            Some(f) if sep_ok(f, 10) => {}
            _ => return Ok(None),
        }
    } else {
        if !sep_ok(ip, 10) {
            return Ok(None);
        }
        // DecimalIntegerLiteral: "0" alone or NonZeroDigit...; no leading-zero forms (legacy), no "0_"
        if ip.len() > 1 && ip.starts_with('0') {
            return Ok(None);
        }
        if let Some(f) = fp {
            if !f.is_empty() && !sep_ok(f, 10) {
                return Ok(None);
            }
        }
    }
    let mut e: i64 = 0;
    if let Some(x) = exp {
        let (neg, body) = match x.as_bytes().first() {
            Some(b'+') => (false, &x[1..]),
            Some(b'-') => (true, &x[1..]),
            _ => (false, x),
        };
        if !sep_ok(body, 10) {
            return Ok(None);
        }
        let mut v: i64 = 0;
        for c in body.bytes().filter(|c| *c != b'_') {
            v = (v * 10 + (c - b'0') as i64).min(10_000_000);
        }
        e = if neg { -v } else { v };
    }
    let clean = |t: &str| -> String { t.chars().filter(|c| *c != '_').collect() };
    let ipc = clean(ip);
    let fpc = clean(fp.unwrap_or(""));
    let d = Dec { q: e - fpc.len() as i64, digits: format!("{}{}", ipc, fpc) };
    Ok(Some(dec_to_f64(&d)?))
}

/// Deterministic self-test of the reference against facts that do not depend on it.
pub fn self_test() -> Result<(), String> {
    let ck = |got: String, want: &str| if got == want { Ok(()) } else { Err(format!("numref self-test: got {} want {}", got, want)) };
    ck(es_to_string(5e-324)?, "5e-324")?;
    ck(es_to_string(f64::MAX)?, "1.7976931348623157e+308")?;
    ck(es_to_string(123456789012345680000.0)?, "123456789012345680000")?;
    ck(es_to_string(1e21)?, "1e+21")?;
    ck(es_to_string(1e-7)?, "1e-7")?;
    ck(es_to_string(0.000001)?, "0.000001")?;
    ck(es_to_string(-1.5)?, "-1.5")?;
    ck(es_to_string(-0.0)?, "0")?;
    ck(es_to_string(562949953421312.25)?, "562949953421312.2")?; // tie between ...2 and ...3: even
    ck(es_to_string(f64::from_bits(0x430aaaaaaaaaaaaa))?, "938249922368853.2")?;
    ck(es_to_string(f64::from_bits(0x3e60000000000000))?, "2.9802322387695312e-8")?;
    ck(to_fixed(0.5, 0)?, "1")?;
    ck(to_fixed(2.5, 0)?, "3")?;
    ck(to_fixed(-2.5, 0)?, "-3")?;
    ck(to_fixed(1.005, 2)?, "1.00")?;
    ck(to_fixed(1e21, 2)?, "1e+21")?;
    ck(to_fixed(-0.0001, 2)?, "-0.00")?;
    ck(to_fixed(-0.0, 2)?, "0.00")?;
    ck(to_fixed(0.000001, 7)?, "0.0000010")?;
    ck(to_fixed(123.456, 0)?, "123")?;
    ck(to_fixed(1000000000000000128.0, 0)?, "1000000000000000128")?;
    ck(to_exponential(123456.0, Some(2))?, "1.23e+5")?;
    ck(to_exponential(0.00015, Some(0))?, "1e-4")?; // the double 0.00015 is slightly below 1.5e-4
    ck(to_exponential(25.0, Some(0))?, "3e+1")?;
    ck(to_exponential(9.99, Some(1))?, "1.0e+1")?;
    ck(to_exponential(0.0, Some(2))?, "0.00e+0")?;
    ck(to_exponential(123.456, None)?, "1.23456e+2")?;
    ck(to_precision(0.00001, 1)?, "0.00001")?;
    ck(to_precision(0.000001, 2)?, "0.0000010")?;
    ck(to_precision(0.0000001, 2)?, "1.0e-7")?;
    ck(to_precision(123456.0, 2)?, "1.2e+5")?;
    ck(to_precision(1e21, 3)?, "1.00e+21")?;
    ck(to_precision(2.5, 1)?, "3")?;
    ck(to_precision(99.99, 3)?, "100")?;
    ck(to_precision(99.99, 2)?, "1.0e+2")?;
    ck(to_precision(1.0, 3)?, "1.00")?;
    ck(radix_exact(0.5, 2).unwrap_or_default(), "0.1")?;
    ck(radix_exact(255.0, 16).unwrap_or_default(), "ff")?;
    ck(radix_exact(-255.5, 16).unwrap_or_default(), "-ff.8")?;
    ck(radix_exact(0.1, 16).unwrap_or_default(), "0.1999999999999a")?;
    ck(radix_exact(0.2, 16).unwrap_or_default(), "0.33333333333334")?;
    ck(radix_exact(1e21, 36).unwrap_or_default(), "5v1j4f4ds79m9s")?;
    ck(radix_exact(0.375, 8).unwrap_or_default(), "0.3")?;
    if radix_exact(0.1, 10).is_some() || radix_exact(0.1, 3).is_some() {
        return Err("radix_exact must not decide non-dyadic radices".into());
    }
    radix_valid(0.1, 3, "0.0022002200220022002200220022002200220022002200220022002201").map_err(|e| format!("radix_valid rejects a good string: {}", e))?;
    if radix_valid(0.1, 3, "0.0022").is_ok() || radix_valid(0.5, 3, "0.1").is_ok() {
        return Err("radix_valid accepts a bad string".into());
    }
    let ints: [(f64, u32, i32); 9] = [
        (4294967296.0, 0, 0),
        (4294967297.0, 1, 1),
        (2147483648.0, 2147483648, i32::MIN),
        (-1.0, 4294967295, -1),
        (-2147483649.0, 2147483647, 2147483647),
        (1e21, 3735027712, -559939584),
        (-1.9, 4294967295, -1),
        (0.9, 0, 0),
        (36028797018963968.0 + 16.0, 0x10, 0x10),
    ];
    for (x, u, i) in ints {
        if to_uint32(x) != u || to_int32(x) != i {
            return Err(format!("to_uint32/to_int32 self-test {}: {} {}", x, to_uint32(x), to_int32(x)));
        }
    }
    // halfway strings: 2^53 + 1 is a tie -> even (2^53); one digit above the tie rounds up
    let t = |s: &str| es_string_to_number(s);
    if t("9007199254740993")? != 9007199254740992.0 || t("9007199254740993.00000000000000000000000000001")? != 9007199254740994.0 {
        return Err("tie self-test".into());
    }
    if t("0x20000000000001")? != 9007199254740992.0 || t("0x20000000000003")? != 9007199254740996.0 || t("0Xfffffffffffffffff")? != 295147905179352825856.0 {
        return Err("hex self-test".into());
    }
    if !t("1_0")?.is_nan() || !t("0x")?.is_nan() || !t("0x+1")?.is_nan() || !t("1e")?.is_nan() || !t(".")?.is_nan() || !t("infinity")?.is_nan() || t(" \u{FEFF}12\u{2028}\n")? != 12.0 || t("-.5e1")? != -5.0 || t("5.")? != 5.0 || t("")? != 0.0 {
        return Err("grammar self-test".into());
    }
    if t("-0")?.to_bits() != (-0.0f64).to_bits() || t("1e400")? != f64::INFINITY || t("1e-400")? != 0.0 || t("2.4703282292062327e-324")? != 0.0 || t("2.4703282292062328e-324")? != 5e-324 {
        return Err("range self-test".into());
    }
    if es_parse_float("1e")? != 1.0 || es_parse_float("  3.5abc")? != 3.5 || es_parse_float("-Infinityx")? != f64::NEG_INFINITY || !es_parse_float("0x10")?.eq(&0.0) || !es_parse_float("abc")?.is_nan() || es_parse_float("1.5e+")? != 1.5 || es_parse_float(".5.5")? != 0.5 {
        return Err("parseFloat self-test".into());
    }
    let pi = |s: &str, r: i32| es_parse_int(s, r).map(|v| v.unwrap_or(-1.0));
    if pi("0x1F", 0)? != 31.0 || pi("  -12px", 0)? != -12.0 || pi("1e3", 0)? != 1.0 || pi("0x1F", 16)? != 31.0 || pi("0x1F", 10)? != 0.0 || !pi("", 0)?.is_nan() || !pi("z", 10)?.is_nan() || pi("z", 36)? != 35.0 || !pi("1", 1)?.is_nan() || !pi("1", 37)?.is_nan()
        || pi("9007199254740993", 0)? != 9007199254740992.0 || pi("-0", 0)?.to_bits() != (-0.0f64).to_bits() || pi("11", 2)? != 3.0 || pi("123456789012345678901234567890", 0)? != 1.2345678901234568e29 || pi("0b11", 0)? != 0.0 || pi("+0X10", 0)? != 16.0
    {
        return Err("parseInt self-test".into());
    }
    let l = |s: &str| es_numeric_literal(s);
    if l("1_000.5")? != Some(1000.5) || l("1__0")?.is_some() || l("1_")?.is_some() || l("0_1")?.is_some() || l("01")?.is_some() || l(".5")? != Some(0.5) || l("5.")? != Some(5.0) || l("5.e1")? != Some(50.0) || l("0b1_01")? != Some(5.0) || l("0x_1")?.is_some() || l("1e1_0")? != Some(1e10) || l("1e")?.is_some() || l("1._5")?.is_some() || l("0.0_1")? != Some(0.01) {
        return Err("literal self-test".into());
    }
    // compose/decompose round trip
    for bits in [1u64, 0x000f_ffff_ffff_ffff, 0x0010_0000_0000_0000, 0x3ff0_0000_0000_0001, 0x7fef_ffff_ffff_ffff, 0x4340_0000_0000_0000] {
        let x = f64::from_bits(bits);
        let (_, m, e) = decompose(x);
        if compose(m, e).map(|v| v.to_bits()) != Some(bits) {
            return Err(format!("compose self-test {:#x}", bits));
        }
        let (d, p) = exact_decimal(x);
        let txt = format!("0.{}e{}", String::from_utf8(d).unwrap(), p);
        if txt.parse::<f64>().map(|v| v.to_bits()).ok() != Some(bits) {
            return Err(format!("exact_decimal self-test {:#x}", bits));
        }
    }
    if big_to_f64(&BigUint::from_u64(u64::MAX)) != 18446744073709551616.0 || big_to_f64(&BigUint::from_u64((1 << 53) + 1)) != 9007199254740992.0 || big_to_f64(&BigUint::from_u64((1 << 54) + 6)) != 18014398509481992.0 {
        return Err("big_to_f64 self-test".into());
    }
    Ok(())
}
