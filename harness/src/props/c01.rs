//! C01 — programs of the supported core evaluate as ECMAScript specifies (reference engine: node).

use crate::core::{Ctx, Exec, Plan, Property, Tier};
use crate::engine::{run_simple, RunOpts};
use crate::progen::{gen_script, Config};
use crate::tape::Tape;
use serde_json::{json, Value};

pub struct C01Prop;
pub static C01: C01Prop = C01Prop;

/// (value-or-error, log) of tsrun in the vocabulary shared with the node oracle
pub fn tsrun_view(src: &str) -> (String, Vec<String>, String) {
    let out = run_simple(src, &RunOpts { step_budget: 2_000_000, ..Default::default() });
    let end = if let Some(v) = out.end.strip_prefix("complete:str:") {
        format!("ok:{}", v)
    } else if let Some(c) = out.end.strip_prefix("error:") {
        format!("err:{}", c)
    } else {
        out.end.clone()
    };
    (end, out.log, out.err_text)
}

pub fn node_view(reply: &Value) -> Option<(String, Vec<String>)> {
    let log: Vec<String> = reply["log"].as_array().map(|a| a.iter().map(|x| x.as_str().unwrap_or("").to_string()).collect()).unwrap_or_default();
    if let Some(s) = reply["ok"].as_str() {
        return Some((format!("ok:{}", s), log));
    }
    if let Some(e) = reply["err"].as_str() {
        // thrown non-error values: tsrun reports them to the host as class "Error"
        let c = if e.starts_with("throw:") { "Error".to_string() } else { e.to_string() };
        return Some((format!("err:{}", c), log));
    }
    None
}

impl Property for C01Prop {
    fn id(&self) -> &'static str {
        "C01"
    }
    fn rule(&self) -> String {
        "Programs are built top-down by the typed grammar generator progen (clean profile: productions matching the gate of an open known finding are not emitted and are counted in `excluded`), rendered as JavaScript with the canonical printer prelude, and run on tsrun and on node (fresh strict-mode vm context); compared: printed completion value, console lines, error class. Non-trivial: >= 5 distinct feature tags, neither engine stopped with a SyntaxError, and at least one trace line or a non-literal final value. Distinct = distinct program text.".into()
    }
    fn assumptions(&self) -> Vec<String> {
        vec!["node (v20) implements ECMAScript for the generated subset".into(), "canonical printer __show uses only typeof/Array.isArray/hasOwnProperty.call/Object.keys/JSON.stringify(string)/String(number)/forEach".into()]
    }
    fn plan(&self, tier: Tier) -> Plan {
        Plan { shards: 16, cases_per_shard: tier.pick(2500, 60000), tape_len: tier.pick(600, 1500), watchdog_s: tier.pick(900, 7200) }
    }
    fn generate(&self, tape: &mut Tape, ctx: &Ctx) -> Value {
        let max = if ctx.tier == Tier::Quick { 14 } else { 30 };
        let p = gen_script(tape, &ctx.gates, Config::clean(max));
        json!({"src": p.js(), "tags": p.tags, "excluded": p.excluded})
    }
    fn execute(&self, case: &Value, ctx: &mut Ctx) -> Exec {
        // regress files may carry just the body; the canonical printer prelude is prepended
        let src_owned = match case["body"].as_str() {
            Some(b) => format!("{}{}", crate::progen::SHOW_PRELUDE, b),
            None => case["src"].as_str().unwrap_or("").to_string(),
        };
        let src = src_owned.as_str();
        let tags: Vec<String> = case["tags"].as_array().map(|a| a.iter().filter_map(|x| x.as_str().map(|s| s.to_string())).collect()).unwrap_or_default();
        let (t_end, t_log, t_err) = tsrun_view(src);
        let mut counters: Vec<(String, u64)> = vec![];
        if let Some(ex) = case["excluded"].as_object() {
            for (k, v) in ex {
                counters.push((format!("excluded_by_gate:{}", k), v.as_u64().unwrap_or(0)));
            }
        }
        if t_end == "budget" {
            return Exec::discard("tsrun step budget");
        }
        if t_end.starts_with("panic:") {
            let mut e = Exec::fail(t_end.clone(), format!("tsrun panicked: {}", t_end));
            e.observed = json!({"tsrun": t_end});
            e.tags = tags;
            return e;
        }
        let reply = match ctx.node.run_script(src) {
            None => {
                // reference engine absent: only the crash/panic monitor applies
                let mut e = Exec::pass(false);
                e.counters = counters;
                e.counters.push(("no_reference_engine".into(), 1));
                return e;
            }
            Some(r) => r,
        };
        if reply["timeout"].as_bool() == Some(true) || reply["died"].as_bool() == Some(true) {
            return Exec::discard("node timeout/died");
        }
        let Some((n_end, n_log)) = node_view(&reply) else {
            return Exec::discard("node reply unreadable");
        };
        let observed = json!({"tsrun": {"end": t_end, "log": t_log, "err_text": t_err}, "node": {"end": n_end, "log": n_log}});
        if t_end != n_end || t_log != n_log {
            // signature: which part differs + first differing trace id
            let sig = if t_log != n_log {
                let k = t_log.iter().zip(n_log.iter()).position(|(a, b)| a != b).unwrap_or(t_log.len().min(n_log.len()));
                format!("c01:log-differs@{}", k)
            } else {
                "c01:end-differs".to_string()
            };
            let msg = format!("tsrun and node disagree: tsrun end={:?} node end={:?}; first differing log line: {:?} vs {:?}",
                t_end, n_end,
                t_log.iter().zip(n_log.iter()).find(|(a, b)| a != b).map(|x| x.0.clone()).or_else(|| t_log.get(n_log.len()).cloned()),
                t_log.iter().zip(n_log.iter()).find(|(a, b)| a != b).map(|x| x.1.clone()).or_else(|| n_log.get(t_log.len()).cloned()));
            let mut e = Exec::fail(sig, msg);
            e.observed = observed;
            e.tags = tags;
            e.counters = counters;
            return e;
        }
        let syntax = n_end == "err:SyntaxError";
        let nontrivial = tags.len() >= 5 && !syntax && (!t_log.is_empty() || t_end.len() > 12);
        let mut e = Exec::pass(nontrivial);
        if syntax {
            e.counters.push(("both_syntax_error".into(), 1));
        }
        e.counters.extend(counters);
        e.tags = tags;
        e.observed = observed;
        e
    }
}
