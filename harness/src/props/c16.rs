//! C16 — data crosses the JSON boundary without loss or corruption.
//!
//! Case kinds (all self-contained):
//!   doc      a JSON text + the generator's document model; host path (create_from_json →
//!            js_value_to_json / script view / JSON.stringify) and text path (JSON.parse → script
//!            view / JSON.stringify with indent / back to the host) and the C API.
//!   invalid  a text that is not JSON by construction: JSON.parse must throw SyntaxError.
//!   graph    a generated program building an acyclic value: JSON.stringify and the exported-value
//!            path must give the JSON the ES rules prescribe (and node agrees with that model).
//!   cyclic   a generated program building a cyclic value: TypeError, nothing else.
//!   extreme  parametric deep / wide / long documents.   sweep: every Unicode scalar value.
//!
//! Oracles: the generator's own document tree; an independent strict JSON parser in
//! `c16/doc.rs` whose numbers go through Rust's `str::parse::<f64>`; serde_json in the harness as a
//! second conforming parser (well-formedness only, never for number values); node (optional).

pub mod doc;
pub mod gen;
pub mod graph;
pub mod view;

use crate::core::{guarded, Ctx, Exec, Plan, Property, Tier};
use crate::engine::{drive, error_class, new_interp, reset_hooks, HostAction, RunOpts};
use crate::tape::Tape;
use doc::{doc_diff, from_case, from_serde, parse_json, to_case, to_serde, Diff, Doc};
use gen::Feat;
use serde_json::{json, Value};
use std::cell::RefCell;
use std::ffi::{CStr, CString};
use std::os::raw::c_char;
use std::rc::Rc;
use tsrun::ffi::{TsRunContext, TsRunValue, TsRunValueResult};
use tsrun::{api, Interpreter, JsString, JsValue};

pub struct C16Prop;
pub static C16: C16Prop = C16Prop;

pub const GATE_DEPTH: &str = "json-parse:nesting>=128";
pub const GATE_PROTO: &str = "key:__proto__";

#[allow(clashing_extern_declarations, improper_ctypes)]
extern "C" {
    fn tsrun_new() -> *mut TsRunContext;
    fn tsrun_free(ctx: *mut TsRunContext);
    fn tsrun_json_parse(ctx: *mut TsRunContext, json: *const c_char) -> TsRunValueResult;
    fn tsrun_json_stringify(ctx: *mut TsRunContext, val: *mut TsRunValue) -> *mut c_char;
    fn tsrun_value_free(val: *mut TsRunValue);
    fn tsrun_free_string(s: *mut c_char);
}

// ---------------------------------------------------------------------------------------------
// helpers around the interpreter
// ---------------------------------------------------------------------------------------------
struct Sut {
    interp: Interpreter,
    guard: tsrun::Guard<tsrun::JsObject>,
}

fn start(src: &str, path: &str) -> Result<Sut, String> {
    reset_hooks();
    let log = Rc::new(RefCell::new(Vec::new()));
    let mut interp = new_interp(&log);
    let opts = RunOpts { module_path: Some(path.to_string()), vm_limit_per_step: 0, ..RunOpts::default() };
    let (end, err, _, _) = drive(&mut interp, src, &opts, &mut |_i, _r| HostAction::Stop);
    if !(end.starts_with("complete") || end == "done") {
        return Err(format!("module did not complete: {} {}", end, err));
    }
    let guard = api::create_guard(&interp);
    Ok(Sut { interp, guard })
}

impl Sut {
    fn call(&mut self, name: &str, args: &[JsValue]) -> Result<JsValue, String> {
        let f = api::get_export(&self.interp, name).ok_or_else(|| format!("export {} missing", name))?;
        api::call_function(&mut self.interp, &self.guard, &f, None, args).map_err(|e| format!("{}: {}", error_class(&e), e))
    }
}

fn js_string(s: &str) -> JsValue {
    JsValue::String(JsString::from(s.to_string()))
}

fn indent_value(indent: &Value) -> JsValue {
    match indent {
        Value::Number(n) => JsValue::Number(n.as_f64().unwrap_or(0.0)),
        Value::String(s) => js_string(s),
        _ => JsValue::Undefined,
    }
}

fn tokens_of(v: &JsValue) -> Result<Vec<view::Tok>, String> {
    let els = api::get_elements(v).map_err(|e| format!("walker result is not an array: {}", e))?;
    Ok(els
        .iter()
        .map(|e| match e {
            JsValue::String(s) => view::Tok::S(s.as_str().to_string()),
            JsValue::Number(n) => view::Tok::N(*n),
            other => view::Tok::Other(format!("{:?}", other).chars().take(40).collect()),
        })
        .collect())
}

fn fail(path: &str, d: Diff, extra: &str) -> Exec {
    let (class, at, detail) = d;
    Exec::fail(format!("c16:{}:{}", path, class), format!("[{}] {} at {}: {}{}", path, class, at, detail, extra))
}

const INDENTS: [&str; 6] = ["none", "0", "2", "tab", "10", "ab"];
fn indent_of(name: &str) -> Value {
    match name {
        "0" => json!(0),
        "2" => json!(2),
        "tab" => json!("\t"),
        "10" => json!(10),
        "ab" => json!("ab"),
        _ => Value::Null,
    }
}

/// Map the text JSON.stringify produced back to a document with the harness's parsers.
/// A non-whitespace gap ("ab") yields text that is not JSON by design of ES; the gap prefixes are
/// removed line by line first (no JSON token starts with 'a').
fn read_back(text: &str, indent: &Value, nesting: usize) -> Result<Doc, Diff> {
    let cleaned: String;
    let t: &str = match indent {
        Value::String(g) if !g.trim().is_empty() => {
            let mut out = String::with_capacity(text.len());
            for (i, line) in text.split('\n').enumerate() {
                let mut l = line;
                while l.starts_with(g.as_str()) {
                    l = &l[g.len()..];
                }
                if i > 0 {
                    out.push('\n');
                }
                out.push_str(l);
            }
            cleaned = out;
            &cleaned
        }
        _ => text,
    };
    let mine = parse_json(t).map_err(|e| ("malformed-output".to_string(), "$".to_string(), format!("strict parser rejects the produced text: {}; text starts {}", e, doc::show_str(t))))?;
    if nesting < 100 {
        // serde_json (recursion limit 128) as the second conforming parser
        if let Err(e) = serde_json::from_str::<Value>(t) {
            return Err(("malformed-output".into(), "$".into(), format!("serde_json rejects the produced text: {}", e)));
        }
    }
    Ok(mine)
}

fn as_text(v: &JsValue) -> Result<String, Diff> {
    match v {
        JsValue::String(s) => Ok(s.as_str().to_string()),
        other => Err(("no-text".into(), "$".into(), format!("JSON.stringify returned {:?} instead of a string", other).chars().take(160).collect())),
    }
}

// ---------------------------------------------------------------------------------------------
// the document checks
// ---------------------------------------------------------------------------------------------
pub struct DocOpts {
    pub host_path: bool,
    pub text_path: bool,
    pub capi: bool,
    pub ints_as_int: bool,
}

/// Runs every path for one (text, model) pair. Returns the first difference.
pub fn check_doc(text: &str, model: &Doc, indent: &Value, o: &DocOpts) -> Result<(), Exec> {
    let t0 = std::time::Instant::now();
    let timing = std::env::var("C16_TIMING").is_ok();
    let lap = |what: &str| {
        if timing {
            eprintln!("C16_TIMING {:>8.3}s {}", t0.elapsed().as_secs_f64(), what);
        }
    };
    let nesting = model.depth();
    let mut sut = start(view::LIB, "/c16lib.ts").map_err(|e| Exec::fail("c16:lib", format!("walker module failed: {}", e)))?;
    let ind = indent_value(indent);
    if o.host_path {
        let sv = to_serde(model, o.ints_as_int);
        let v = api::create_from_json(&mut sut.interp, &sut.guard, &sv).map_err(|e| Exec::fail("c16:host:create_from_json-error", format!("create_from_json failed: {}", e)))?;
        lap("create_from_json done");
        // (a) host -> script -> host
        let back = tsrun::js_value_to_json(&v).map_err(|e| Exec::fail("c16:host-roundtrip:error", format!("js_value_to_json(create_from_json(d)) failed: {}", e)))?;
        if let Some(d) = doc_diff(model, &from_serde(&back), false) {
            return Err(fail("host-roundtrip", d, ""));
        }
        lap("host roundtrip done");
        // (c) script view of the host-made value
        let toks = sut.call("walk", &[v.clone()]).map_err(|e| Exec::fail("c16:host-view:error", format!("walk(create_from_json(d)) threw {}", e)))?;
        lap("host walk returned");
        let toks = tokens_of(&toks).map_err(|e| Exec::fail("c16:host-view:protocol", e))?;
        lap("host tokens read");
        let vw = view::parse_view(&toks).map_err(|e| Exec::fail("c16:host-view:protocol", e))?;
        if let Some(d) = view::view_diff(model, &vw, "$", None) {
            return Err(fail("host-view", d, ""));
        }
        lap("host view done");
        // host -> script -> text
        let s = sut.call("strf", &[v.clone(), ind.clone()]).map_err(|e| Exec::fail("c16:host-stringify:error", format!("JSON.stringify(create_from_json(d)) threw {}", e)))?;
        let s = as_text(&s).map_err(|d| fail("host-stringify", d, ""))?;
        let got = read_back(&s, indent, nesting).map_err(|d| fail("host-stringify", d, ""))?;
        if let Some(d) = doc_diff(model, &got, false) {
            return Err(fail("host-stringify", d, ""));
        }
    }
    if o.text_path {
        let t = js_string(text);
        lap("host path done");
        // (c) script view of JSON.parse(t)
        let toks = sut.call("parseWalk", &[t.clone()]).map_err(|e| {
            let class = if e.starts_with("SyntaxError") { "valid-text-rejected" } else { "error" };
            Exec::fail(format!("c16:text-view:{}", class), format!("JSON.parse of a valid text threw {} (text starts {})", e.chars().take(200).collect::<String>(), doc::show_str(text)))
        })?;
        let toks = tokens_of(&toks).map_err(|e| Exec::fail("c16:text-view:protocol", e))?;
        let vw = view::parse_view(&toks).map_err(|e| Exec::fail("c16:text-view:protocol", e))?;
        if let Some(d) = view::view_diff(model, &vw, "$", None) {
            return Err(fail("text-view", d, ""));
        }
        lap("text view done");
        // (b) text -> script -> text
        let s = sut.call("roundtrip", &[t.clone(), ind.clone()]).map_err(|e| Exec::fail("c16:text-roundtrip:error", format!("JSON.stringify(JSON.parse(t)) threw {}", e)))?;
        let s = as_text(&s).map_err(|d| fail("text-roundtrip", d, ""))?;
        let got = read_back(&s, indent, nesting).map_err(|d| fail("text-roundtrip", d, ""))?;
        if let Some(d) = doc_diff(model, &got, false) {
            return Err(fail("text-roundtrip", d, ""));
        }
        lap("text roundtrip done");
        // text -> script -> host
        let pv = sut.call("parseOnly", &[t.clone()]).map_err(|e| Exec::fail("c16:text-to-host:error", format!("JSON.parse threw {}", e)))?;
        let back = tsrun::js_value_to_json(&pv).map_err(|e| Exec::fail("c16:text-to-host:error", format!("js_value_to_json(JSON.parse(t)) failed: {}", e)))?;
        if let Some(d) = doc_diff(model, &from_serde(&back), false) {
            return Err(fail("text-to-host", d, ""));
        }
    }
    drop(sut);
    if o.capi && o.text_path && !text.contains('\0') {
        capi_roundtrip(text, model, nesting)?;
    }
    Ok(())
}

fn capi_roundtrip(text: &str, model: &Doc, nesting: usize) -> Result<(), Exec> {
    let c = CString::new(text).map_err(|_| Exec::discard("text with NUL cannot be a C string"))?;
    unsafe {
        let ctx = tsrun_new();
        if ctx.is_null() {
            return Err(Exec::fail("c16:capi:no-context", "tsrun_new returned NULL"));
        }
        let r = tsrun_json_parse(ctx, c.as_ptr());
        let res = if r.value.is_null() {
            let msg = if r.error.is_null() { String::new() } else { CStr::from_ptr(r.error).to_string_lossy().to_string() };
            Err(Exec::fail("c16:capi:valid-text-rejected", format!("tsrun_json_parse rejected a valid text: {} (text starts {})", msg, doc::show_str(text))))
        } else {
            let s = tsrun_json_stringify(ctx, r.value);
            let out = if s.is_null() {
                Err(Exec::fail("c16:capi:stringify-null", "tsrun_json_stringify returned NULL for a parsed document"))
            } else {
                let txt = CStr::from_ptr(s).to_str().map(|x| x.to_string());
                tsrun_free_string(s);
                match txt {
                    Err(_) => Err(Exec::fail("c16:capi:not-utf8", "tsrun_json_stringify returned invalid UTF-8")),
                    Ok(txt) => match read_back(&txt, &Value::Null, nesting) {
                        Err(d) => Err(fail("capi", d, "")),
                        Ok(got) => match doc_diff(model, &got, false) {
                            Some(d) => Err(fail("capi", d, "")),
                            None => Ok(()),
                        },
                    },
                }
            };
            tsrun_value_free(r.value);
            out
        };
        tsrun_free(ctx);
        res
    }
}

fn check_invalid(text: &str) -> Result<(), Exec> {
    let mut sut = start(view::LIB, "/c16lib.ts").map_err(|e| Exec::fail("c16:lib", format!("walker module failed: {}", e)))?;
    let r = sut.call("tryParse", &[js_string(text)]).map_err(|e| Exec::fail("c16:invalid:error", format!("tryParse threw {}", e)))?;
    let r = match &r {
        JsValue::String(s) => s.as_str().to_string(),
        other => format!("{:?}", other),
    };
    if r.starts_with("accepted") {
        return Err(Exec::fail("c16:invalid:accepted", format!("JSON.parse accepted a text that is not JSON: {} ({})", doc::show_str(text), r)));
    }
    if r != "SyntaxError" {
        return Err(Exec::fail("c16:invalid:wrong-error", format!("JSON.parse threw {} instead of SyntaxError for {}", r, doc::show_str(text))));
    }
    // directly from the host: an error, not a value
    match sut.call("parseOnly", &[js_string(text)]) {
        Ok(v) => return Err(Exec::fail("c16:invalid:accepted", format!("JSON.parse (called from the host) returned {:?} for {}", v, doc::show_str(text)))),
        Err(e) => {
            if !e.contains("SyntaxError") {
                return Err(Exec::fail("c16:invalid:wrong-error", format!("host call of JSON.parse failed with {} instead of a SyntaxError", e.chars().take(200).collect::<String>())));
            }
        }
    }
    drop(sut);
    if !text.contains('\0') {
        let c = CString::new(text).unwrap();
        unsafe {
            let ctx = tsrun_new();
            let r = tsrun_json_parse(ctx, c.as_ptr());
            let bad = !r.value.is_null();
            if bad {
                tsrun_value_free(r.value);
            }
            let no_msg = r.error.is_null();
            tsrun_free(ctx);
            if bad {
                return Err(Exec::fail("c16:capi:invalid-accepted", format!("tsrun_json_parse accepted {}", doc::show_str(text))));
            }
            if no_msg {
                return Err(Exec::fail("c16:capi:no-error-message", "tsrun_json_parse returned neither value nor error"));
            }
        }
    }
    Ok(())
}

// ---------------------------------------------------------------------------------------------
// graph checks
// ---------------------------------------------------------------------------------------------
fn node_script(src: &str) -> String {
    let mut s = String::new();
    for line in src.lines() {
        s.push_str(line.strip_prefix("export ").unwrap_or(line));
        s.push('\n');
    }
    s.push_str("s\n");
    s
}

fn export_string(sut: &Sut, name: &str) -> Result<String, String> {
    match api::get_export(&sut.interp, name) {
        Some(JsValue::String(s)) => Ok(s.as_str().to_string()),
        Some(o) => Err(format!("export {} is {:?}", name, o)),
        None => Err(format!("export {} missing", name)),
    }
}

fn check_graph(src: &str, expect: Option<&Doc>, cyclic: bool, indent: &Value, ctx: &mut Ctx) -> Result<Vec<(String, u64)>, Exec> {
    let mut counters = vec![];
    let sut = start(src, "/c16graph.ts").map_err(|e| Exec::fail("c16:graph:program-failed", format!("generated program failed: {}", e)))?;
    let s = export_string(&sut, "s").map_err(|e| Exec::fail("c16:graph:program-failed", e))?;
    let nesting = expect.map(|d| d.depth()).unwrap_or(0);
    let judge = |who: &str, s: &str| -> Result<(), Exec> {
        if cyclic {
            if s != "ETypeError" {
                return Err(Exec::fail(format!("c16:{}:cycle-not-refused", who), format!("JSON.stringify of a cyclic value gave {} instead of throwing TypeError", doc::show_str(s))));
            }
            return Ok(());
        }
        if let Some(e) = s.strip_prefix('E') {
            let class = if e == "TypeError" { "false-cycle-or-type-error" } else { "threw" };
            return Err(Exec::fail(format!("c16:{}:{}", who, class), format!("JSON.stringify of an acyclic value threw {}", e)));
        }
        match expect {
            None => {
                if s != "Uundefined" {
                    return Err(Exec::fail(format!("c16:{}:undefined-root", who), format!("JSON.stringify of undefined / a function / a symbol must return undefined, got {}", doc::show_str(s))));
                }
            }
            Some(exp) => {
                let Some(text) = s.strip_prefix('S') else {
                    return Err(Exec::fail(format!("c16:{}:no-text", who), format!("JSON.stringify returned {} for a serialisable value", doc::show_str(s))));
                };
                let got = read_back(text, indent, nesting).map_err(|d| fail(who, d, ""))?;
                if let Some(d) = doc_diff(exp, &got, false) {
                    return Err(fail(who, d, &format!(" | produced text starts {}", doc::show_str(text))));
                }
            }
        }
        Ok(())
    };
    // the model itself is checked against the reference engine first: a disagreement there is a
    // defect of this harness, reported loudly rather than silently trusted
    if let Some(r) = ctx.node.run_script(&node_script(src)) {
        if let Some(ns) = r["ok"].as_str() {
            counters.push(("node_compared".to_string(), 1));
            if let Err(mut e) = judge("graph-stringify", ns) {
                e.signature = format!("c16:model-disagrees-with-node ({})", e.signature);
                if let crate::core::Verdict::Fail(m) = &e.verdict {
                    e.verdict = crate::core::Verdict::Fail(format!("HARNESS MODEL vs node: {}", m));
                }
                return Err(e);
            }
        } else {
            counters.push(("node_no_result".to_string(), 1));
        }
    }
    judge("graph-stringify", &s)?;
    // (f) exported-value path
    let v = api::get_export(&sut.interp, "v");
    match (v, cyclic) {
        // api::get_export documents None for an export whose value is undefined
        (None, false) if expect.is_none() => {}
        (None, _) => return Err(Exec::fail("c16:export:missing", "export v is not readable through api::get_export")),
        (Some(v), true) => match guarded(|| tsrun::js_value_to_json(&v)) {
            Err(p) => return Err(Exec::fail(format!("c16:export:{}", p), "js_value_to_json panicked on a cyclic value")),
            Ok(Ok(j)) => return Err(Exec::fail("c16:export:cycle-not-refused", format!("js_value_to_json returned {} for a cyclic value", j.to_string().chars().take(120).collect::<String>()))),
            Ok(Err(e)) => {
                if error_class(&e) != "TypeError" {
                    return Err(Exec::fail("c16:export:cycle-wrong-error", format!("js_value_to_json failed with {} instead of TypeError", error_class(&e))));
                }
            }
        },
        (Some(v), false) => {
            let j = tsrun::js_value_to_json(&v).map_err(|e| {
                let class = if error_class(&e) == "TypeError" { "false-cycle-or-type-error" } else { "error" };
                Exec::fail(format!("c16:export:{}", class), format!("js_value_to_json(get_export(v)) failed: {}", e))
            })?;
            // undefined has no JSON form: the host function maps it to null
            let exp = expect.cloned().unwrap_or(Doc::Null);
            if let Some(d) = doc_diff(&exp, &from_serde(&j), false) {
                return Err(fail("export", d, ""));
            }
        }
    }
    if cyclic {
        let after = export_string(&sut, "after").map_err(|e| Exec::fail("c16:cyclic:after", e))?;
        match parse_json(&after) {
            Ok(d) if doc_diff(&parse_json("{\"fine\":[1,{\"two\":2}]}").unwrap(), &d, false).is_none() => {}
            _ => return Err(Exec::fail("c16:cyclic:after", format!("after a refused cyclic value, JSON.stringify of an unrelated value gave {}", doc::show_str(&after)))),
        }
    }
    Ok(counters)
}

// ---------------------------------------------------------------------------------------------
// extremes and the Unicode sweep (parametric cases)
// ---------------------------------------------------------------------------------------------
const EXTREMES: [(&str, u64); 30] = [
    ("deep-array", 100), ("deep-array", 127), ("deep-array", 128), ("deep-array", 200), ("deep-array", 500), ("deep-array", 1000),
    ("deep-object", 100), ("deep-object", 127), ("deep-object", 128), ("deep-object", 300), ("deep-object", 1000),
    ("deep-mixed", 126), ("deep-mixed", 400),
    ("wide-array-numbers", 10_000), ("wide-array-strings", 10_000), ("wide-object", 10_000), ("wide-object-index-keys", 10_000), ("wide-array", 255), ("wide-array", 256), ("wide-array", 257),
    ("long-string", 100_000), ("long-key", 20_000), ("special-keys", 1), ("special-keys-each", 1), ("special-numbers", 1), ("powers-of-two", 1), ("powers-of-ten", 1),
    ("near-2^53", 1), ("duplicate-keys", 1), ("escape-forms", 1),
];

/// (text, model, nesting)
fn build_extreme(shape: &str, n: u64) -> (String, Doc) {
    let n_us = n as usize;
    match shape {
        "deep-array" | "deep-object" | "deep-mixed" => {
            let mut text = String::new();
            let mut closers = String::new();
            for i in 0..n_us {
                let obj = shape == "deep-object" || (shape == "deep-mixed" && i % 2 == 1);
                if obj {
                    text.push_str("{\"k\":");
                    closers.insert(0, '}');
                } else {
                    text.push('[');
                    closers.insert(0, ']');
                }
            }
            text.push_str("\"leaf\"");
            text.push_str(&closers);
            (text.clone(), parse_json(&text).expect("extreme text"))
        }
        "wide-array-numbers" | "wide-array" => {
            let d = Doc::Arr((0..n_us).map(|i| Doc::Num(i as f64 * 0.5 - 7.0)).collect());
            let mut t = String::new();
            doc::to_text_min(&d, &mut t);
            (t, d)
        }
        "wide-array-strings" => {
            let d = Doc::Arr((0..n_us).map(|i| Doc::Str(format!("s{}\n\u{e9}{}", i, char::from_u32(0x1F600 + (i % 50) as u32).unwrap()))).collect());
            let mut t = String::new();
            doc::to_text_min(&d, &mut t);
            (t, d)
        }
        "wide-object" => {
            let d = Doc::Obj((0..n_us).map(|i| (format!("key{}", i), Doc::Num(i as f64))).collect());
            let mut t = String::new();
            doc::to_text_min(&d, &mut t);
            (t, d)
        }
        "wide-object-index-keys" => {
            let d = Doc::Obj((0..n_us).map(|i| (format!("{}", (i * 7919) % 100_003), Doc::Str(format!("v{}", i)))).collect());
            let mut t = String::new();
            doc::to_text_min(&d, &mut t);
            let m = parse_json(&t).unwrap();
            (t, m)
        }
        "long-string" | "long-key" => {
            let mut s = String::new();
            let mut x: u32 = 12345;
            for i in 0..n_us {
                x = x.wrapping_mul(1664525).wrapping_add(1013904223);
                let cp = match i % 7 {
                    0 => x % 0x20,
                    1 => 0x20 + x % 0x5f,
                    2 => 0xA0 + x % 0x700,
                    3 => 0x2028 + x % 2,
                    4 => 0x10000 + x % 0xFFFFF,
                    5 => b'"' as u32,
                    _ => 0xE000 + x % 0x1000,
                };
                s.push(char::from_u32(cp).unwrap_or('x'));
            }
            let d = if shape == "long-key" { Doc::Obj(vec![(s, Doc::Num(1.0))]) } else { Doc::Arr(vec![Doc::Str(s)]) };
            let mut t = String::new();
            doc::to_text_min(&d, &mut t);
            (t, d)
        }
        "special-keys" => {
            let d = Doc::Obj(gen::SPECIAL_KEYS.iter().enumerate().map(|(i, k)| (k.to_string(), Doc::Num(i as f64 + 1.0))).collect());
            let mut t = String::new();
            doc::to_text_min(&d, &mut t);
            (t, d)
        }
        "special-keys-each" => {
            let d = Doc::Arr(gen::SPECIAL_KEYS.iter().map(|k| Doc::Obj(vec![(k.to_string(), Doc::Str(format!("value of {}", k)))])).collect());
            let mut t = String::new();
            doc::to_text_min(&d, &mut t);
            (t, d)
        }
        "special-numbers" => {
            let t = format!("[{}]", gen::SPECIAL_NUMS.join(","));
            let d = parse_json(&t).unwrap();
            (t, d)
        }
        "powers-of-two" => {
            let mut toks = vec![];
            for e in -1074..=1023i32 {
                let x = 2f64.powi(e);
                let mut b = ryu::Buffer::new();
                toks.push(b.format_finite(x).to_string());
                if e > -1000 && e < 1000 {
                    toks.push(format!("{:.30e}", x * (1.0 + f64::EPSILON)));
                    toks.push(format!("-{:.25e}", x * (1.0 - f64::EPSILON / 2.0)));
                }
            }
            let t = format!("[{}]", toks.join(","));
            let d = parse_json(&t).unwrap();
            (t, d)
        }
        "powers-of-ten" => {
            let mut toks = vec![];
            for e in -330..=308i32 {
                toks.push(format!("1e{}", e));
                toks.push(format!("9.999999999999999e{}", e.min(307)));
                toks.push(format!("-123456789012345678e{}", (e - 17).max(-340)));
            }
            let t = format!("[{}]", toks.join(","));
            let d = parse_json(&t).unwrap();
            (t, d)
        }
        "near-2^53" => {
            let mut toks = vec![];
            let base: i64 = 1 << 53;
            for k in -40..=40i64 {
                toks.push(format!("{}", base + k));
                toks.push(format!("{}", -(base + k)));
                toks.push(format!("{}.0", 2 * base + k));
                toks.push(format!("{}.5", base / 2 + k));
                toks.push(format!("{}e1", (4 * base + k) / 10));
            }
            let t = format!("[{}]", toks.join(","));
            let d = parse_json(&t).unwrap();
            (t, d)
        }
        "duplicate-keys" => {
            let t = "{\"a\":1,\"a\":2,\"0\":\"x\",\"0\":\"y\",\"b\":{\"c\":1,\"c\":[1],\"c\":null},\"\":0,\"\":\"last\",\"\\u0061\":3}".to_string();
            let d = parse_json(&t).unwrap();
            (t, d)
        }
        _ => {
            // escape-forms: every short escape, both hex cases, pairs, escaped solidus, raw U+2028/9
            let t = "[\"\\\" \\\\ \\/ \\b \\f \\n \\r \\t\",\"\\u0041\\u00e9\\u00E9\\u2028\\u2029\\ud83d\\ude00\\uD83D\\uDE00\\u0000\\u001f\\u007F\\uffff\",\"/\u{2028}\u{2029}\u{7f}\u{80}\u{feff}\",{\"\\u006b\\n\\\"\":\"\\u0000\"}]".to_string();
            let d = parse_json(&t).unwrap();
            (t, d)
        }
    }
}

const SWEEP_CHUNK: u32 = 2048;
fn sweep_chunks() -> u32 {
    0x110000 / SWEEP_CHUNK
}

fn sweep_string(chunk: u32) -> String {
    (chunk * SWEEP_CHUNK..(chunk + 1) * SWEEP_CHUNK).filter_map(char::from_u32).collect()
}

// ---------------------------------------------------------------------------------------------
// the property
// ---------------------------------------------------------------------------------------------
fn feat_json(f: &Feat) -> (Vec<String>, Value) {
    (f.tags.iter().cloned().collect(), json!(f.excluded))
}

impl Property for C16Prop {
    fn id(&self) -> &'static str {
        "C16"
    }
    fn rule(&self) -> String {
        "Generated from the choice tape, self-contained cases. doc (55%): random JSON trees depth<=6, width<=8 (node budget 60); strings and keys over all Unicode scalar values (ASCII, controls, C1, U+2028/9, BOM, non-characters, astral, uniformly random scalars), rendered with every spelling (raw, short escapes, \\uXXXX in both hex cases, surrogate-pair escapes, escaped solidus; insignificant whitespace); special keys ('', '0', '01', '-0', '1', '2', '4294967295', '4294967294', 'length', '__proto__', 'constructor', 'toString', ...) and duplicate keys; numbers as tokens: small ints, ints to 2^53, shortest spelling of a double drawn from random bits, random decimal digit strings (1..25 digits, exponents to e-330/e300), 18..61-digit expansions of random doubles, exact ties between adjacent doubles and near-ties, -0 spellings; the model value of a token is Rust's str::parse::<f64>. Each doc runs host->script->host, host->script view, host->JSON.stringify(indent), JSON.parse->script view, JSON.parse->JSON.stringify(indent in none|0|2|tab|10|'ab'), JSON.parse->host, and tsrun_json_parse->tsrun_json_stringify. invalid (15%): one defect of 22 kinds planted in a valid text (confirmed invalid by two harness parsers). graph (22%): programs building acyclic values with undefined, functions, symbols, NaN/Infinity/-0, Dates (incl. invalid and 5/6-digit years), Map/Set, wrapper objects, holes, index-like and quoted keys, methods, symbol keys, class instances, inherited and non-enumerable properties, arrays with extra properties, shared sub-objects, toJSON and getters (gated); expected JSON derived by the ES rules. cyclic (8%): self-loop, 2-cycle, through an array, array containing itself, deep, class instance. Fixed cases: 30 parametric extremes (depth 100..1000, width 10^4, 10^5-char string, number families) and a sweep of every Unicode scalar value (544 chunks x value/key x raw/escaped). Non-trivial: nesting depth >= 2, or a string/key needing an escape or containing U+2028/9 or astral characters or spelled with \\u escapes, or a special number (anything but a small plain integer) or special/index-like/duplicate key, or any graph/cyclic/invalid/extreme/sweep case. distinct = distinct case hashes among non-trivial cases.".into()
    }
    fn assumptions(&self) -> Vec<String> {
        vec![
            "Rust's str::parse::<f64> is correctly rounded (oracle for 'numbers keep their value')".into(),
            "the strict JSON parser in harness/src/props/c16/doc.rs (RFC 8259 grammar, duplicate keys: last wins) is the conforming parser for values; serde_json in the harness is a second conforming parser for well-formedness only (nesting < 100), its number conversion is never trusted".into(),
            "the harness must not enable serde_json features (float_roundtrip, arbitrary_precision, preserve_order, unbounded_depth): cargo would unify them into the system under test".into(),
            "expected JSON of a value graph is derived in harness/src/props/c16/graph.rs from the ES SerializeJSONProperty rules and cross-checked against node on every graph case when node is present".into(),
            "sign of zero: inbound paths (JSON.parse, create_from_json) must keep -0 as seen by the script; outbound paths (JSON.stringify, js_value_to_json, tsrun_json_stringify) may drop it (ES prints -0 as 0)".into(),
            "object key order and the layout of indented output are not part of the property; a non-whitespace gap ('ab') is stripped line by line before parsing".into(),
            "lone surrogate escapes, number tokens beyond the double range (1e400) and JSON.parse revivers / JSON.stringify replacers are outside the domain".into(),
        ]
    }
    fn plan(&self, tier: Tier) -> Plan {
        Plan { shards: 16, cases_per_shard: tier.pick(10_000, 200_000), tape_len: 1400, watchdog_s: tier.pick(900, 7200) }
    }
    fn exhaustive_part(&self, _tier: Tier) -> Option<String> {
        Some("every Unicode scalar value occurs as string content and inside a key, raw and \\u-escaped, through the host path and the text path".into())
    }
    fn fixed_cases(&self, ctx: &Ctx) -> Vec<Value> {
        let mut v = vec![];
        let depth_gate = ctx.gates.excluded(GATE_DEPTH);
        let proto_gate = ctx.gates.excluded(GATE_PROTO);
        for (i, (shape, n)) in EXTREMES.iter().enumerate() {
            if i % ctx.nshards != ctx.shard {
                continue;
            }
            let deep = shape.starts_with("deep") && *n >= 128;
            let text_path = !(deep && depth_gate);
            let mut c = json!({"kind": "extreme", "shape": shape, "n": n, "text_path": text_path, "indent": if i % 2 == 0 { "none" } else { "tab" }});
            if !text_path {
                c["excluded"] = json!({GATE_DEPTH: 1});
            }
            if shape.starts_with("special-keys") && proto_gate {
                c["drop_proto"] = json!(true);
                c["excluded"] = json!({GATE_PROTO: 1});
            }
            v.push(c);
        }
        for c in 0..sweep_chunks() {
            if c as usize % ctx.nshards == ctx.shard {
                v.push(json!({"kind": "sweep", "chunk": c}));
            }
        }
        v
    }
    fn generate(&self, tape: &mut Tape, ctx: &Ctx) -> Value {
        let mut f = Feat::new();
        let kind = tape.weighted(&[55, 15, 22, 8]);
        let indent_name = INDENTS[tape.below(INDENTS.len())];
        match kind {
            0 | 1 => {
                let cfg = gen::TreeCfg { max_depth: 6, max_width: 8, budget: 60, proto_excluded: ctx.gates.excluded(GATE_PROTO) };
                let mut budget = if kind == 1 { 12 } else { cfg.budget };
                let depth = tape.range(0, cfg.max_depth as i64) as usize;
                let g = if kind == 1 {
                    // invalid texts are planted into a non-empty container
                    let inner = gen::gen_tree(tape, &cfg, depth.min(3), &mut budget, &mut f);
                    if tape.chance(1, 2) { gen::GDoc::Arr(vec![inner, gen::GDoc::Num("1".into()), gen::GDoc::Str("s".into())]) } else { gen::GDoc::Obj(vec![("k".into(), inner), ("n".into(), gen::GDoc::Num("2".into()))]) }
                } else if depth > 0 && tape.chance(3, 4) {
                    // most documents are containers; bare scalars stay in the mix
                    let n = tape.range(1, cfg.max_width as i64) as usize;
                    if tape.chance(1, 2) {
                        gen::GDoc::Arr((0..n).map(|_| gen::gen_tree(tape, &cfg, depth - 1, &mut budget, &mut f)).collect())
                    } else {
                        let mut v: Vec<(String, gen::GDoc)> = vec![];
                        for _ in 0..n {
                            let key = gen::gen_key(tape, &v, cfg.proto_excluded, &mut f);
                            let val = gen::gen_tree(tape, &cfg, depth - 1, &mut budget, &mut f);
                            v.push((key, val));
                        }
                        gen::GDoc::Obj(v)
                    }
                } else {
                    gen::gen_tree(tape, &cfg, depth, &mut budget, &mut f)
                };
                let model = gen::model_of(&g);
                let sp = gen::Spell { ws: if kind == 1 { 0 } else { tape.weighted(&[3, 2, 2]) } };
                let mut text = String::new();
                gen::render(tape, &g, &sp, &mut text, &mut f);
                // generator self-check: the harness parser reads the rendered text back as the model
                match parse_json(&text) {
                    Ok(d) => assert!(doc_diff(&model, &d, true).is_none(), "C16 generator: rendered text does not denote the model"),
                    Err(e) => panic!("C16 generator rendered an invalid text: {}", e),
                }
                if kind == 1 {
                    let (bad, what) = gen::make_invalid(tape, &text);
                    f.tag(&format!("invalid:{}", what));
                    let (tags, _) = feat_json(&f);
                    return json!({"kind": "invalid", "text": bad, "defect": what, "tags": tags, "nontrivial": true});
                }
                gen::scan_features(&model, &mut f);
                f.tag(&format!("indent:{}", indent_name));
                let depth = model.depth();
                f.tag(&format!("depth:{}", depth.min(6)));
                let nontrivial = depth >= 2 || f.special;
                let (tags, excluded) = feat_json(&f);
                json!({"kind": "doc", "text": text, "model": to_case(&model), "indent": indent_name, "ints_as_int": tape.chance(1, 2),
                       "tags": tags, "excluded": excluded, "nontrivial": nontrivial})
            }
            2 => {
                let indent = indent_of(indent_name);
                let p = graph::gen_acyclic(tape, &ctx.gates, &indent, &mut f);
                f.tag(&format!("indent:{}", indent_name));
                let (tags, excluded) = feat_json(&f);
                json!({"kind": "graph", "src": p.src, "expect": match &p.expect { Some(d) => to_case(d), None => json!({"undefined": true}) },
                       "indent": indent_name, "tags": tags, "excluded": excluded, "nontrivial": true})
            }
            _ => {
                let p = graph::gen_cyclic(tape, &ctx.gates, &mut f);
                let (tags, excluded) = feat_json(&f);
                json!({"kind": "cyclic", "src": p.src, "tags": tags, "excluded": excluded, "nontrivial": true})
            }
        }
    }
    fn execute(&self, case: &Value, ctx: &mut Ctx) -> Exec {
        let tags: Vec<String> = case["tags"].as_array().map(|a| a.iter().filter_map(|x| x.as_str().map(|s| s.to_string())).collect()).unwrap_or_default();
        let mut counters: Vec<(String, u64)> = vec![];
        if let Some(m) = case["excluded"].as_object() {
            for (k, v) in m {
                counters.push((format!("excluded:{}", k), v.as_u64().unwrap_or(0)));
            }
        }
        let kind = case["kind"].as_str().unwrap_or("");
        counters.push((format!("kind:{}", kind), 1));
        let nontrivial = case["nontrivial"].as_bool().unwrap_or(true);
        let res: Result<(), Exec> = match kind {
            "doc" => {
                let text = case["text"].as_str().unwrap_or("");
                let model = match case.get("model").and_then(from_case) {
                    Some(m) => Ok(m),
                    None => parse_json(text).map_err(|e| Exec::discard(format!("case text is not valid JSON: {}", e))),
                };
                match model {
                    Err(e) => Err(e),
                    Ok(model) => {
                        let indent = indent_of(case["indent"].as_str().unwrap_or("none"));
                        let o = DocOpts {
                            host_path: case["host_path"].as_bool().unwrap_or(true),
                            text_path: case["text_path"].as_bool().unwrap_or(true),
                            capi: case["capi"].as_bool().unwrap_or(true),
                            ints_as_int: case["ints_as_int"].as_bool().unwrap_or(false),
                        };
                        check_doc(text, &model, &indent, &o)
                    }
                }
            }
            "invalid" => check_invalid(case["text"].as_str().unwrap_or("")),
            "graph" | "cyclic" => {
                let cyclic = kind == "cyclic";
                // handwritten cases may give the expectation as JSON text instead of the tagged model
                let expect = match case.get("expect_text").and_then(|t| t.as_str()) {
                    Some(t) => parse_json(t).ok(),
                    None => case.get("expect").and_then(|e| if e.get("undefined").is_some() { None } else { from_case(e) }),
                };
                let indent = indent_of(case["indent"].as_str().unwrap_or("none"));
                match check_graph(case["src"].as_str().unwrap_or(""), expect.as_ref(), cyclic, &indent, ctx) {
                    Ok(c) => {
                        counters.extend(c);
                        Ok(())
                    }
                    Err(e) => Err(e),
                }
            }
            "extreme" => {
                let shape = case["shape"].as_str().unwrap_or("");
                let (mut text, mut model) = build_extreme(shape, case["n"].as_u64().unwrap_or(1));
                if case["drop_proto"].as_bool().unwrap_or(false) {
                    fn strip(d: &Doc) -> Doc {
                        match d {
                            Doc::Arr(a) => Doc::Arr(a.iter().map(strip).filter(|x| !matches!(x, Doc::Obj(o) if o.is_empty())).collect()),
                            Doc::Obj(o) => Doc::Obj(o.iter().filter(|(k, _)| k != "__proto__").map(|(k, v)| (k.clone(), strip(v))).collect()),
                            other => other.clone(),
                        }
                    }
                    model = strip(&model);
                    text.clear();
                    doc::to_text_min(&model, &mut text);
                }
                let indent = indent_of(case["indent"].as_str().unwrap_or("none"));
                let o = DocOpts { host_path: true, text_path: case["text_path"].as_bool().unwrap_or(true), capi: true, ints_as_int: case["n"].as_u64().unwrap_or(0) % 2 == 0 };
                check_doc(&text, &model, &indent, &o)
            }
            "sweep" => {
                let chunk = case["chunk"].as_u64().unwrap_or(0) as u32;
                let s = sweep_string(chunk);
                if s.is_empty() {
                    Ok(()) // the surrogate block has no scalar values
                } else {
                    let model = Doc::Obj(vec![("v".into(), Doc::Str(s.clone())), (format!("k{}", s), Doc::Num(1.0))]);
                    let mut raw = String::new();
                    doc::to_text_min(&model, &mut raw);
                    let mut esc = String::from("{\"v\":");
                    doc::str_all_escaped(&s, chunk % 2 == 0, &mut esc);
                    esc.push_str(",\"k");
                    let mut k = String::new();
                    doc::str_all_escaped(&s, chunk % 2 == 1, &mut k);
                    esc.push_str(&k[1..]);
                    esc.push_str(":1}");
                    let o1 = DocOpts { host_path: true, text_path: true, capi: true, ints_as_int: true };
                    let o2 = DocOpts { host_path: false, text_path: true, capi: true, ints_as_int: true };
                    check_doc(&raw, &model, &Value::Null, &o1).and_then(|_| check_doc(&esc, &model, &json!(2), &o2))
                }
            }
            other => Err(Exec::discard(format!("unknown case kind {}", other))),
        };
        let mut ex = match res {
            Ok(()) => Exec::pass(nontrivial),
            Err(e) => e,
        };
        ex.tags = tags;
        ex.counters.extend(counters);
        ex
    }
}
