//! C15 — numbers convert to and from text and integers exactly as specified.
//!
//! Oracle: the reference model in numref.rs (ryu + `{:e}` shortest digits laid out by the ES
//! Number::toString rules; exact BigUint arithmetic for toFixed/toPrecision/toExponential/radix
//! and for verifying correctly rounded text->double; exact modulo for ToInt32/ToUint32).
//! Observed: the Rust entry points tsrun::value::{number_to_string,string_to_number} and the
//! in-program paths (String, template, concatenation, toString, JSON.stringify, property keys,
//! console.log, bitwise operators, toFixed/toPrecision/toExponential/toString(radix), Number(),
//! unary +, *1, parseFloat, ==, numeric literals in source text), batched per program.

use super::c15gen as gen;
use super::c15js as js;
use super::numref as nr;
use crate::core::{guarded, Ctx, Exec, Plan, Property, Tier};
use crate::engine::{run_simple, RunOpts};
use crate::tape::{fnv64, Tape};
use serde_json::{json, Value};
use std::collections::BTreeMap;

pub struct C15Prop;
pub static C15: C15Prop = C15Prop;

/// Gate names of possible open findings; a generator never emits a (value, op) shape whose gate is
/// open. See `gen::gate_of`.
pub const GATES: &[&str] = gen::GATES;

// ---------------------------------------------------------------------------------------------
// expectations
// ---------------------------------------------------------------------------------------------

/// "s,e,hi,lo" exactly as the in-program B(x) prints it
pub fn bits_string(x: f64) -> String {
    if x.is_nan() {
        return "nan".into();
    }
    let s = if x.is_sign_negative() { 1 } else { 0 };
    if x == 0.0 {
        return format!("{},0,0,0", s);
    }
    if x.is_infinite() {
        return format!("{},inf", s);
    }
    let (_, m, e) = nr::decompose(x);
    format!("{},{},{},{}", s, e, m >> 32, m & 0xffff_ffff)
}

pub enum Expect {
    Text(String),
    /// either of two texts (console.log(-0) may print "-0" or "0")
    Either(String, String),
    /// toString(radix) where the specification leaves the digits approximated
    RadixPredicate(u32),
    /// the reference sources disagree: counted, never a verdict
    OracleTrouble(String),
}

fn arg_of(op: &str) -> u32 {
    op[1..].parse::<u32>().unwrap_or(0)
}

fn lift(r: Result<String, String>) -> Expect {
    match r {
        Ok(s) => Expect::Text(s),
        Err(e) => Expect::OracleTrouble(e),
    }
}

/// Expected output of an in-program op on x
pub fn expect_num_op(x: f64, op: &str) -> Expect {
    let c = op.as_bytes()[0];
    let a = arg_of(op);
    let nonfinite_text = || lift(nr::es_to_string(x));
    match c {
        b'b' => Expect::Text(bits_string(x)),
        b'S' | b'T' | b'C' | b'N' | b'K' => lift(nr::es_to_string(x)),
        b'O' => {
            if x == 0.0 && x.is_sign_negative() {
                Expect::Either("0".into(), "-0".into())
            } else {
                lift(nr::es_to_string(x))
            }
        }
        b'J' => {
            if x.is_finite() {
                lift(nr::es_to_string(x))
            } else {
                Expect::Text("null".into())
            }
        }
        b'I' | b'A' | b'X' => Expect::Text(nr::to_int32(x).to_string()),
        b'U' => Expect::Text(nr::to_uint32(x).to_string()),
        b'W' => Expect::Text((!nr::to_int32(x)).to_string()),
        b'L' => Expect::Text(nr::to_int32(x).wrapping_shl(a & 31).to_string()),
        b'R' => Expect::Text((nr::to_int32(x) >> (a & 31)).to_string()),
        b'Z' => Expect::Text((nr::to_uint32(x) >> (a & 31)).to_string()),
        b'H' => Expect::Text(1i32.wrapping_shl(nr::to_uint32(x) & 31).to_string()),
        b'F' => {
            if a > 100 {
                Expect::Text("!RangeError".into())
            } else {
                lift(nr::to_fixed(x, a))
            }
        }
        b'P' => {
            if !x.is_finite() {
                nonfinite_text()
            } else if !(1..=100).contains(&a) {
                Expect::Text("!RangeError".into())
            } else {
                lift(nr::to_precision(x, a))
            }
        }
        b'E' => {
            if !x.is_finite() {
                nonfinite_text()
            } else if a > 100 {
                Expect::Text("!RangeError".into())
            } else {
                lift(nr::to_exponential(x, Some(a)))
            }
        }
        b'e' => lift(nr::to_exponential(x, None)),
        b'G' => {
            if !(2..=36).contains(&a) {
                Expect::Text("!RangeError".into())
            } else if a == 10 {
                lift(nr::es_to_string(x))
            } else {
                // integers below 2^53 and everything in power-of-two radices: exact digits;
                // other radices: fractions and integers >= 2^53 by the validity predicate
                let exact_zone = !x.is_finite() || a.is_power_of_two() || (nr::is_integer(x) && x.abs() < 9007199254740992.0);
                match nr::radix_exact(x, a) {
                    Some(s) if exact_zone => Expect::Text(s),
                    _ => Expect::RadixPredicate(a),
                }
            }
        }
        b'V' | b'Y' | b'D' => {
            // through text and back: -0 prints as "0" and therefore reads back as +0
            let y = if x == 0.0 { 0.0 } else { x };
            Expect::Text(bits_string(y))
        }
        _ => Expect::OracleTrouble(format!("unknown op {}", op)),
    }
}

pub fn op_class(op: &str) -> &'static str {
    match op.as_bytes()[0] {
        b'b' => "transfer",
        b'S' | b'T' | b'C' | b'N' | b'K' => "toString-paths",
        b'J' => "JSON.stringify",
        b'O' => "console.log",
        b'I' | b'U' | b'W' | b'A' | b'X' | b'L' | b'R' | b'Z' | b'H' => "toInt32",
        b'F' => "toFixed",
        b'P' => "toPrecision",
        b'E' | b'e' => "toExponential",
        b'G' => "toString-radix",
        b'V' | b'Y' | b'D' => "roundtrip-in-program",
        b'r' => match op {
            "rs" => "number_to_string",
            "rr" => "roundtrip",
            _ => "string_to_number",
        },
        _ => "other",
    }
}

pub fn op_js(op: &str) -> String {
    let a = if op.len() > 1 { &op[1..] } else { "" };
    match op.as_bytes()[0] {
        b'b' => "bits(x)".into(),
        b'S' => "String(x)".into(),
        b'T' => "`${x}`".into(),
        b'C' => "\"\"+x".into(),
        b'N' => "x.toString()".into(),
        b'K' => "Object.keys({[x]:1})[0]".into(),
        b'J' => "JSON.stringify(x)".into(),
        b'O' => "console.log(x)".into(),
        b'I' => "x|0".into(),
        b'U' => "x>>>0".into(),
        b'W' => "~x".into(),
        b'A' => "x&-1".into(),
        b'X' => "x^0".into(),
        b'L' => format!("x<<{}", a),
        b'R' => format!("x>>{}", a),
        b'Z' => format!("x>>>{}", a),
        b'H' => "1<<x".into(),
        b'F' => format!("x.toFixed({})", a),
        b'P' => format!("x.toPrecision({})", a),
        b'E' => format!("x.toExponential({})", a),
        b'e' => "x.toExponential()".into(),
        b'G' => format!("x.toString({})", a),
        b'V' => "bits(Number(String(x)))".into(),
        b'Y' => "bits(+(\"\"+x))".into(),
        b'D' => "bits(parseFloat(String(x)))".into(),
        _ => match op {
            "rs" => "tsrun::value::number_to_string(x)".into(),
            "rr" => "string_to_number(number_to_string(x))".into(),
            "rp" => "tsrun::value::string_to_number(<reference text of x>)".into(),
            _ => op.into(),
        },
    }
}

fn trivial_number(x: f64) -> bool {
    nr::is_integer(x) && x.abs() < 1048576.0
}

// ---------------------------------------------------------------------------------------------
// running programs
// ---------------------------------------------------------------------------------------------

fn run_prog(src: &str) -> (bool, Vec<String>, String) {
    let opts = RunOpts { step_budget: u64::MAX / 4, vm_limit_per_step: 0, ..RunOpts::default() };
    let out = run_simple(src, &opts);
    let done = out.end.starts_with("complete:") || out.end == "done";
    let end = if out.err_text.is_empty() { out.end.clone() } else { format!("{} {}", out.end, out.err_text) };
    (done, out.log, end)
}

/// "=<idx>|f1|f2.." lines -> idx -> (fields, raw lines printed before it)
fn parse_lines(log: &[String]) -> BTreeMap<String, (Vec<String>, Vec<String>)> {
    let mut m = BTreeMap::new();
    let mut raw: Vec<String> = vec![];
    for l in log {
        if let Some(rest) = l.strip_prefix('=') {
            let mut it = rest.split('|');
            let idx = it.next().unwrap_or("").to_string();
            let fields: Vec<String> = it.map(|s| s.to_string()).collect();
            m.insert(idx, (fields, std::mem::take(&mut raw)));
        } else {
            raw.push(l.clone());
        }
    }
    m
}

#[derive(Clone, Debug)]
pub struct Failure {
    pub sig: String,
    pub msg: String,
    pub repro: Value,
}

#[derive(Default)]
pub struct Tally {
    pub evals: u64,
    pub nontrivial: u64,
    pub classes: BTreeMap<String, u64>,
    pub oracle_trouble: u64,
    pub unjudged: BTreeMap<String, u64>,
    pub failures: Vec<Failure>,
    pub failing: u64,
}
impl Tally {
    fn note(&mut self, class: &str, nontrivial: bool) {
        self.evals += 1;
        if nontrivial {
            self.nontrivial += 1;
        }
        *self.classes.entry(format!("evals:{}", class)).or_insert(0) += 1;
    }
    fn fail(&mut self, f: Failure) {
        self.failing += 1;
        if self.failures.len() < 4 {
            self.failures.push(f);
        }
    }
    pub fn into_exec(self, observed: Value) -> Exec {
        let mut ex = match self.failures.first() {
            Some(f) => {
                let mut e = Exec::fail(f.sig.clone(), format!("{} ({} failing evaluations in this case)", f.msg, self.failing));
                e.repro = Some(f.repro.clone());
                e
            }
            None => Exec::pass(self.nontrivial > 0),
        };
        ex.evals = self.evals.max(1);
        ex.nontrivial = if ex.evals == 1 { self.nontrivial.min(1) } else { self.nontrivial };
        ex.counters = self.classes.into_iter().collect();
        if self.oracle_trouble > 0 {
            ex.counters.push(("oracle_trouble_unjudged".into(), self.oracle_trouble));
        }
        for (k, n) in self.unjudged {
            ex.counters.push((format!("unjudged:{}", k), n));
        }
        ex.observed = observed;
        ex
    }
}

// ---------------------------------------------------------------------------------------------
// number blocks
// ---------------------------------------------------------------------------------------------

#[derive(Clone, Debug)]
pub struct NumItem {
    pub bits: u64,
    pub ops: Vec<String>,
}

pub fn parse_data(data: &str) -> Vec<NumItem> {
    data.split(',')
        .filter(|s| !s.is_empty())
        .filter_map(|it| {
            let mut f = it.split(';');
            let bits = u64::from_str_radix(f.next()?, 16).ok()?;
            Some(NumItem { bits, ops: f.filter(|s| !s.is_empty()).map(|s| s.to_string()).collect() })
        })
        .collect()
}

pub fn render_data(items: &[NumItem]) -> String {
    items.iter().map(|it| format!("{:016x};{}", it.bits, it.ops.join(";"))).collect::<Vec<_>>().join(",")
}

fn value_repro(bits: u64, op: &str) -> Value {
    json!({"kind": "value", "bits": format!("{:#018x}", bits), "op": op, "js": op_js(op), "value": crate::engine::fmt_f64(f64::from_bits(bits))})
}

fn judge_num(t: &mut Tally, bits: u64, op: &str, got: &str) {
    let x = f64::from_bits(bits);
    let class = op_class(op);
    let ok = match expect_num_op(x, op) {
        Expect::Text(w) => {
            if got == w {
                Ok(())
            } else {
                Err(format!("expected {:?}", w))
            }
        }
        Expect::Either(a, b) => {
            if got == a || got == b {
                Ok(())
            } else {
                Err(format!("expected {:?}", a))
            }
        }
        Expect::RadixPredicate(r) => nr::radix_valid(x, r, got).map_err(|e| format!("validity predicate (digits read exactly in radix {} must round to the same double, well-formed): {}", r, e)),
        Expect::OracleTrouble(_) => {
            t.oracle_trouble += 1;
            return;
        }
    };
    t.note(class, !trivial_number(x));
    if let Err(why) = ok {
        let shown: String = got.chars().take(160).collect();
        t.fail(Failure {
            sig: format!("c15:{}", class),
            msg: format!("x = {} (bits {:#018x}): {} gave {:?}, {}", crate::engine::fmt_f64(x), bits, op_js(op), shown, why),
            repro: value_repro(bits, op),
        });
    }
}

fn rust_ops(t: &mut Tally, it: &NumItem) {
    let x = f64::from_bits(it.bits);
    for op in it.ops.iter().filter(|o| o.starts_with('r')) {
        let class = op_class(op);
        let reference = match nr::es_to_string(x) {
            Ok(s) => s,
            Err(_) => {
                t.oracle_trouble += 1;
                continue;
            }
        };
        let same = |a: f64, b: f64| (a.is_nan() && b.is_nan()) || a.to_bits() == b.to_bits();
        // text and back loses the sign of zero by specification
        let back_want = if x == 0.0 { 0.0 } else { x };
        let res: Result<Result<(), String>, String> = guarded(|| match op.as_str() {
            "rs" => {
                let got = tsrun::value::number_to_string(x);
                if got == reference {
                    Ok(())
                } else {
                    Err(format!("gave {:?}, expected {:?}", got, reference))
                }
            }
            "rr" => {
                let s = tsrun::value::number_to_string(x);
                let y = tsrun::value::string_to_number(&s);
                if same(y, back_want) {
                    Ok(())
                } else {
                    Err(format!("printed {:?} which reads back as {} ({:#018x})", s, crate::engine::fmt_f64(y), y.to_bits()))
                }
            }
            _ => {
                let y = tsrun::value::string_to_number(&reference);
                if same(y, back_want) {
                    Ok(())
                } else {
                    Err(format!("string_to_number({:?}) = {} ({:#018x})", reference, crate::engine::fmt_f64(y), y.to_bits()))
                }
            }
        });
        t.note(class, !trivial_number(x));
        let bad = match res {
            Ok(Ok(())) => None,
            Ok(Err(m)) => Some(m),
            Err(p) => Some(p),
        };
        if let Some(m) = bad {
            t.fail(Failure { sig: format!("c15:{}", class), msg: format!("x = {} (bits {:#018x}): {} {}", crate::engine::fmt_f64(x), it.bits, op_js(op), m), repro: value_repro(it.bits, op) });
        }
    }
}

fn prog_ops(it: &NumItem) -> Vec<String> {
    it.ops.iter().filter(|o| !o.starts_with('r')).cloned().collect()
}

/// run the in-program ops of `items` in one program; Err(end) when the program did not complete
/// or its output is malformed
fn run_num_items(items: &[NumItem]) -> Result<Vec<Vec<String>>, String> {
    let with: Vec<NumItem> = items.iter().map(|it| NumItem { bits: it.bits, ops: prog_ops(it) }).collect();
    let (done, log, end) = run_prog(&js::number_program(&render_data(&with)));
    if !done {
        return Err(end);
    }
    let mut lines = parse_lines(&log);
    let mut out = vec![];
    for (i, it) in with.iter().enumerate() {
        let Some((mut fields, raw)) = lines.remove(&i.to_string()) else {
            return Err(format!("no output line for item {}", i));
        };
        if fields.len() != it.ops.len() {
            return Err(format!("item {}: {} fields for {} ops", i, fields.len(), it.ops.len()));
        }
        let mut r = raw.into_iter();
        for (f, op) in fields.iter_mut().zip(it.ops.iter()) {
            if op == "O" {
                *f = r.next().unwrap_or_else(|| "<no console line>".into());
            }
        }
        out.push(fields);
    }
    Ok(out)
}

pub fn exec_num_block(items: &[NumItem], ctx: &mut Ctx, node_sample: bool) -> Tally {
    let mut t = Tally::default();
    for it in items {
        rust_ops(&mut t, it);
    }
    let progs: Vec<&NumItem> = items.iter().filter(|it| !prog_ops(it).is_empty()).collect();
    if progs.is_empty() {
        return t;
    }
    let owned: Vec<NumItem> = progs.iter().map(|x| (*x).clone()).collect();
    match run_num_items(&owned) {
        Ok(results) => {
            for (it, fields) in owned.iter().zip(results.iter()) {
                for (op, got) in prog_ops(it).iter().zip(fields.iter()) {
                    judge_num(&mut t, it.bits, op, got);
                }
            }
        }
        Err(_) => {
            // find the culprit: one program per item, then one per op
            for it in &owned {
                match run_num_items(std::slice::from_ref(it)) {
                    Ok(results) => {
                        for (op, got) in prog_ops(it).iter().zip(results[0].iter()) {
                            judge_num(&mut t, it.bits, op, got);
                        }
                    }
                    Err(_) => {
                        for op in prog_ops(it) {
                            let one = NumItem { bits: it.bits, ops: vec![op.clone()] };
                            match run_num_items(std::slice::from_ref(&one)) {
                                Ok(r) => judge_num(&mut t, it.bits, &op, &r[0][0]),
                                Err(end) => {
                                    t.note(op_class(&op), true);
                                    let endc: String = end.chars().take(200).collect();
                                    t.fail(Failure {
                                        sig: format!("c15:{}:program-did-not-complete", op_class(&op)),
                                        msg: format!("x = {} (bits {:#018x}): program evaluating {} ended with {}", crate::engine::fmt_f64(f64::from_bits(it.bits)), it.bits, op_js(&op), endc),
                                        repro: value_repro(it.bits, &op),
                                    });
                                }
                            }
                        }
                    }
                }
            }
        }
    }
    // node as an additional oracle on samples: it must agree with the reference wherever the
    // reference demands exact text (it validates the reference, never tsrun)
    if node_sample && t.failures.is_empty() {
        let with: Vec<NumItem> = owned.iter().map(|it| NumItem { bits: it.bits, ops: prog_ops(it) }).collect();
        if let Some(rep) = ctx.node.run_script(&js::number_program(&render_data(&with))) {
            let log: Vec<String> = rep["log"].as_array().map(|a| a.iter().filter_map(|s| s.as_str().map(|x| x.to_string())).collect()).unwrap_or_default();
            let mut lines = parse_lines(&log);
            let (mut agree, mut differ) = (0u64, 0u64);
            let mut first = String::new();
            for (i, it) in with.iter().enumerate() {
                let Some((fields, _)) = lines.remove(&i.to_string()) else { continue };
                for (op, got) in it.ops.iter().zip(fields.iter()) {
                    if op == "O" {
                        continue;
                    }
                    if let Expect::Text(w) = expect_num_op(f64::from_bits(it.bits), op) {
                        if *got == w {
                            agree += 1;
                        } else {
                            differ += 1;
                            if first.is_empty() {
                                first = format!("{:#018x} {} node={:?} reference={:?}", it.bits, op_js(op), got, w);
                            }
                        }
                    }
                }
            }
            *t.classes.entry("node_agrees_with_reference".into()).or_insert(0) += agree;
            if differ > 0 {
                *t.classes.entry("node_DISAGREES_with_reference".into()).or_insert(0) += differ;
                eprintln!("C15 note: node disagrees with the reference: {}", first);
            }
        }
    }
    t
}

// ---------------------------------------------------------------------------------------------
// string blocks
// ---------------------------------------------------------------------------------------------

/// ops: r = tsrun::value::string_to_number, n = Number(s), p = +s, m = s*1, f = parseFloat(s),
/// g = Number.parseFloat(s), i = parseInt(s), h = parseInt(s,16), j = Number.parseInt(s),
/// z = parseInt(s,36), q = (s == expected), l = literal in source text, u = negated literal
pub const PROG_STR_OPS: &str = "npmfqgihjz";
#[derive(Clone, Debug)]
pub struct StrItem {
    pub s: String,
    pub ops: String,
}

fn str_class(c: char) -> &'static str {
    match c {
        'r' => "string_to_number",
        'n' | 'p' | 'm' => "Number(string)",
        'f' | 'g' => "parseFloat",
        'i' | 'h' | 'j' | 'z' => "parseInt",
        'q' => "loose-equality",
        _ => "literal",
    }
}
fn str_js(c: char) -> &'static str {
    match c {
        'r' => "tsrun::value::string_to_number(s)",
        'n' => "Number(s)",
        'p' => "+s",
        'm' => "s*1",
        'f' => "parseFloat(s)",
        'g' => "Number.parseFloat(s)",
        'i' => "parseInt(s)",
        'h' => "parseInt(s, 16)",
        'j' => "Number.parseInt(s)",
        'z' => "parseInt(s, 36)",
        'q' => "s == <correctly rounded value of s>",
        'l' => "the text s as a numeric literal in source",
        _ => "-(the text s as a numeric literal in source)",
    }
}

fn trivial_string(s: &str) -> bool {
    s.len() <= 7 && s.bytes().all(|c| c.is_ascii_digit())
}

fn string_repro(s: &str, c: char) -> Value {
    json!({"kind": "string", "s": s, "op": c.to_string(), "js": str_js(c)})
}

fn judge_str(t: &mut Tally, s: &str, c: char, got: &str) {
    let want: Result<String, String> = match c {
        'n' | 'p' | 'm' | 'r' => nr::es_string_to_number(s).map(bits_string),
        'f' | 'g' => nr::es_parse_float(s).map(bits_string),
        'i' | 'j' | 'h' | 'z' => match nr::es_parse_int(s, if c == 'h' { 16 } else if c == 'z' { 36 } else { 0 }) {
            Ok(Some(v)) => Ok(bits_string(v)),
            Ok(None) => {
                *t.unjudged.entry("parseInt-radix36-beyond-2^53-approximation-allowed".into()).or_insert(0) += 1;
                return;
            }
            Err(e) => Err(e),
        },
        'q' => nr::es_string_to_number(s).map(|v| if v.is_nan() { "false".to_string() } else { "true".to_string() }),
        'l' => match nr::es_numeric_literal(s) {
            Ok(Some(v)) => Ok(bits_string(v)),
            Ok(None) => Err("not a literal".into()),
            Err(e) => Err(e),
        },
        _ => match nr::es_numeric_literal(s) {
            Ok(Some(v)) => Ok(bits_string(-v)),
            Ok(None) => Err("not a literal".into()),
            Err(e) => Err(e),
        },
    };
    let want = match want {
        Ok(w) => w,
        Err(e) => {
            t.oracle_trouble += 1;
            eprintln!("C15 note: reference trouble on text {:?} op {}: {}", s.chars().take(80).collect::<String>(), c, e.chars().take(200).collect::<String>());
            return;
        }
    };
    t.note(str_class(c), !trivial_string(s));
    if got != want {
        let shown: String = s.chars().take(120).collect();
        t.fail(Failure {
            sig: format!("c15:{}", str_class(c)),
            msg: format!("s = {:?}{}: {} gave bits {} expected {} (s,e,hi,lo with value = (hi*2^32+lo)*2^e)", shown, if s.len() > 120 { format!("… [{} bytes]", s.len()) } else { String::new() }, str_js(c), got, want),
            repro: string_repro(s, c),
        });
    }
}

fn run_str_items(items: &[StrItem]) -> Result<(Vec<Vec<String>>, Vec<BTreeMap<char, String>>), String> {
    let mut prog_items = vec![];
    let mut lits = vec![];
    for (i, it) in items.iter().enumerate() {
        let ops: String = it.ops.chars().filter(|c| PROG_STR_OPS.contains(*c)).collect();
        if !ops.is_empty() {
            let y = nr::es_string_to_number(&it.s).unwrap_or(f64::NAN);
            prog_items.push((i, it.s.clone(), ops, format!("{:016x}", y.to_bits())));
        }
        if it.ops.contains('l') {
            lits.push((i * 2, it.s.clone(), false));
        }
        if it.ops.contains('u') {
            lits.push((i * 2 + 1, it.s.clone(), true));
        }
    }
    if prog_items.is_empty() && lits.is_empty() {
        return Ok((vec![vec![]; items.len()], vec![BTreeMap::new(); items.len()]));
    }
    let (done, log, end) = run_prog(&js::string_program(&prog_items, &lits));
    if !done {
        return Err(end);
    }
    let mut lines = parse_lines(&log);
    let mut fields_out = vec![vec![]; items.len()];
    let mut lit_out = vec![BTreeMap::new(); items.len()];
    for (i, _, ops, _) in &prog_items {
        let Some((fields, _)) = lines.remove(&i.to_string()) else {
            return Err(format!("no output line for item {}", i));
        };
        if fields.len() != ops.len() {
            return Err(format!("item {}: {} fields for {} ops", i, fields.len(), ops.len()));
        }
        fields_out[*i] = fields;
    }
    for (k, _, neg) in &lits {
        let Some((fields, _)) = lines.remove(&format!("L{}", k)) else {
            return Err(format!("no output line for literal {}", k));
        };
        lit_out[k / 2].insert(if *neg { 'u' } else { 'l' }, fields.first().cloned().unwrap_or_default());
    }
    Ok((fields_out, lit_out))
}

fn judge_str_item(t: &mut Tally, it: &StrItem, fields: &[String], lits: &BTreeMap<char, String>) {
    let ops: Vec<char> = it.ops.chars().filter(|c| PROG_STR_OPS.contains(*c)).collect();
    for (c, got) in ops.iter().zip(fields.iter()) {
        judge_str(t, &it.s, *c, got);
    }
    for (c, got) in lits {
        judge_str(t, &it.s, *c, got);
    }
}

pub fn exec_str_block(items: &[StrItem]) -> Tally {
    let mut t = Tally::default();
    for it in items {
        if it.ops.contains('r') {
            let s = it.s.clone();
            match guarded(|| tsrun::value::string_to_number(&s)) {
                Ok(v) => judge_str(&mut t, &it.s, 'r', &bits_string(v)),
                Err(p) => {
                    t.note("string_to_number", true);
                    t.fail(Failure { sig: format!("c15:string_to_number:{}", p.chars().take(60).collect::<String>()), msg: format!("string_to_number({:?}) panicked: {}", it.s.chars().take(120).collect::<String>(), p), repro: string_repro(&it.s, 'r') });
                }
            }
        }
    }
    match run_str_items(items) {
        Ok((fields, lits)) => {
            for (i, it) in items.iter().enumerate() {
                judge_str_item(&mut t, it, &fields[i], &lits[i]);
            }
        }
        Err(_) => {
            for it in items {
                match run_str_items(std::slice::from_ref(it)) {
                    Ok((fields, lits)) => judge_str_item(&mut t, it, &fields[0], &lits[0]),
                    Err(_) => {
                        for c in it.ops.chars().filter(|c| *c != 'r') {
                            let one = StrItem { s: it.s.clone(), ops: c.to_string() };
                            match run_str_items(std::slice::from_ref(&one)) {
                                Ok((fields, lits)) => judge_str_item(&mut t, &one, &fields[0], &lits[0]),
                                Err(end) => {
                                    t.note(str_class(c), true);
                                    let endc: String = end.chars().take(200).collect();
                                    t.fail(Failure {
                                        sig: format!("c15:{}:program-did-not-complete", str_class(c)),
                                        msg: format!("s = {:?}: program evaluating {} ended with {}", it.s.chars().take(120).collect::<String>(), str_js(c), endc),
                                        repro: string_repro(&it.s, c),
                                    });
                                }
                            }
                        }
                    }
                }
            }
        }
    }
    t
}

// ---------------------------------------------------------------------------------------------
// the property
// ---------------------------------------------------------------------------------------------

/// the reference checks itself once per process
fn self_tests() -> Result<(), String> {
    static ONCE: std::sync::OnceLock<Result<(), String>> = std::sync::OnceLock::new();
    ONCE.get_or_init(|| {
        super::bigint::self_test()?;
        nr::self_test()
    })
    .clone()
}

fn excluded_of(case: &Value) -> Vec<String> {
    case["gates"].as_array().map(|a| a.iter().filter_map(|s| s.as_str().map(|x| x.to_string())).collect()).unwrap_or_default()
}

impl Property for C15Prop {
    fn id(&self) -> &'static str {
        "C15"
    }
    fn rule(&self) -> String {
        "One evaluation = one (input, conversion) pair judged against the reference model: input is a double bit pattern (or a text), conversion is one of number_to_string / string_to_number / round trip at the Rust API, or an in-program path (String, template, concatenation, toString(), JSON.stringify, property key, console.log, |0 >>>0 ~ & ^ << >> >>> 1<<x, toFixed(d), toPrecision(p), toExponential(d|none), toString(radix), Number(s), +s, s*1, parseFloat(s), s==v, numeric literal in source). Exhaustive part (fixed_cases): 2^e for every e in -1074..=1023 and 10^e for every e in -323..=308 with their ±1,±2 ulp neighbours; every biased exponent 0..=2046 x mantissas {0,1,2^51,2^52-1,0xAAAAAAAAAAAAA,0x5555555555555}; all subnormals with <= 2 set bits; integers within ±64 (and ±64 ulp above 2^53) of 2^31, 2^32, 2^53, 10^21 plus k±1/2 near 2^31/2^32; dyadic rounding ties m/2^j and k*10^-d with ±1 ulp; all digit/radix arguments (toFixed 0..100, toPrecision 1..100, toExponential 0..100, radix 2..36) on a fixed value list; enumerated text families (grammar forms x signs x white space, invalid forms, 0x/0o/0b up to 80 digits incl. ties, exact binary midpoints as decimal texts up to 770 digits: tie, just above, just below). Random part (tape): uniform 64-bit patterns mixed with short decimals, integers up to 80 bits, human-range exponents and values near multiples of 2^31/2^32; texts of up to 800 digits with exponents to ±400, perturbed binary midpoints, radix-prefixed integers up to 100 digits, numeric separators (literals), white space. Non-trivial: the input number is not an integer below 2^20 (texts: not a plain digit string of <= 7 characters); within a block inputs are de-duplicated, so distinct_nontrivial counts distinct (input, conversion) pairs. Shapes excluded by an open known finding are counted under excluded:<gate>.".into()
    }
    fn assumptions(&self) -> Vec<String> {
        vec![
            "reference model harness/src/props/numref.rs written from ECMA-262 (Number::toString, StringToNumber, NumericLiteral MV, ToInt32/ToUint32, toFixed/toExponential/toPrecision); self-tested against 90 hand-checked facts at the start of every case batch".into(),
            "shortest round-trip digits: crate ryu, cross-checked per value against core::fmt {:e}; a disagreement is counted (oracle_trouble_unjudged), never judged".into(),
            "correct rounding of decimal text: Rust str::parse::<f64>, verified per text by the exact BigUint predicate rational_rounds_to (nearest, ties-to-even)".into(),
            "exact BigUint arithmetic in harness/src/props/bigint.rs (self-tested against u128)".into(),
            "doubles enter and leave programs by exact power-of-two arithmetic in the program prelude (c15js.rs), checked per value by the transfer op `b`".into(),
            "the property demands the correctly rounded double also beyond 20 significant digits, where ECMA-262 would tolerate the neighbour".into(),
            "toString(radix != 10): digits are demanded exactly for non-finite values, integers below 2^53 and every value in power-of-two radices; elsewhere (fractions, integers >= 2^53 in other radices) only the validity predicate is demanded because ECMA-262 leaves the digits implementation-approximated (node itself is not exact there)".into(),
            "node (when present) validates the reference on sampled blocks; it is never the only oracle".into(),
        ]
    }
    fn plan(&self, tier: Tier) -> Plan {
        Plan { shards: 16, cases_per_shard: tier.pick(2000, 30000), tape_len: 1400, watchdog_s: tier.pick(900, 14400) }
    }
    fn exhaustive_part(&self, _tier: Tier) -> Option<String> {
        Some("structured families listed in `rule` (powers of 2 and 10 with neighbours, exponent x boundary mantissas, subnormals with <= 2 bits, integer edges, rounding ties, all digit/radix arguments, enumerated text families) are enumerated completely in both tiers".into())
    }
    fn fixed_cases(&self, ctx: &Ctx) -> Vec<Value> {
        let open: Vec<&str> = GATES.iter().copied().filter(|g| ctx.gates.excluded(g)).collect();
        gen::family_blocks()
            .into_iter()
            .enumerate()
            .filter(|(i, _)| i % ctx.nshards == ctx.shard)
            .map(|(_, (kind, name, part, of))| json!({"kind": kind, "name": name, "part": part, "of": of, "gates": open}))
            .collect()
    }
    fn generate(&self, tape: &mut Tape, ctx: &Ctx) -> Value {
        let open: Vec<String> = GATES.iter().copied().filter(|g| ctx.gates.excluded(g)).map(|s| s.to_string()).collect();
        gen::generate(tape, &open)
    }
    fn execute(&self, case: &Value, ctx: &mut Ctx) -> Exec {
        if let Err(e) = self_tests() {
            // a broken reference is an infrastructure problem, never a verdict
            eprintln!("INFRA-ERROR C15 reference self-test failed: {}", e);
            return Exec::discard(format!("reference self-test failed: {}", e));
        }
        let open = excluded_of(case);
        let mut excl: BTreeMap<String, u64> = BTreeMap::new();
        if let Some(m) = case["excluded"].as_object() {
            for (k, v) in m {
                *excl.entry(k.clone()).or_insert(0) += v.as_u64().unwrap_or(0);
            }
        }
        let kind = case["kind"].as_str().unwrap_or("");
        let tally = match kind {
            "family" => {
                let items = gen::family_items(case["name"].as_str().unwrap_or(""), case["part"].as_u64().unwrap_or(0) as usize, case["of"].as_u64().unwrap_or(1) as usize, &open, &mut excl);
                let sample = fnv64(case.to_string().as_bytes()) % 8 == 0;
                exec_num_block(&items, ctx, sample)
            }
            "values" => {
                let items = parse_data(case["data"].as_str().unwrap_or(""));
                let sample = ctx.tier == Tier::Thorough && fnv64(case.to_string().as_bytes()) % 16 == 0;
                exec_num_block(&items, ctx, sample)
            }
            "value" => {
                let bits = case["bits"].as_str().and_then(|s| u64::from_str_radix(s.trim_start_matches("0x"), 16).ok()).unwrap_or(0);
                let op = case["op"].as_str().unwrap_or("S").to_string();
                exec_num_block(&[NumItem { bits, ops: vec![op] }], ctx, false)
            }
            "strfamily" => {
                let items = gen::str_family_items(case["name"].as_str().unwrap_or(""), case["part"].as_u64().unwrap_or(0) as usize, case["of"].as_u64().unwrap_or(1) as usize, &open, &mut excl);
                exec_str_block(&items)
            }
            "strings" => {
                let items: Vec<StrItem> = case["items"]
                    .as_array()
                    .map(|a| a.iter().map(|p| StrItem { s: p[0].as_str().unwrap_or("").to_string(), ops: p[1].as_str().unwrap_or("").to_string() }).collect())
                    .unwrap_or_default();
                exec_str_block(&items)
            }
            "string" => exec_str_block(&[StrItem { s: case["s"].as_str().unwrap_or("").to_string(), ops: case["op"].as_str().unwrap_or("r").to_string() }]),
            other => return Exec::discard(format!("unknown case kind {}", other)),
        };
        let observed = json!({"evaluations": tally.evals, "failing": tally.failing, "first_failures": tally.failures.iter().map(|f| f.msg.clone()).collect::<Vec<_>>()});
        let mut ex = tally.into_exec(observed);
        for (g, n) in excl {
            if n > 0 {
                ex.counters.push((format!("excluded:{}", g), n));
            }
        }
        ex.tags = vec![format!("kind:{}", kind)];
        ex
    }
}
