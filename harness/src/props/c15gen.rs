//! C15 input domain: enumerated families (numbers and texts) and the tape-driven generator.

use super::c15::{NumItem, StrItem};
use super::numref as nr;
use crate::tape::{fnv64, Tape};
use serde_json::{json, Value};
use std::collections::{BTreeMap, BTreeSet};

/// Gates of possible open findings (exact shapes, see `gate_of` / `str_gate_of`).
pub const GATES: &[&str] = &["C15:toString-radix-fraction", "C15:json-number-notation"];

/// The gate that covers this (value, op) shape, if any
pub fn gate_of(x: f64, op: &str) -> Option<&'static str> {
    if op.starts_with('G') {
        let r: u32 = op[1..].parse().unwrap_or(10);
        // toString(radix) of a finite non-integer in a radix other than 10
        if (2..=36).contains(&r) && r != 10 && x.is_finite() && !nr::is_integer(x) {
            return Some("C15:toString-radix-fraction");
        }
    }
    if op == "J" && x.is_finite() {
        // JSON.stringify of a number that serde_json's printer spells differently from
        // Number::toString: magnitudes from 2^53 up, and 1e-6 <= |x| < 1e-5
        let a = x.abs();
        if a >= 9007199254740992.0 || (1e-6..1e-5).contains(&a) {
            return Some("C15:json-number-notation");
        }
    }
    None
}

/// The gate that covers this (text, op) shape, if any (none at present)
pub fn str_gate_of(_s: &str, _c: char) -> Option<&'static str> {
    None
}

fn filter_ops(x: f64, ops: Vec<String>, open: &[String], excl: &mut BTreeMap<String, u64>) -> Vec<String> {
    ops.into_iter()
        .filter(|op| match gate_of(x, op) {
            Some(g) if open.iter().any(|o| o == g) => {
                *excl.entry(g.to_string()).or_insert(0) += 1;
                false
            }
            _ => true,
        })
        .collect()
}

fn filter_str_ops(s: &str, ops: &str, open: &[String], excl: &mut BTreeMap<String, u64>) -> String {
    ops.chars()
        .filter(|c| match str_gate_of(s, *c) {
            Some(g) if open.iter().any(|o| o == g) => {
                *excl.entry(g.to_string()).or_insert(0) += 1;
                false
            }
            _ => true,
        })
        .collect()
}

// ---------------------------------------------------------------------------------------------
// number families
// ---------------------------------------------------------------------------------------------

const POW2_RADICES: [u32; 5] = [2, 4, 8, 16, 32];

/// the standard op list of a value; arguments are a fixed function of the bits
pub fn standard_ops(bits: u64) -> Vec<String> {
    let h = fnv64(&bits.to_le_bytes());
    let mut v: Vec<String> = ["rs", "rr", "rp", "b", "S", "T", "C", "N", "J", "K", "O", "I", "U", "W", "A", "X", "H", "e", "V", "Y", "D"].iter().map(|s| s.to_string()).collect();
    v.push(format!("L{}", (h >> 32) % 40));
    v.push(format!("R{}", (h >> 38) % 40));
    v.push(format!("Z{}", (h >> 44) % 40));
    v.push(format!("F{}", h % 101));
    v.push(format!("F{}", (h >> 50) % 8));
    v.push(format!("P{}", 1 + (h >> 8) % 100));
    v.push(format!("P{}", 1 + (h >> 53) % 8));
    v.push(format!("E{}", (h >> 16) % 101));
    v.push(format!("E{}", (h >> 56) % 8));
    v.push(format!("G{}", 2 + (h >> 24) % 35));
    v.push(format!("G{}", POW2_RADICES[((h >> 59) % 5) as usize]));
    v
}

fn neighbours(bits: u64) -> Vec<u64> {
    // ±1, ±2 ulp in the ordered line of positive doubles (bits is a positive finite pattern)
    let mut v = vec![bits];
    for d in [1u64, 2] {
        if bits >= d {
            v.push(bits - d);
        }
        if bits + d < 0x7ff0_0000_0000_0000 {
            v.push(bits + d);
        }
    }
    v
}

const SIGN: u64 = 1 << 63;

fn fam_pow2() -> Vec<u64> {
    let mut v = vec![];
    for e in -1074..=1023 {
        let b = nr::compose(1, e).unwrap().to_bits();
        v.extend(neighbours(b));
        v.push(b | SIGN);
    }
    v
}
fn fam_pow10() -> Vec<u64> {
    let mut v = vec![];
    for e in -323..=308 {
        let b = format!("1e{}", e).parse::<f64>().unwrap().to_bits();
        v.extend(neighbours(b));
        v.push(b | SIGN);
    }
    v
}
fn fam_expmant() -> Vec<u64> {
    let mut v = vec![];
    for ex in 0u64..=2046 {
        for m in [0u64, 1, 1 << 51, (1 << 52) - 1, 0xAAAAAAAAAAAAA, 0x5555555555555] {
            let b = (ex << 52) | m;
            v.push(b);
            if m == 0xAAAAAAAAAAAAA {
                v.push(b | SIGN);
            }
        }
    }
    v.push(SIGN); // -0
    v.push(0x7ff0_0000_0000_0000);
    v.push(0xfff0_0000_0000_0000);
    v.push(0x7ff8_0000_0000_0000);
    v
}
fn fam_subnormal2() -> Vec<u64> {
    let mut v = vec![];
    for i in 0..52 {
        v.push(1u64 << i);
        for j in 0..i {
            v.push((1u64 << i) | (1u64 << j));
        }
    }
    v
}
fn fam_intedges() -> Vec<u64> {
    let mut v = vec![];
    for base in [2147483648.0f64, 4294967296.0, 9007199254740992.0, 1e21] {
        let b = base.to_bits();
        for k in -64i64..=64 {
            // integer steps below 2^53, ulp steps from 2^53 on (both directions around the base)
            let x = if base < 9007199254740992.0 { base + k as f64 } else { f64::from_bits((b as i64 + k) as u64) };
            v.push(x.to_bits());
            v.push((-x).to_bits());
            if base < 9007199254740992.0 && (-8..=8).contains(&k) {
                v.push((x + 0.5).to_bits());
                v.push((-(x + 0.5)).to_bits());
                v.push((x + 0.25).to_bits());
                v.push((x * 2.0 + 0.75).to_bits());
                v.push((x * 65536.0 + 1.0).to_bits());
                v.push((-(x * 1048576.0) - 3.0).to_bits());
            }
        }
    }
    // multiples of 2^32 and 2^31 with small offsets up to 2^80
    for sh in [33, 40, 52, 53, 54, 63, 64, 65, 80] {
        let p = nr::compose(1, sh).unwrap();
        for off in [0.0, 1.0, -1.0, 2147483648.0, 4294967295.0] {
            v.push((p + off).to_bits());
            v.push((-(p + off)).to_bits());
        }
    }
    v
}

/// (bits, ops) for rounding ties and their ulp neighbours
fn fam_ties() -> Vec<(u64, Vec<String>)> {
    let mut out: Vec<(u64, Vec<String>)> = vec![];
    let mut push = |x: f64, maxd: u32| {
        for b in neighbours(x.abs().to_bits()) {
            for s in [0u64, SIGN] {
                let mut ops: Vec<String> = vec!["b".into(), "rs".into(), "S".into()];
                for d in 0..=maxd {
                    ops.push(format!("F{}", d));
                    ops.push(format!("E{}", d));
                    ops.push(format!("P{}", d + 1));
                }
                out.push((b | s, ops));
            }
        }
    };
    // k + 1/2
    for k in 0..=130 {
        push(k as f64 + 0.5, 2);
    }
    // dyadic ties m / 2^j (exactly representable decimals ending in 5)
    for j in 2..=7u32 {
        let den = (1u64 << j) as f64;
        let top = 1u64 << (j + 2);
        let mut m = 1u64;
        while m < top {
            push(m as f64 / den, j + 1);
            m += 2;
        }
    }
    // k * 10^-d and half-way decimals as written (not representable: the double lies just above or below)
    for d in 1..=8i32 {
        for k in [1u64, 5, 15, 25, 35, 45, 55, 65, 75, 85, 95, 105, 115, 125, 135, 145, 1005, 1015, 1025, 1035, 1045, 8345, 9995, 99995] {
            let x: f64 = format!("{}e-{}", k, d).parse().unwrap();
            push(x, d as u32 + 1);
        }
    }
    // integer ties for toPrecision/toExponential, up to beyond 1e21
    for t in ["25", "35", "125", "1250", "1350", "15e20", "25e20", "5e21", "45e21", "125e19", "95", "995", "9995e17", "999999999999999868928", "1e21", "9.5", "99.5", "0.95", "0.0095", "0.000001", "0.0000015", "1.5e-7", "2.5e-7", "0.00001", "0.000015", "5e-324", "1.7976931348623157e308"] {
        push(t.parse::<f64>().unwrap(), 6);
    }
    out
}

/// doubles that lie exactly half-way between two shortest digit strings (Number::toString must
/// take the even one): x = Q / 2^(f+1) with Q odd and the spacing of doubles at x at least 10^-f
fn fam_shortties() -> Vec<u64> {
    let mut v = vec![];
    for f in 1..=24u32 {
        // bit length of Q: at least 54 - f*log2(10) (rounded up), at most 53
        let min_len = (54.0 - f as f64 * 3.3219280948873623).ceil().max(2.0) as u32;
        for len in min_len.max(1)..=53 {
            for i in 0..6u64 {
                let h = fnv64(&[f as u8, len as u8, i as u8]);
                let q = ((h >> (64 - len)) | (1u64 << (len - 1))) | 1;
                if let Some(x) = nr::compose(q, -(f as i32 + 1)) {
                    v.push(x.to_bits());
                    v.push(x.to_bits() | SIGN);
                }
            }
        }
    }
    v
}

/// every digit / radix argument on a fixed list of values
fn fam_args() -> Vec<(u64, Vec<String>)> {
    let vals: [f64; 22] = [
        0.0, -0.0, 1.0, 0.5, -1.5, 123.456, 0.1, 1e21, 1e-7, 5e-324, f64::MAX, 2.5, 0.000001, 123456789012345680000.0, 4294967295.5, -2147483648.5, 1.0 / 3.0, 9007199254740993.0, 1.45, 8.345, f64::NAN, f64::INFINITY,
    ];
    let mut out = vec![];
    for x in vals {
        for (c, lo, hi) in [('F', 0u32, 102u32), ('P', 0, 102), ('E', 0, 102), ('G', 1, 38)] {
            // one item per (value, op letter) keeps lines short
            let ops: Vec<String> = (lo..=hi).map(|a| format!("{}{}", c, a)).collect();
            out.push((x.to_bits(), ops));
        }
        out.push((x.to_bits(), (0..=70).flat_map(|k| [format!("L{}", k), format!("R{}", k), format!("Z{}", k)]).collect()));
    }
    out
}

/// (kind, name, part, of) of every enumerated block
pub fn family_blocks() -> Vec<(&'static str, &'static str, usize, usize)> {
    let mut v = vec![];
    for (name, of) in [("pow2", 52), ("pow10", 16), ("expmant", 56), ("subnormal2", 6), ("intedges", 8), ("ties", 40), ("shortties", 24), ("args", 22)] {
        for p in 0..of {
            v.push(("family", name, p, of));
        }
    }
    for (name, of) in [("grammar", 8), ("invalid", 2), ("radixint", 8), ("halfway", 24), ("literal", 4)] {
        for p in 0..of {
            v.push(("strfamily", name, p, of));
        }
    }
    // interleave so that every shard gets a mix
    let n = v.len();
    let mut out = Vec::with_capacity(n);
    let mut keyed: Vec<(u64, (&'static str, &'static str, usize, usize))> = v.into_iter().map(|b| (fnv64(format!("{}{}{}", b.1, b.2, b.3).as_bytes()), b)).collect();
    keyed.sort();
    for (_, b) in keyed {
        out.push(b);
    }
    out
}

pub fn family_items(name: &str, part: usize, of: usize, open: &[String], excl: &mut BTreeMap<String, u64>) -> Vec<NumItem> {
    let all: Vec<(u64, Vec<String>)> = match name {
        "pow2" => fam_pow2().into_iter().map(|b| (b, standard_ops(b))).collect(),
        "pow10" => fam_pow10().into_iter().map(|b| (b, standard_ops(b))).collect(),
        "expmant" => fam_expmant().into_iter().map(|b| (b, standard_ops(b))).collect(),
        "subnormal2" => fam_subnormal2().into_iter().map(|b| (b, standard_ops(b))).collect(),
        "intedges" => fam_intedges().into_iter().map(|b| (b, standard_ops(b))).collect(),
        "ties" => fam_ties(),
        "shortties" => fam_shortties().into_iter().map(|b| (b, standard_ops(b))).collect(),
        "args" => fam_args(),
        _ => vec![],
    };
    // de-duplicate (bits, ops) pairs, keep first occurrence order
    let mut seen: BTreeSet<(u64, u64)> = BTreeSet::new();
    let mut items = vec![];
    for (i, (bits, ops)) in all.into_iter().enumerate() {
        if !seen.insert((bits, fnv64(ops.join(";").as_bytes()))) {
            continue;
        }
        if i % of.max(1) != part {
            continue;
        }
        let ops = filter_ops(f64::from_bits(bits), ops, open, excl);
        items.push(NumItem { bits, ops });
    }
    items
}

// ---------------------------------------------------------------------------------------------
// text families
// ---------------------------------------------------------------------------------------------

/// decimal text of 0.D * 10^point in scientific form "d.ddde±N"
fn sci_text(digits: &[u8], point: i32) -> String {
    let d = std::str::from_utf8(digits).unwrap();
    if d.len() == 1 {
        format!("{}e{}", d, point - 1)
    } else {
        format!("{}.{}e{}", &d[..1], &d[1..], point - 1)
    }
}
/// plain positional text when that is reasonably short
fn plain_text(digits: &[u8], point: i32) -> Option<String> {
    let d = std::str::from_utf8(digits).unwrap();
    let k = d.len() as i32;
    if point >= k && point <= 40 {
        Some(format!("{}{}", d, "0".repeat((point - k) as usize)))
    } else if point > 0 && point < k {
        Some(format!("{}.{}", &d[..point as usize], &d[point as usize..]))
    } else if point <= 0 && point > -12 {
        Some(format!("0.{}{}", "0".repeat((-point) as usize), d))
    } else {
        None
    }
}

/// texts around the exact midpoint between the double (m, e) and its successor:
/// the tie itself, just above, just below (perturbation after `depth` extra digits)
pub fn midpoint_texts(bits: u64, depth: usize) -> Vec<String> {
    let x = f64::from_bits(bits & !SIGN);
    if !x.is_finite() {
        return vec![];
    }
    let (_, m, e) = nr::decompose(x);
    let (digits, point) = nr::exact_decimal_me(2 * m + 1, e - 1);
    let mut above = digits.clone();
    above.extend(std::iter::repeat(b'0').take(depth));
    above.push(b'1');
    let mut below = digits.clone();
    let last = below.len() - 1;
    below[last] -= 1; // trimmed expansion: the last digit is non-zero
    below.extend(std::iter::repeat(b'9').take(depth + 1));
    let mut out = vec![];
    for (d, p) in [(&digits, point), (&above, point), (&below, point)] {
        out.push(sci_text(d, p));
        if let Some(t) = plain_text(d, p) {
            out.push(t);
        }
    }
    out
}

fn halfway_bits() -> Vec<u64> {
    let mut v: Vec<u64> = vec![0, 1, 2, 0x000f_ffff_ffff_ffff, 0x0010_0000_0000_0000, 0x7fef_ffff_ffff_ffff, 0x7fef_ffff_ffff_fffe];
    for e in [-1073, -1022, -1021, -500, -100, -53, -30, -10, -4, -1, 0, 1, 3, 10, 30, 52, 53, 54, 63, 64, 69, 70, 100, 500, 1000, 1022, 1023] {
        let b = nr::compose(1, e).unwrap().to_bits();
        v.push(b);
        v.push(b - 1);
        v.push(b + 1);
    }
    for i in 0..160u64 {
        let h = fnv64(&(i ^ 0xC15).to_le_bytes());
        // spread exponents, random mantissa
        let ex = match i % 4 {
            0 => 1023 - 60 + (h >> 52) % 140,
            1 => (h >> 52) % 2047,
            2 => 1023 + (h >> 52) % 64,
            _ => (h >> 52) % 3,
        };
        v.push((ex << 52) | (h & ((1u64 << 52) - 1)));
    }
    for t in ["0.1", "0.3", "1.5", "4.35", "9007199254740991", "1e22", "1e23", "8.41e21", "2.2250738585072011e-308", "6.631236871469758e-316", "3.2378839133029012e-319", "1.7976931348623157e308", "9.5154296875e-03"] {
        v.push(t.parse::<f64>().unwrap().to_bits());
    }
    v
}

const WS_VARIANTS: [(&str, &str); 6] = [("", ""), (" ", " "), ("\t\n", "\r"), ("\u{FEFF}", "\u{A0}"), ("\u{2028}\u{3000}", "\u{2029}"), ("\u{1680}\u{2000}\u{200A}", "\u{202F}\u{205F}\u{B}\u{C}")];

const BODIES: [&str; 44] = [
    "0", "1", "12", "007", "1.5", "1.", "0.5", ".5", "1e3", "1E3", "1e+3", "1e-3", "1.5e3", ".5e1", "5.e1", "0.000001", "1e21", "123456789012345678901234567890", "1e308", "1.8e308", "1e-323", "2e-324", "3e-324", "1e-400", "1e400", "0e999999", "0.0e-999999", "1e999999", "9007199254740993", "9007199254740995", "0.1", "0.30000000000000004", "4.35", "1.7976931348623157e308", "1.7976931348623158e308", "1.797693134862315807e308",
    "179769313486231580793728971405303415079934132710037826936173778980444968292764750946649017977587207096330286416692887910946555547851940402630657488671505820681908902000708383676273854845817711531764475730270069855571366959622842914819860834936475292719074168444365510704342711559699508093042880177904174497791.9999999999999999999999999999999999999999999999999999",
    "179769313486231580793728971405303415079934132710037826936173778980444968292764750946649017977587207096330286416692887910946555547851940402630657488671505820681908902000708383676273854845817711531764475730270069855571366959622842914819860834936475292719074168444365510704342711559699508093042880177904174497792",
    "Infinity", "00", "000.000", "0.0000000000000000000000000000000000000000000000000000000000000000000000000000000000000000000000000001e100", "100000000000000000000000000000000000000000000000000000000000000000000000000000000000000000000000000e-98", "2.22507385850720138309023271733240406421921598046233e-308",
];

const INVALID: [&str; 74] = [
    "1_000", "1__0", "0x", "0x+1", "0x-1", "-0x10", "+0x10", "1e", "1e+", "1e-", "e5", ".", "+", "-", "--1", "+-1", "-+1", "1 2", "1,5", "0b12", "0o8", "0xg", "infinity", "INFINITY", "Inf", "inf", "+inf", "-inf", "nan", "NAN", "NaN", "Infinityx", "Infinity1", "1n", "0x1n", "\u{661}\u{662}", "1.5.5", "1e1.5", "1e1e1", "0x1.8", "0b", "0o", "0X", "00x10", "\u{200B}1", "\u{180E}1", "1\u{0}", "1d", "1f", "1.0f", "0_1", "1_", "_1", "true", "null", "undefined", "[1]", ".e1", "e", "+.", "-.e5", "0x 1", "0 x1", "1e 5", "1 e5", "+ 1", "- 1", "1+", "1-", "0b2", "0o9", "0xG", "\u{FF11}", "１２",
];

fn radix_texts() -> Vec<(String, bool)> {
    // (text, usable as a literal with this exact spelling)
    let mut v: Vec<(String, bool)> = vec![];
    let mut add = |prefix: &str, body: String| v.push((format!("{}{}", prefix, body), true));
    for (pl, pu, radix) in [("0x", "0X", 16u32), ("0o", "0O", 8), ("0b", "0B", 2)] {
        let top = std::char::from_digit(radix - 1, radix).unwrap();
        let bits_per = radix.trailing_zeros() as usize;
        for n in [1usize, 2, 7, 8, 13, 14, 15, 16, 17, 18, 21, 22, 32, 33, 53, 54, 63, 64, 65, 80, 100] {
            add(pl, std::iter::repeat(top).take(n).collect());
            add(pu, format!("1{}", "0".repeat(n)));
            add(pl, format!("{}1", "0".repeat(n)));
        }
        // ties and near-ties: 53 significant bits then 1 0...0 / 1 0..01 / 0 1...1, with both parities
        for mant in [(1u64 << 53) - 1, (1u64 << 53) - 2, (1u64 << 52) + 1, (1u64 << 52) + 2, 0x1A5A5A5A5A5A5A, 0x1A5A5A5A5A5A5B] {
            for extra in [1usize, 2, 3, 4, 8, 12, 40, 200] {
                for tail in 0..3 {
                    // binary string of mant followed by `extra` bits
                    let mut b = format!("{:b}", mant);
                    let t: String = match tail {
                        0 => format!("1{}", "0".repeat(extra - 1)),
                        1 => {
                            if extra < 2 {
                                continue;
                            }
                            format!("1{}1", "0".repeat(extra - 2))
                        }
                        _ => format!("0{}", "1".repeat(extra - 1)),
                    };
                    b.push_str(&t);
                    // regroup into the radix (left-pad to a multiple of bits_per)
                    let pad = (bits_per - b.len() % bits_per) % bits_per;
                    let b = format!("{}{}", "0".repeat(pad), b);
                    let digits: String = b.as_bytes().chunks(bits_per).map(|c| std::char::from_digit(u32::from_str_radix(std::str::from_utf8(c).unwrap(), 2).unwrap(), radix).unwrap()).collect();
                    add(pl, digits.clone());
                    if radix == 16 {
                        add(pu, digits.to_uppercase());
                    }
                }
            }
        }
    }
    v.push(("0xaBcDeF".into(), true));
    v.push(("0XAbCdEf0123456789".into(), true));
    v
}

fn literal_texts() -> Vec<String> {
    let mut v: Vec<String> = vec![];
    for t in [
        "1_000", "1_0.0_1", "1_2e1_0", "0.0_1", ".0_1", "1_000_000.000_001e-1_0", "0xFF_FF", "0b1_0_1", "0o7_7", "0xffff_ffff_ffff_ffff_f", "1e2_0", "9_007_199_254_740_993", "0.", "0.e1", "0.0", "0e0", "0E-0", "5.", "5.e1", "5.E+1", ".5", ".5e-1", "1e21", "1E21", "12345678901234567890123", "0.1e-6", "1.7976931348623157e308", "1.7976931348623159e308", "4.9e-324", "2.4703282292062327e-324", "2.4703282292062328e-324", "0x0", "0b0", "0o0", "0x1p3",
        "0B11111111111111111111111111111111111111111111111111111", "0O777777777777777777", "0X1fffffffffffff", "0x20000000000001", "0x20000000000003", "0x7fffffffffffffff", "0x8000000000000000", "0xffffffffffffffff", "0x10000000000000000", "0b1000000000000000000000000000000000000000000000000000000000000000", "0o1000000000000000000000", "0o1777777777777777777777", "0o2000000000000000000000",
    ] {
        v.push(t.to_string());
    }
    v
}

pub fn str_family_items(name: &str, part: usize, of: usize, open: &[String], excl: &mut BTreeMap<String, u64>) -> Vec<StrItem> {
    let mut all: Vec<StrItem> = vec![];
    match name {
        "grammar" => {
            for body in BODIES {
                for sign in ["", "+", "-"] {
                    for (i, (pre, post)) in WS_VARIANTS.iter().enumerate() {
                        if body.len() > 100 && i > 1 {
                            continue;
                        }
                        let s = format!("{}{}{}{}", pre, sign, body, post);
                        let mut ops = String::from("rnpmfqgihj");
                        if sign.is_empty() && i == 0 && matches!(nr::es_numeric_literal(body), Ok(Some(_))) {
                            ops.push_str("lu");
                        }
                        all.push(StrItem { s, ops });
                    }
                }
            }
            all.push(StrItem { s: String::new(), ops: "rnpmfqgihj".into() });
            for (pre, post) in WS_VARIANTS {
                all.push(StrItem { s: format!("{}{}", pre, post), ops: "rnpmfqgihj".into() });
            }
        }
        "invalid" => {
            for s in INVALID {
                all.push(StrItem { s: s.to_string(), ops: "rnpmfqgihj".into() });
                all.push(StrItem { s: format!(" {}\n", s), ops: "rnpfgihjz".into() });
            }
        }
        "radixint" => {
            for (s, lit) in radix_texts() {
                let mut ops = String::from("rnpmqihjz");
                if lit {
                    ops.push_str("lu");
                }
                all.push(StrItem { s: format!(" {} ", s), ops: "rn".into() });
                all.push(StrItem { s, ops });
            }
        }
        "halfway" => {
            for (i, b) in halfway_bits().into_iter().enumerate() {
                for (j, s) in midpoint_texts(b, [0, 1, 7, 30][i % 4]).into_iter().enumerate() {
                    let mut ops = String::from("rnf");
                    if (i + j) % 3 == 0 {
                        ops.push_str("pmq");
                    }
                    if matches!(nr::es_numeric_literal(&s), Ok(Some(_))) {
                        ops.push('l');
                    }
                    all.push(StrItem { s: format!("-{}", s), ops: "rn".into() });
                    all.push(StrItem { s, ops });
                }
            }
        }
        "literal" => {
            for s in literal_texts() {
                let valid = matches!(nr::es_numeric_literal(&s), Ok(Some(_)));
                if valid {
                    all.push(StrItem { s: s.clone(), ops: "lu".into() });
                }
                // the same text as a string: separators are not allowed there
                all.push(StrItem { s, ops: "rnf".into() });
            }
        }
        _ => {}
    }
    let mut seen = BTreeSet::new();
    let mut out = vec![];
    for (i, it) in all.into_iter().enumerate() {
        if !seen.insert((it.s.clone(), it.ops.clone())) {
            continue;
        }
        if i % of.max(1) != part {
            continue;
        }
        let ops = filter_str_ops(&it.s, &it.ops, open, excl);
        out.push(StrItem { s: it.s, ops });
    }
    out
}

// ---------------------------------------------------------------------------------------------
// tape-driven generator
// ---------------------------------------------------------------------------------------------

fn draw_double(t: &mut Tape) -> u64 {
    let kind = t.weighted(&[2, 2, 3, 2, 8]);
    let neg = |t: &mut Tape| if t.chance(1, 4) { SIGN } else { 0 };
    match kind {
        0 => {
            // short decimal
            let k = t.range(1, 7) as u32;
            let d = t.below(10usize.pow(k)) as u64;
            let e = t.range(0, 45) - 20;
            let x: f64 = format!("{}e{}", d, e).parse().unwrap();
            x.to_bits() | neg(t)
        }
        1 => {
            // integer of up to 80 bits
            let bl = t.range(1, 80) as i32;
            let m = t.u64() >> (64 - bl.min(53));
            let x = nr::compose(m, (bl - 53).max(0)).unwrap_or(0.0);
            x.to_bits() | neg(t)
        }
        2 => {
            // human range: binary exponent -40..=80, random mantissa
            let ex = (1023 + t.range(0, 120) - 40) as u64;
            ((ex << 52) | (t.u64() >> 12)) | neg(t)
        }
        3 => {
            // near a multiple of 2^31 with a fraction
            let k = t.range(0, 1 << 20) as f64;
            let off = t.range(0, 4) as f64 - 2.0;
            let fr = [0.0, 0.5, 0.25, 0.999, 0.001][t.below(5)];
            let x = k * 2147483648.0 + off + fr;
            x.to_bits() | neg(t)
        }
        _ => t.u64(),
    }
}

fn draw_ops(t: &mut Tape, bits: u64) -> Vec<String> {
    let mut v: Vec<String> = vec!["rs".into(), "rr".into(), "rp".into()];
    let _ = bits;
    // each in-program op with probability ~1/2, arguments from the tape
    for c in ["S", "T", "C", "N", "J", "K", "O", "I", "U", "W", "A", "X", "H", "e", "V", "Y", "D"] {
        if t.chance(1, 2) {
            v.push(c.to_string());
        }
    }
    for c in ["L", "R", "Z"] {
        if t.chance(1, 2) {
            v.push(format!("{}{}", c, t.range(0, 40)));
        }
    }
    if t.chance(3, 4) {
        v.push(format!("F{}", if t.chance(1, 2) { t.range(0, 8) } else { t.range(0, 100) }));
    }
    if t.chance(3, 4) {
        v.push(format!("P{}", if t.chance(1, 2) { t.range(1, 9) } else { t.range(1, 100) }));
    }
    if t.chance(3, 4) {
        v.push(format!("E{}", if t.chance(1, 2) { t.range(0, 8) } else { t.range(0, 100) }));
    }
    if t.chance(3, 4) {
        v.push(format!("G{}", t.range(2, 36)));
    }
    if v.iter().any(|o| !o.starts_with('r')) {
        v.insert(3, "b".into());
    }
    v
}

fn digits(t: &mut Tape, n: usize) -> String {
    // runs of identical digits make long carries and zero stretches likely
    let mut s = String::with_capacity(n);
    while s.len() < n {
        let d = (b'0' + t.below(10) as u8) as char;
        let run = if t.chance(1, 8) { t.range(1, 40) as usize } else { 1 };
        for _ in 0..run.min(n - s.len()) {
            s.push(d);
        }
    }
    s
}

fn insert_separators(t: &mut Tape, run: &str) -> String {
    let mut o = String::new();
    for (i, c) in run.chars().enumerate() {
        if i > 0 && t.chance(1, 5) {
            o.push('_');
        }
        o.push(c);
    }
    o
}

fn draw_string(t: &mut Tape) -> StrItem {
    let ws = |t: &mut Tape| -> String {
        let n = t.weighted(&[6, 2, 1]);
        (0..n).map(|_| *t.pick(&[' ', '\t', '\n', '\r', '\u{B}', '\u{C}', '\u{A0}', '\u{FEFF}', '\u{2028}', '\u{2029}', '\u{1680}', '\u{2003}', '\u{202F}', '\u{205F}', '\u{3000}'])).collect()
    };
    match t.weighted(&[4, 3, 2, 2, 1]) {
        0 => {
            // decimal text: up to 800 digits, exponent to ±400
            let total = match t.weighted(&[5, 3, 1]) {
                0 => t.range(1, 25),
                1 => t.range(1, 120),
                _ => t.range(1, 800),
            } as usize;
            let ni = t.range(0, total as i64) as usize;
            let ip = digits(t, ni);
            let fp = digits(t, total - ni);
            let mut body = ip.clone();
            let dot = !fp.is_empty() || t.chance(1, 6);
            if dot {
                body.push('.');
                body.push_str(&fp);
            }
            if body == "." {
                body = "0.".into();
            }
            let mut exp = String::new();
            if t.chance(1, 2) {
                let e = match t.weighted(&[4, 2, 1]) {
                    0 => t.range(0, 30),
                    1 => t.range(0, 400),
                    _ => 290 + t.range(0, 60),
                };
                // keep the value near the double range when there are many integer digits
                let e = if t.chance(1, 2) { -e } else { e };
                exp = format!("{}{}{}", t.pick(&["e", "E"]), if e < 0 { "-" } else { *t.pick(&["", "+"]) }, e.abs());
            }
            let sign = *t.pick(&["", "", "-", "+"]);
            let lit_text = format!("{}{}", body, exp);
            let is_lit = sign.is_empty() && matches!(nr::es_numeric_literal(&lit_text), Ok(Some(_)));
            let (pre, post) = (ws(t), ws(t));
            if is_lit && pre.is_empty() && post.is_empty() && t.chance(1, 2) {
                // literal form, sometimes with separators
                let with_sep = if t.chance(1, 3) && ip.len() > 1 && !ip.starts_with('0') {
                    let mut b = insert_separators(t, &ip);
                    if dot {
                        b.push('.');
                        if !fp.is_empty() {
                            b.push_str(&insert_separators(t, &fp));
                        }
                    }
                    format!("{}{}", b, exp)
                } else {
                    lit_text.clone()
                };
                if matches!(nr::es_numeric_literal(&with_sep), Ok(Some(_))) {
                    return StrItem { s: with_sep, ops: "lu".into() };
                }
            }
            StrItem { s: format!("{}{}{}{}", pre, sign, lit_text, post), ops: "rnpmfqgihj".into() }
        }
        1 => {
            // perturbed binary midpoint of a drawn double
            let bits = draw_double(t) & !SIGN;
            let depth = if t.chance(1, 2) { 0 } else { t.range(0, 60) as usize };
            let texts = midpoint_texts(bits, depth);
            if texts.is_empty() {
                return StrItem { s: "1".into(), ops: "rn".into() };
            }
            let s = t.pick(&texts).clone();
            let ops = if matches!(nr::es_numeric_literal(&s), Ok(Some(_))) && t.chance(1, 3) { "rnl" } else { "rnf" };
            StrItem { s, ops: ops.into() }
        }
        2 => {
            // shortest text of a drawn double, read back through every path
            let bits = draw_double(t);
            let x = f64::from_bits(bits);
            let s = nr::es_to_string(x).unwrap_or_else(|_| "1".into());
            let lit = x.is_finite() && x >= 0.0 && !x.is_sign_negative();
            StrItem { s, ops: if lit { "rnpmfql".into() } else { "rnpmfqgihj".into() } }
        }
        3 => {
            // radix-prefixed integer of up to 100 digits
            let (p, radix) = *t.pick(&[("0x", 16u32), ("0X", 16), ("0b", 2), ("0B", 2), ("0o", 8), ("0O", 8)]);
            let n = match t.weighted(&[3, 2, 1]) {
                0 => t.range(1, 16),
                1 => t.range(10, 70),
                _ => t.range(1, 100),
            } as usize;
            let body: String = (0..n)
                .map(|_| {
                    let c = std::char::from_digit(t.below(radix as usize) as u32, radix).unwrap();
                    if t.chance(1, 3) {
                        c.to_ascii_uppercase()
                    } else {
                        c
                    }
                })
                .collect();
            if t.chance(1, 4) && n > 1 {
                let b = insert_separators(t, &body);
                return StrItem { s: format!("{}{}", p, b), ops: if b.contains('_') { "lurn".into() } else { "lurnpmqihjz".into() } };
            }
            StrItem { s: format!("{}{}{}{}", ws(t), p, body, ws(t)), ops: "rnpmqihjz".into() }
        }
        _ => {
            // a valid text damaged by one inserted character: must read as NaN (or its prefix for parseFloat)
            let n1 = t.range(1, 6) as usize;
            let mut base = digits(t, n1);
            if t.chance(1, 2) {
                let n2 = t.range(1, 4) as usize;
                base = format!("{}.{}", base, digits(t, n2));
            }
            let ch = *t.pick(&['_', 'e', 'x', '-', '+', '.', ' ', 'n', ',', '\u{200B}', 'I']);
            let at = t.below(base.len() + 1);
            let mut s = base.clone();
            s.insert(at, ch);
            StrItem { s, ops: "rnpmfqgihj".into() }
        }
    }
}

pub fn generate(t: &mut Tape, open: &[String]) -> Value {
    let mut excl: BTreeMap<String, u64> = BTreeMap::new();
    match t.weighted(&[3, 3, 3]) {
        0 => {
            // in-program block: up to 48 values with drawn ops
            let n = t.range(1, 48) as usize;
            let mut seen = BTreeSet::new();
            let mut items = vec![];
            for _ in 0..n {
                let bits = draw_double(t);
                if !seen.insert(bits) {
                    continue;
                }
                let ops = filter_ops(f64::from_bits(bits), draw_ops(t, bits), open, &mut excl);
                items.push(NumItem { bits, ops });
            }
            json!({"kind": "values", "data": super::c15::render_data(&items), "excluded": excl})
        }
        1 => {
            // Rust entry points only: up to 600 values
            let n = t.range(1, 600) as usize;
            let mut seen = BTreeSet::new();
            let mut items = vec![];
            for _ in 0..n {
                let bits = draw_double(t);
                if seen.insert(bits) {
                    items.push(NumItem { bits, ops: vec!["rs".into(), "rr".into(), "rp".into()] });
                }
            }
            json!({"kind": "values", "data": super::c15::render_data(&items), "excluded": excl})
        }
        _ => {
            let n = t.range(1, 40) as usize;
            let mut seen = BTreeSet::new();
            let mut items: Vec<Value> = vec![];
            for _ in 0..n {
                let it = draw_string(t);
                if !seen.insert((it.s.clone(), it.ops.clone())) {
                    continue;
                }
                let ops = filter_str_ops(&it.s, &it.ops, open, &mut excl);
                items.push(json!([it.s, ops]));
            }
            json!({"kind": "strings", "items": items, "excluded": excl})
        }
    }
}
