//! C02 — garbage collection is invisible: same outcome under every collection schedule,
//! and no stale-handle event (H1) ever.

use crate::core::{guarded, Ctx, Exec, Plan, Property, Tier};
use crate::engine::{drive, new_interp, render_value, reset_hooks, run_simple, HostAction, RunOpts};
use crate::progen::{gen_script, Config};
use crate::tape::Tape;
use serde_json::{json, Value};
use std::cell::RefCell;
use std::rc::Rc;
use tsrun::StepResult;

pub struct C02Prop;
pub static C02: C02Prop = C02Prop;

const THRESHOLDS: &[usize] = &[1, 2, 3, 5, 7, 100];
const COLLECT_EVERY: &[u64] = &[1, 2, 3, 7, 31];

/// Run the raw-completion variant: the host keeps the completion value (an array of the program's
/// variables), allocates, forces collections, then reads it back through js_value_to_json.
fn run_host_readback(src: &str, gc_threshold: usize, collect_every: u64) -> (String, Vec<String>, Vec<String>) {
    let log = Rc::new(RefCell::new(Vec::new()));
    reset_hooks();
    let r = guarded(|| {
        let mut interp = new_interp(&log);
        interp.set_gc_threshold(gc_threshold);
        let opts = RunOpts { gc_threshold: Some(gc_threshold), collect_every, step_budget: 2_000_000, ..Default::default() };
        let mut held: Option<tsrun::RuntimeValue> = None;
        let mut steps = 0u64;
        let first = interp.prepare(src, None);
        let mut res = match first {
            Ok(r) => r,
            Err(e) => return format!("error:{}", crate::engine::error_class(&e)),
        };
        let end;
        loop {
            match res {
                StepResult::Continue => {}
                StepResult::Complete(v) => {
                    held = Some(v);
                    end = "complete".to_string();
                    break;
                }
                other => {
                    end = crate::engine::describe_step(&other);
                    break;
                }
            }
            steps += 1;
            if steps > opts.step_budget {
                end = "budget".into();
                break;
            }
            if collect_every != 0 && steps % collect_every == 0 {
                interp.collect();
            }
            res = match interp.step() {
                Ok(r) => r,
                Err(e) => return format!("error:{}", crate::engine::error_class(&e)),
            };
        }
        // host script: allocate while holding the value, collect, then read back
        if let Some(v) = held {
            let guard = tsrun::api::create_guard(&interp);
            for k in 0..8 {
                let _ = tsrun::api::create_from_json(&mut interp, &guard, &json!({"junk": k, "arr": [1, 2, 3, {"deep": [k]}]}));
            }
            drop(guard);
            interp.collect();
            // run a second, allocation-heavy program on the same interpreter while the value is held
            let _ = drive(&mut interp, "const __j = []; for (let i = 0; i < 30; i++) { __j.push({i, s: 'x' + i, a: [i, [i]]}); } __j.length", &RunOpts::default(), &mut |_, _| HostAction::Stop);
            interp.collect();
            let rendered = render_value(&v);
            drop(v);
            interp.collect();
            return format!("{}:{}", end, rendered);
        }
        end
    });
    tsrun::verif_hooks::vm_instr_set_limit(0);
    let end = match r {
        Ok(s) => s,
        Err(p) => format!("panic:{}", p),
    };
    let stale: Vec<String> = tsrun::verif_hooks::take_stale().into_iter().map(|(k, v)| format!("{}x {}", v, k)).collect();
    let l = log.borrow().clone();
    (end, l, stale)
}

impl Property for C02Prop {
    fn id(&self) -> &'static str {
        "C02"
    }
    fn rule(&self) -> String {
        "progen full profile (no gates; allocation-heavy natives, callbacks, getters, generators, classes, Map/Set, destructuring, spread). Each program is run with collection disabled (reference) and under GC thresholds {1,2,3,5,7,100} and host-forced collect() after every k-th step for k in {1,2,3,7,31}; plus a host read-back variant (completion value held by the host across allocations and collections, then serialised). Oracle: identical (completion, console lines) in every run and zero stale-handle events (H1 generation stamp). Non-trivial: at least one schedule ran >= 1 collection that swept >= 20 objects during the run.".into()
    }
    fn assumptions(&self) -> Vec<String> {
        vec!["the reference run is the same engine with collection disabled (defects of C01 cancel out)".into(), "H1 hook: a handle whose slot was swept or re-used is detected on borrow/borrow_mut/clone/drop".into()]
    }
    fn plan(&self, tier: Tier) -> Plan {
        Plan { shards: 16, cases_per_shard: tier.pick(500, 12000), tape_len: tier.pick(700, 1500), watchdog_s: tier.pick(900, 7200) }
    }
    fn generate(&self, tape: &mut Tape, ctx: &Ctx) -> Value {
        let max = if ctx.tier == Tier::Quick { 16 } else { 30 };
        let mut cfg = Config::full(max);
        cfg.alloc_bias = true;
        let p = gen_script(tape, &crate::findings::Gates::none(), cfg);
        json!({"src": p.js(), "src_raw": p.js_raw(), "tags": p.tags})
    }
    fn execute(&self, case: &Value, _ctx: &mut Ctx) -> Exec {
        let src = case["src"].as_str().unwrap_or("");
        let src_raw = case["src_raw"].as_str().unwrap_or("");
        let tags: Vec<String> = case["tags"].as_array().map(|a| a.iter().filter_map(|x| x.as_str().map(|s| s.to_string())).collect()).unwrap_or_default();
        let reference = run_simple(src, &RunOpts { gc_threshold: Some(0), step_budget: 2_000_000, ..Default::default() });
        if reference.end == "budget" {
            return Exec::discard("step budget");
        }
        if reference.end.starts_with("panic:") {
            // crashes of the engine itself are C01/C06 business unless they only happen with GC on
            return Exec::discard("reference run panicked");
        }
        let mut max_swept = 0u64;
        let mut collections = 0u64;
        let mut schedules = 0u64;
        let check = |name: String, out: &crate::engine::Outcome| -> Option<Exec> {
            if !out.stale.is_empty() {
                let sig = format!("c02:stale-handle {}", out.stale.first().cloned().unwrap_or_default());
                let mut e = Exec::fail(sig, format!("stale-handle events under schedule {}: {:?}", name, out.stale));
                e.observed = json!({"schedule": name, "stale": out.stale, "end": out.end});
                return Some(e);
            }
            if out.end.starts_with("panic:") {
                let mut e = Exec::fail(format!("c02:{}", out.end), format!("panic only with collection enabled ({}): {}", name, out.end));
                e.observed = json!({"schedule": name, "end": out.end});
                return Some(e);
            }
            if out.end == "budget" {
                return None;
            }
            if out.visible() != reference.visible() {
                let k = out.log.iter().zip(reference.log.iter()).position(|(a, b)| a != b);
                let mut e = Exec::fail("c02:outcome-differs", format!("outcome under schedule {} differs from the run without collection: end {:?} vs {:?}; first differing log index {:?}", name, out.end, reference.end, k));
                e.observed = json!({"schedule": name, "with_gc": out.to_json(), "without_gc": reference.to_json()});
                return Some(e);
            }
            None
        };
        for &t in THRESHOLDS {
            let out = run_simple(src, &RunOpts { gc_threshold: Some(t), step_budget: 4_000_000, ..Default::default() });
            schedules += 1;
            max_swept = max_swept.max(out.swept);
            collections += out.collections;
            if let Some(e) = check(format!("threshold={}", t), &out) {
                return e.with_tags(tags);
            }
        }
        for &k in COLLECT_EVERY {
            let out = run_simple(src, &RunOpts { gc_threshold: None, collect_every: k, step_budget: 4_000_000, ..Default::default() });
            schedules += 1;
            max_swept = max_swept.max(out.swept);
            collections += out.collections;
            if let Some(e) = check(format!("collect-every={}", k), &out) {
                return e.with_tags(tags);
            }
        }
        // host read-back: reference (no GC) vs threshold 1 + collect every 2 steps
        let (r_end, r_log, r_stale) = run_host_readback(src_raw, 0, 0);
        for (t, k) in [(1usize, 0u64), (3, 2), (100, 1)] {
            let (end, log, stale) = run_host_readback(src_raw, t, k);
            schedules += 1;
            if !stale.is_empty() || !r_stale.is_empty() {
                let mut e = Exec::fail(format!("c02:stale-handle(host) {}", stale.first().or(r_stale.first()).cloned().unwrap_or_default()), format!("stale-handle events in the host read-back run (threshold {}, collect every {}): {:?}", t, k, stale));
                e.observed = json!({"stale": stale, "reference_stale": r_stale});
                return e.with_tags(tags);
            }
            if r_end.starts_with("panic") || end.starts_with("panic") {
                if end != r_end {
                    return Exec::fail(format!("c02:{}", end), format!("host read-back panics only with collection: {} vs {}", end, r_end)).with_tags(tags);
                }
                continue;
            }
            if end != r_end || log != r_log {
                let mut e = Exec::fail("c02:host-readback-differs", format!("value read back by the host differs (threshold {}, collect every {}): {:?} vs {:?}", t, k, end.chars().take(200).collect::<String>(), r_end.chars().take(200).collect::<String>()));
                e.observed = json!({"with_gc": end, "without_gc": r_end});
                return e.with_tags(tags);
            }
        }
        let nontrivial = collections >= 1 && max_swept >= 20;
        let mut e = Exec::pass(nontrivial);
        e.tags = tags;
        e.counters = vec![("schedules_run".into(), schedules), ("collections".into(), collections), ("max_swept_in_a_run".into(), max_swept)];
        e.observed = json!({"end": reference.end, "log_lines": reference.log.len(), "collections": collections, "max_swept": max_swept});
        e
    }
}
