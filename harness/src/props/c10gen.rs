//! C10 program renderer: construct families x size n x context, each with a closed form.
//!
//! Everything here is a pure function of the case spec (no tape, no clock): `render(spec)` gives the
//! program text and the exact console output the generator expects. All digests are integers below
//! `M`, computed the same way by the JS prelude (`__dv`, `__da`, `__ds`, `__do`) and by the Rust mirror.

use serde_json::Value;
use std::fmt::Write as _;

pub const M: u64 = 1_000_003;

pub const PRELUDE: &str = r#"let __g0 = 11;
let __bc = 0;
function __ds(s) { const n = s.length; let h = n % 1000003; if (n <= 4096) { for (let i = 0; i < n; i++) { h = (h * 31 + s.charCodeAt(i)) % 1000003; } } else { for (let j = 0; j < 64; j++) { const p = Math.floor(j * (n - 1) / 63); h = (h * 31 + s.charCodeAt(p)) % 1000003; } } return h; }
function __dv(v) { if (typeof v === "number") { return v % 1000003; } if (typeof v === "string") { return __ds(v); } if (v === undefined) { return 7; } if (v === true) { return 11; } if (v === false) { return 13; } if (v === null) { return 17; } return 19; }
function __da(a) { let h = a.length % 1000003; for (let i = 0; i < a.length; i++) { h = (h * 31 + __dv(a[i])) % 1000003; } return h; }
function __do(o, n, kind) { let h = Object.keys(o).length % 1000003; for (let i = 0; i < n; i++) { h = (h * 31 + __dv(kind === 3 ? o[i] : o["k" + i])) % 1000003; } return h; }
function __mk(n) { const a = []; for (let i = 0; i < n; i++) { a[i] = (i * 7 + 3) % 1009; } return a; }
function __mko(n, step) { const o = {}; for (let i = 0; i < n; i = i + step) { o["k" + i] = (i * 7 + 3) % 1009; } return o; }
function __cr(...a) { return __da(a); }
function __ca() { let h = arguments.length % 1000003; for (let i = 0; i < arguments.length; i++) { h = (h * 31 + __dv(arguments[i])) % 1000003; } return h; }
const __co = { m(...a) { return __da(a); } };
class __CK { constructor(...a) { this.d = __da(a); } }
function __t(v) { __bc = __bc + 1; return v; }
function __k3(a, x, c) { return ((__dv(a) * 31 + __dv(x)) * 31 + __dv(c)) % 1000003; }
function __id(x) { return x; }
function __inc(x) { return x + 1; }
"#;

pub fn fold(h: u64, x: u64) -> u64 {
    (h * 31 + x) % M
}
pub fn ds(s: &str) -> u64 {
    let b = s.as_bytes();
    let n = b.len() as u64;
    let mut h = n % M;
    if n <= 4096 {
        for c in b {
            h = fold(h, *c as u64);
        }
    } else {
        for j in 0..64u64 {
            let p = j * (n - 1) / 63;
            h = fold(h, b[p as usize] as u64);
        }
    }
    h
}
pub fn da(dvs: &[u64]) -> u64 {
    let mut h = dvs.len() as u64 % M;
    for v in dvs {
        h = fold(h, *v);
    }
    h
}
pub fn mkv(i: usize) -> u64 {
    ((i * 7 + 3) % 1009) as u64
}
const DV_UNDEF: u64 = 7;

#[derive(Clone, Debug)]
pub struct Hole {
    pub pos: usize,
    pub expr: String,
    pub val: u64,
}

#[derive(Clone, Debug)]
pub struct Val {
    pub expr: String,
    /// value of `__dv(expr)`
    pub dv: u64,
    /// String(expr)
    pub text: String,
}

#[derive(Clone, Debug, Default)]
pub struct Piece {
    /// top-level declarations (helpers of this piece)
    pub pre: String,
    /// statements valid in a function body or at top level; assign `R{j}`
    pub stmts: String,
    /// numeric expression usable inline (equal to `expect`), when the family has an expression form
    pub num: Option<String>,
    pub expect: u64,
    /// sequence family: a refusal is a violation when n = 1 is accepted
    pub seq: bool,
    /// rough count of dynamic work units (for the instruction budget)
    pub work: u64,
}

pub struct Cx<'a> {
    pub j: usize,
    pub n: usize,
    pub fl: u32,
    pub hole: Option<&'a Hole>,
    /// set when the hole expression was actually placed
    pub used: std::cell::Cell<bool>,
}

impl<'a> Cx<'a> {
    /// element in value position (may be a string)
    pub fn elem(&self, i: usize) -> Val {
        if let Some(h) = self.hole {
            if h.pos == i {
                self.used.set(true);
                return Val { expr: h.expr.clone(), dv: h.val % M, text: h.val.to_string() };
            }
        }
        let fl = if self.fl >= 4 { (i % 4) as u32 } else { self.fl };
        match fl {
            0 => {
                let v = (i % 100) as u64;
                Val { expr: v.to_string(), dv: v, text: v.to_string() }
            }
            1 => {
                let v = 1_000_000 + 3 * i as u64;
                Val { expr: v.to_string(), dv: v % M, text: v.to_string() }
            }
            2 => {
                let s = format!("e{}", i);
                Val { expr: format!("\"{}\"", s), dv: ds(&s), text: s }
            }
            _ => {
                let v = 11 + i as u64;
                Val { expr: format!("(__g0 + {})", i), dv: v % M, text: v.to_string() }
            }
        }
    }
    /// element in numeric position: (expression, numeric value)
    pub fn numval(&self, i: usize) -> (String, u64) {
        if let Some(h) = self.hole {
            if h.pos == i {
                self.used.set(true);
                return (h.expr.clone(), h.val);
            }
        }
        let fl = if self.fl >= 4 { (i % 4) as u32 } else { self.fl };
        match fl {
            0 => ((i % 100).to_string(), (i % 100) as u64),
            1 => ((1_000_000 + 3 * i).to_string(), 1_000_000 + 3 * i as u64),
            2 => (format!("\"e{}\".length", i), format!("e{}", i).len() as u64),
            _ => (format!("(__g0 + {})", i), 11 + i as u64),
        }
    }
    fn r(&self) -> String {
        format!("R{}", self.j)
    }
    fn expr_piece(&self, pre: String, num: String, expect: u64, work: u64) -> Piece {
        Piece { pre, stmts: format!("{} = {};\n", self.r(), num), num: Some(num), expect, seq: false, work }
    }
}

/// indices that are read back when reading all n would double the program: everything up to 600, else
/// the boundaries of the internal widths plus an even spread
pub fn sample_idx(n: usize) -> Vec<usize> {
    if n <= 600 {
        return (0..n).collect();
    }
    let mut v: Vec<usize> = vec![0, 1, 2, 126, 127, 128, 129, 253, 254, 255, 256, 257, 258, 4095, 4096, 32767, 32768, 65533, 65534, 65535, 65536, 65537, 65538];
    for k in 0..40 {
        v.push(k * (n - 1) / 39);
    }
    for k in 1..=3 {
        v.push(n - k);
    }
    v.retain(|i| *i < n);
    v.sort();
    v.dedup();
    v
}

fn join_elems(cx: &Cx, n: usize) -> (String, Vec<Val>) {
    let mut s = String::with_capacity(n * 8);
    let mut vals = Vec::with_capacity(n);
    for i in 0..n {
        let v = cx.elem(i);
        if i > 0 {
            s.push_str(", ");
        }
        s.push_str(&v.expr);
        vals.push(v);
    }
    (s, vals)
}
fn dvs(vals: &[Val]) -> Vec<u64> {
    vals.iter().map(|v| v.dv).collect()
}

// ------------------------------------------------------------------------------------------------
// literal / list families
// ------------------------------------------------------------------------------------------------
pub fn fam_arr(cx: &Cx) -> Piece {
    let (s, vals) = join_elems(cx, cx.n);
    cx.expr_piece(String::new(), format!("__da([{}])", s), da(&dvs(&vals)), cx.n as u64 * 3)
}

pub fn fam_arr_spread(cx: &Cx) -> Piece {
    let mut s = String::new();
    let mut flat = vec![];
    for i in 0..cx.n {
        let v = cx.elem(i);
        if i > 0 {
            s.push_str(", ");
        }
        match i % 5 {
            0 | 2 => {
                let _ = write!(s, "...[{}]", v.expr);
                flat.push(v.dv);
            }
            4 => {
                let _ = write!(s, "...[{}, {}]", v.expr, i % 7);
                flat.push(v.dv);
                flat.push((i % 7) as u64);
            }
            _ => {
                s.push_str(&v.expr);
                flat.push(v.dv);
            }
        }
    }
    cx.expr_piece(String::new(), format!("__da([{}])", s), da(&flat), cx.n as u64 * 6)
}

pub fn fam_obj(cx: &Cx, kv: u32) -> Piece {
    let n = cx.n;
    let mut s = String::with_capacity(n * 12);
    let mut h = n as u64 % M;
    for i in 0..n {
        let v = cx.elem(i);
        if i > 0 {
            s.push_str(", ");
        }
        match kv {
            0 => {
                let _ = write!(s, "k{}: {}", i, v.expr);
            }
            1 => {
                let _ = write!(s, "\"k{}\": {}", i, v.expr);
            }
            2 => {
                let _ = write!(s, "[\"k\" + {}]: {}", i, v.expr);
            }
            _ => {
                let _ = write!(s, "{}: {}", i, v.expr);
            }
        }
        h = fold(h, v.dv);
    }
    cx.expr_piece(String::new(), format!("__do({{{}}}, {}, {})", s, n, kv), h, n as u64 * 8)
}

/// call-like constructs with n literal arguments
pub fn fam_call(cx: &Cx, cv: u32) -> Piece {
    let (s, vals) = join_elems(cx, cx.n);
    let d = da(&dvs(&vals));
    let j = cx.j;
    let w = cx.n as u64 * 4;
    match cv {
        0 => cx.expr_piece(String::new(), format!("__cr({})", s), d, w),
        1 => cx.expr_piece(String::new(), format!("__ca({})", s), d, w),
        2 => cx.expr_piece(String::new(), format!("__co.m({})", s), d, w),
        3 => cx.expr_piece(String::new(), format!("new __CK({}).d", s), d, w),
        4 => cx.expr_piece(String::new(), format!("__cr.call(null{}{})", if cx.n > 0 { ", " } else { "" }, s), d, w),
        5 => cx.expr_piece(String::new(), format!("__cr?.({})", s), d, w),
        6 => {
            let pre = format!("class __B{j} {{ constructor(...a) {{ this.d = __da(a); }} }}\nclass __D{j} extends __B{j} {{ constructor() {{ super({s}); }} }}\n", j = j, s = s);
            cx.expr_piece(pre, format!("new __D{}().d", j), d, w)
        }
        _ => {
            // tagged-template-free "method on computed member": __co["m"](...)
            cx.expr_piece(String::new(), format!("__co[\"m\"]({})", s), d, w)
        }
    }
}

pub fn fam_spread_args(cx: &Cx, cv: u32) -> Piece {
    let mut s = String::new();
    let mut flat = vec![];
    for i in 0..cx.n {
        let v = cx.elem(i);
        if i > 0 {
            s.push_str(", ");
        }
        if i % 3 == 1 {
            let _ = write!(s, "...[{}, {}]", v.expr, i % 9);
            flat.push(v.dv);
            flat.push((i % 9) as u64);
        } else {
            let _ = write!(s, "...[{}]", v.expr);
            flat.push(v.dv);
        }
    }
    let d = da(&flat);
    let w = cx.n as u64 * 8;
    match cv {
        0 => cx.expr_piece(String::new(), format!("__cr({})", s), d, w),
        1 => cx.expr_piece(String::new(), format!("new __CK({}).d", s), d, w),
        _ => cx.expr_piece(String::new(), format!("__co.m({})", s), d, w),
    }
}

/// spread of an array whose length n is only known at run time
pub fn fam_spread_rt(cx: &Cx, kind: u32) -> Piece {
    let n = cx.n;
    let vals: Vec<u64> = (0..n).map(mkv).collect();
    let d = da(&vals);
    let w = n as u64 * 30;
    match kind {
        0 => cx.expr_piece(String::new(), format!("__cr(...__mk({}))", n), d, w),
        1 => cx.expr_piece(String::new(), format!("new __CK(...__mk({})).d", n), d, w),
        2 => {
            let mx = vals.iter().copied().max().map(|m| m + 1).unwrap_or(0);
            cx.expr_piece(String::new(), format!("(Math.max(-1, ...__mk({})) + 1)", n), mx, w)
        }
        3 => cx.expr_piece(String::new(), format!("__da([...__mk({})])", n), d, w),
        4 => cx.expr_piece(String::new(), format!("__cr.apply(null, __mk({}))", n), d, w),
        5 => {
            let mut two = vals.clone();
            two.extend(vals.iter().copied());
            two.push(5);
            cx.expr_piece(String::new(), format!("__da([...__mk({n}), ...__mk({n}), 5])", n = n), da(&two), w * 2)
        }
        6 => cx.expr_piece(String::new(), format!("__co.m(...__mk({}))", n), d, w),
        _ => {
            let mut v2 = vec![1u64];
            v2.extend(vals.iter().copied());
            v2.push(2);
            cx.expr_piece(String::new(), format!("__ca(1, ...__mk({}), 2)", n), da(&v2), w)
        }
    }
}

// ------------------------------------------------------------------------------------------------
// parameters
// ------------------------------------------------------------------------------------------------
fn callee_shell(j: usize, pv: u32, params: &str, body: &str) -> (String, String) {
    // returns (pre, call prefix before "(" args ")"), plus suffix handled by caller through pv
    match pv {
        0 => (format!("function __p{j}({params}) {{\n{body}}}\n", j = j, params = params, body = body), format!("__p{}", j)),
        1 => (format!("const __p{j} = function ({params}) {{\n{body}}};\n", j = j, params = params, body = body), format!("__p{}", j)),
        2 => (format!("const __p{j} = ({params}) => {{\n{body}}};\n", j = j, params = params, body = body), format!("__p{}", j)),
        3 => (
            format!("class __P{j} {{ constructor({params}) {{\nthis.h = (function () {{\n{body}}})();\n}} }}\n", j = j, params = params, body = body),
            format!("new __P{}", j),
        ),
        _ => (format!("const __po{j} = {{ m({params}) {{\n{body}}} }};\n", j = j, params = params, body = body), format!("__po{}.m", j)),
    }
}

pub fn fam_params(cx: &Cx, pv: u32, cv: u32) -> Piece {
    let n = cx.n;
    let j = cx.j;
    let mut params = String::new();
    let mut body = String::new();
    let mut h = n as u64 % M;
    let _ = writeln!(body, "let h = {};", h);
    for i in 0..n {
        if i > 0 {
            params.push_str(", ");
        }
        let _ = write!(params, "p{}", i);
        let _ = writeln!(body, "h = (h * 31 + p{}) % 1000003;", i);
        h = fold(h, mkv(i));
    }
    body.push_str("return h;\n");
    // class constructor: the fold runs in an arrow so that it sees the parameters
    let (pre, callee) = if pv == 3 {
        let b = body.replace("return h;\n", "this.h = h;\n");
        (format!("class __P{j} {{ constructor({params}) {{\n{b}}} }}\n", j = j, params = params, b = b), format!("new __P{}", j))
    } else {
        callee_shell(j, pv, &params, &body)
    };
    let args = match cv {
        0 => (0..n).map(|i| mkv(i).to_string()).collect::<Vec<_>>().join(", "),
        _ => format!("...__mk({})", n),
    };
    let mut num = if cv == 2 && pv != 3 && pv != 4 { format!("{}.apply(null, __mk({}))", callee, n) } else { format!("{}({})", callee, args) };
    if pv == 3 {
        num = format!("{}.h", num);
    }
    cx.expr_piece(pre, num, h, n as u64 * 12)
}

pub fn fam_params_default(cx: &Cx, pv: u32, cv: u32) -> Piece {
    let n = cx.n;
    let j = cx.j;
    let k = n / 2;
    let mut params = String::new();
    let mut body = String::new();
    let mut h = n as u64 % M;
    let _ = writeln!(body, "let h = {};", h);
    let mut prev: u64 = 0;
    for i in 0..n {
        if i > 0 {
            params.push_str(", ");
        }
        let lit = ((i * 5 + 1) % 1013) as u64;
        let (dtext, dval) = if i % 2 == 1 { (format!("p{} + 1", i - 1), prev + 1) } else { (lit.to_string(), lit) };
        let _ = write!(params, "p{} = {}", i, dtext);
        let v = if i < k { mkv(i) } else { dval };
        prev = v;
        let _ = writeln!(body, "h = (h * 31 + p{}) % 1000003;", i);
        h = fold(h, v % M);
    }
    body.push_str("return h;\n");
    let (pre, callee) = if pv == 3 {
        let b = body.replace("return h;\n", "this.h = h;\n");
        (format!("class __P{j} {{ constructor({params}) {{\n{b}}} }}\n", j = j, params = params, b = b), format!("new __P{}", j))
    } else {
        callee_shell(j, pv, &params, &body)
    };
    let args = match cv {
        0 => (0..k).map(|i| mkv(i).to_string()).collect::<Vec<_>>().join(", "),
        _ => format!("...__mk({})", k),
    };
    let mut num = format!("{}({})", callee, args);
    if pv == 3 {
        num = format!("{}.h", num);
    }
    cx.expr_piece(pre, num, h, n as u64 * 14)
}

/// n = number of arguments passed to `function (a, b, ...r)`
pub fn fam_params_rest(cx: &Cx, pv: u32, cv: u32) -> Piece {
    let n = cx.n;
    let j = cx.j;
    let body = "return ((__dv(a) * 31 + __dv(b)) * 31 + __da(r)) % 1000003;\n";
    let (pre, callee) = if pv == 3 {
        (format!("class __P{j} {{ constructor(a, b, ...r) {{ this.h = ((__dv(a) * 31 + __dv(b)) * 31 + __da(r)) % 1000003; }} }}\n", j = j), format!("new __P{}", j))
    } else {
        callee_shell(j, pv, "a, b, ...r", body)
    };
    let a = if n > 0 { mkv(0) } else { DV_UNDEF };
    let b = if n > 1 { mkv(1) } else { DV_UNDEF };
    let rest: Vec<u64> = (2..n).map(mkv).collect();
    let h = ((a * 31 + b) * 31 + da(&rest)) % M;
    let args = match cv {
        0 => (0..n).map(|i| mkv(i).to_string()).collect::<Vec<_>>().join(", "),
        _ => format!("...__mk({})", n),
    };
    let mut num = format!("{}({})", callee, args);
    if pv == 3 {
        num = format!("{}.h", num);
    }
    cx.expr_piece(pre, num, h, n as u64 * 30)
}

// ------------------------------------------------------------------------------------------------
// templates, strings, switch
// ------------------------------------------------------------------------------------------------
pub fn fam_template(cx: &Cx, tv: u32) -> Piece {
    let n = cx.n;
    let mut src = String::from("`");
    let mut text = String::new();
    for i in 0..n {
        if tv == 0 || (tv == 2 && i % 2 == 0) {
            let q = format!("q{}_", i);
            src.push_str(&q);
            text.push_str(&q);
        }
        let v = cx.elem(i);
        let _ = write!(src, "${{{}}}", v.expr);
        text.push_str(&v.text);
    }
    if tv == 0 {
        src.push_str("end");
        text.push_str("end");
    }
    src.push('`');
    cx.expr_piece(String::new(), format!("__ds({})", src), ds(&text), n as u64 * 40 + 100)
}

pub fn fam_tagged(cx: &Cx) -> Piece {
    let n = cx.n;
    let j = cx.j;
    let pre = format!("function __tg{j}(s, ...v) {{ let h = s.length % 1000003; for (let i = 0; i < s.length; i++) {{ h = (h * 31 + __ds(s[i])) % 1000003; }} return (h * 31 + __da(v)) % 1000003; }}\n", j = j);
    let mut src = String::from("`");
    let mut h = (n as u64 + 1) % M;
    let mut vals = vec![];
    for i in 0..n {
        let q = format!("q{}_", i);
        src.push_str(&q);
        h = fold(h, ds(&q));
        let v = cx.elem(i);
        let _ = write!(src, "${{{}}}", v.expr);
        vals.push(v.dv);
    }
    src.push_str("z`");
    h = fold(h, ds("z"));
    h = fold(h, da(&vals));
    cx.expr_piece(pre, format!("__tg{}{}", j, src), h, n as u64 * 80 + 100)
}

fn str_char(i: usize) -> char {
    (b'a' + (i % 26) as u8) as char
}

pub fn fam_strlit(cx: &Cx, qv: u32) -> Piece {
    let n = cx.n;
    let mut text = String::with_capacity(n);
    for i in 0..n {
        text.push(str_char(i));
    }
    let w = 5000;
    match qv {
        0 => cx.expr_piece(String::new(), format!("__ds(\"{}\")", text), ds(&text), w),
        1 => cx.expr_piece(String::new(), format!("__ds('{}')", text), ds(&text), w),
        2 => cx.expr_piece(String::new(), format!("__ds(`{}`)", text), ds(&text), w),
        3 => {
            // every 7th character is an escape
            let mut src = String::with_capacity(n + n / 6);
            let mut val = String::with_capacity(n);
            for i in 0..n {
                if i % 7 == 3 {
                    src.push_str("\\n");
                    val.push('\n');
                } else if i % 7 == 5 {
                    src.push_str("\\x41");
                    val.push('A');
                } else {
                    src.push(str_char(i));
                    val.push(str_char(i));
                }
            }
            cx.expr_piece(String::new(), format!("__ds(\"{}\")", src), ds(&val), w)
        }
        4 => cx.expr_piece(String::new(), format!("__ds(Object.keys({{\"{}\": 1}})[0])", text), ds(&text), w),
        5 => {
            // identifier of length max(n,1)
            let id = if n == 0 { "a".to_string() } else { text.clone() };
            let j = cx.j;
            let id = format!("{}_{}", id, j);
            let expect = 41 + (n as u64 % 1000);
            Piece { pre: String::new(), stmts: format!("let {id} = 41;\nR{j} = {id} + {k};\n", id = id, j = j, k = n % 1000), num: None, expect, seq: false, work: 10 }
        }
        6 => cx.expr_piece(String::new(), format!("(1 /* {} */ + 2)", text), 3, 10),
        _ => {
            // property name of length n in member position
            let name = if n == 0 { "a".to_string() } else { text.clone() };
            cx.expr_piece(String::new(), format!("({{{name}: 5}}).{name}", name = name), 5, 10)
        }
    }
}

pub fn fam_switch(cx: &Cx, sv: u32) -> Piece {
    let n = cx.n;
    let j = cx.j;
    const DEF: u64 = 2_000_003;
    let mut body = String::with_capacity(n * 24);
    let mut vals: Vec<Val> = Vec::with_capacity(n);
    let label = |i: usize| -> String {
        match sv {
            1 => format!("\"c{}\"", i),
            2 => format!("{}", 1_000_000 + i),
            _ => format!("{}", i),
        }
    };
    let mid = n / 2;
    for i in 0..n {
        let v = cx.elem(i);
        if sv == 4 && i == mid {
            let _ = writeln!(body, "default: r = {}; break;", DEF);
        }
        if sv == 3 {
            let _ = writeln!(body, "case {}: r = r + 1;", label(i));
        } else {
            let _ = writeln!(body, "case {}: r = {}; break;", label(i), v.expr);
        }
        vals.push(v);
    }
    if sv == 3 {
        body.push_str("default: r = r + 1000;\n");
    } else if sv != 4 || n == 0 {
        let _ = writeln!(body, "default: r = {};", DEF);
    }
    let mut ks: Vec<usize> = vec![0, 1, 2, 126, 127, 128, 129, 254, 255, 256, 257, 32767, 32768, 65535, 65536, 65537, n / 2, n.saturating_sub(2), n.saturating_sub(1), n];
    ks.retain(|k| *k <= n);
    ks.sort();
    ks.dedup();
    let result = |k: usize| -> u64 {
        if sv == 3 {
            if k < n { (n - k) as u64 + 1000 } else { 1000 }
        } else if k < n {
            vals[k].dv
        } else {
            DEF % M
        }
    };
    let arg = |k: usize| -> String {
        match sv {
            1 => format!("\"c\" + {}", k),
            2 => format!("{}", 1_000_000 + k),
            _ => format!("{}", k),
        }
    };
    let init = if sv == 3 { "0" } else { "-1" };
    let mut h = ks.len() as u64;
    if sv == 5 {
        // inline: the switch sits directly in the body, selecting case n/2 (or default when n = 0)
        let k = if n == 0 { 0 } else { mid };
        let stmts = format!("let K{j} = {arg};\nlet r{j} = {init};\nswitch (K{j}) {{\n{body}}}\nR{j} = __dv(r{j});\n", j = j, arg = arg(k), init = init, body = body.replace("r = ", &format!("r{} = ", j)).replace("= r + ", &format!("= r{} + ", j)));
        return Piece { pre: String::new(), stmts, num: None, expect: result(k), seq: false, work: n as u64 * 4 + 50 };
    }
    let pre = format!("function __sw{j}(k) {{\nlet r = {init};\nswitch (k) {{\n{body}}}\nreturn r;\n}}\n", j = j, init = init, body = body);
    let mut stmts = format!("let hs{j} = {h};\n", j = j, h = h);
    for k in &ks {
        let _ = writeln!(stmts, "hs{j} = (hs{j} * 31 + __dv(__sw{j}({a}))) % 1000003;", j = j, a = arg(*k));
        h = fold(h, result(*k));
    }
    let _ = writeln!(stmts, "R{j} = hs{j};", j = j);
    Piece { pre, stmts, num: None, expect: h, seq: false, work: (n as u64 * 4 + 50) * ks.len() as u64 }
}

// ------------------------------------------------------------------------------------------------
// chains (one expression with n links)
// ------------------------------------------------------------------------------------------------
pub fn fam_chain(cx: &Cx, kind: u32) -> Piece {
    let n = cx.n;
    let j = cx.j;
    let w = n as u64 * 6 + 50;
    match kind {
        // e0 + e1 + ...
        0 => {
            let mut s = String::from("(0");
            let mut sum = 0u64;
            for i in 0..n {
                let (e, v) = cx.numval(i);
                let _ = write!(s, " + {}", e);
                sum += v;
            }
            s.push(')');
            cx.expr_piece(String::new(), s, sum, w)
        }
        // string concatenation
        1 => {
            let mut s = String::from("(\"\"");
            let mut text = String::new();
            for i in 0..n {
                let v = cx.elem(i);
                let _ = write!(s, " + {}", v.expr);
                text.push_str(&v.text);
            }
            s.push(')');
            cx.expr_piece(String::new(), format!("__ds{}", s), ds(&text), w + n as u64 * 30)
        }
        // && with a falsy operand at p = 2n/3 (operands after it must not be evaluated)
        2 | 3 | 4 => {
            let p = if n >= 3 { 2 * n / 3 } else { n };
            let (op, pass, stop): (&str, &dyn Fn(usize) -> String, &str) = match kind {
                2 => ("&&", &|i| format!("{}", i % 50 + 1), "0"),
                3 => ("||", &|i| ["0", "\"\"", "null", "undefined"][i % 4].to_string(), "77"),
                _ => ("??", &|i| ["null", "undefined"][i % 2].to_string(), "0"),
            };
            let mut s = String::from("(");
            for i in 0..n {
                if i > 0 {
                    let _ = write!(s, " {} ", op);
                }
                if i < p {
                    s.push_str(&pass(i));
                } else if i == p {
                    s.push_str(stop);
                } else {
                    let _ = write!(s, "__t({})", i % 9 + 1);
                }
            }
            if n == 0 {
                s.push_str("5");
            }
            s.push(')');
            let value: u64 = if n == 0 {
                5
            } else if p < n {
                if kind == 3 { 77 } else { 0 }
            } else {
                // no stop operand: value of the last operand
                match kind {
                    2 => ((n - 1) % 50 + 1) as u64,
                    3 => [0, DV_UNDEF_STR, 17, 7][(n - 1) % 4],
                    _ => [17, 7][(n - 1) % 2],
                }
            };
            // __dv of the result (strings/null/undefined have digests) + evaluation counter
            let expect = if n == 0 || p < n || kind == 2 { value } else { value };
            cx.expr_piece(String::new(), format!("(__dv{} + __bc * 500009)", s), expect, w)
        }
        // c === 0 ? e0 : c === 1 ? e1 : ... : z
        5 => {
            let k = if n == 0 { 0 } else { 2 * n / 3 };
            let mut s = String::new();
            let mut picked = 424_242u64;
            for i in 0..n {
                let v = cx.elem(i);
                let _ = write!(s, "c === {} ? {} : ", i, v.expr);
                if i == k {
                    picked = v.dv;
                }
            }
            s.push_str("424242");
            cx.expr_piece(String::new(), format!("__dv(((c) => ({}))({}))", s, k), picked, w)
        }
        // comma
        6 => {
            let mut s = String::new();
            let mut sum = 0u64;
            for i in 0..n {
                let (e, v) = cx.numval(i);
                let _ = write!(s, "x = x + {}, ", e);
                sum += v;
            }
            cx.expr_piece(String::new(), format!("((x) => ({}x))(0)", s), sum, w)
        }
        // member chains over an object built at run time
        7 | 8 | 9 => {
            let link = match kind {
                7 => ".a",
                8 => "[\"a\"]",
                _ => "?.a",
            };
            let pre = format!("let __cm{j} = {{v: 7}};\nfor (let i = 0; i < {n}; i++) {{ __cm{j} = {{a: __cm{j}, v: i + 100}}; }}\n", j = j, n = n);
            let mut s = format!("__cm{}", j);
            for _ in 0..n {
                s.push_str(link);
            }
            s.push_str(".v");
            cx.expr_piece(pre, s, 7, w + n as u64 * 10)
        }
        // f()()()...
        10 => {
            let pre = format!("let __ccn{j} = 0;\nfunction __cc{j}() {{ __ccn{j} = __ccn{j} + 1; return __cc{j}; }}\n", j = j);
            let mut s = format!("(__cc{}", j);
            for _ in 0..n {
                s.push_str("()");
            }
            let _ = write!(s, ", __ccn{})", j);
            cx.expr_piece(pre, s, n as u64, w)
        }
        // o.m().m()...
        11 => {
            let pre = format!("const __mo{j} = {{ c: 0, m() {{ this.c = this.c + 1; return this; }} }};\n", j = j);
            let mut s = format!("__mo{}", j);
            for _ in 0..n {
                s.push_str(".m()");
            }
            s.push_str(".c");
            cx.expr_piece(pre, s, n as u64, w)
        }
        // o.a0 = o.a1 = ... = 5
        12 => {
            let pre = format!("const __as{j} = {{}};\n", j = j);
            let mut s = String::from("(");
            for i in 0..n {
                let _ = write!(s, "__as{}.a{} = ", j, i);
            }
            s.push_str("5)");
            cx.expr_piece(pre, format!("({} * 1000 + Object.keys(__as{}).length)", s, j), 5000 + n as u64, w)
        }
        // unary chains
        13 => {
            let mut s = String::new();
            for _ in 0..n {
                s.push('!');
            }
            cx.expr_piece(String::new(), format!("({}true ? 1 : 2)", s), if n % 2 == 0 { 1 } else { 2 }, w)
        }
        14 => {
            let mut s = String::new();
            for _ in 0..n {
                s.push_str("- ");
            }
            cx.expr_piece(String::new(), format!("({}5 + 10)", s), if n % 2 == 0 { 15 } else { 5 }, w)
        }
        15 => {
            let mut s = String::new();
            for _ in 0..n {
                s.push_str("typeof ");
            }
            let text = match n {
                0 => "1",
                1 => "number",
                _ => "string",
            };
            cx.expr_piece(String::new(), format!("__ds(\"\" + ({}1))", s), ds(text), w)
        }
        // 2 ** 1 ** 1 ...
        16 => {
            let mut s = String::from("(2");
            for _ in 0..n {
                s.push_str(" ** 1");
            }
            s.push(')');
            cx.expr_piece(String::new(), s, 2, w)
        }
        // o.p0 + o.p1 + ... (n distinct property names)
        _ => {
            let pre = format!("const __pr{j} = {{}};\nfor (let i = 0; i < {n}; i++) {{ __pr{j}[\"p\" + i] = (i * 7 + 3) % 1009; }}\n", j = j, n = n);
            let mut s = String::from("(0");
            let mut sum = 0;
            for i in 0..n {
                let _ = write!(s, " + __pr{}.p{}", j, i);
                sum += mkv(i);
            }
            s.push(')');
            cx.expr_piece(pre, s, sum, w + n as u64 * 10)
        }
    }
}
// __dv("") : the empty string hashes to its length 0
const DV_UNDEF_STR: u64 = 0;

// ------------------------------------------------------------------------------------------------
// nesting depth n
// ------------------------------------------------------------------------------------------------
pub fn fam_nest(cx: &Cx, kind: u32) -> Piece {
    let n = cx.n;
    let j = cx.j;
    let w = n as u64 * 20 + 50;
    let rep = |s: &str| s.repeat(n);
    match kind {
        0 => {
            let pre = format!("function __un{j}(v) {{ for (let i = 0; i < {n}; i++) {{ v = v[0]; }} return v; }}\n", j = j, n = n);
            cx.expr_piece(pre, format!("__un{}({}7{})", j, rep("["), rep("]")), 7, w)
        }
        1 => {
            let pre = format!("function __un{j}(v) {{ for (let i = 0; i < {n}; i++) {{ v = v.a; }} return v; }}\n", j = j, n = n);
            cx.expr_piece(pre, format!("__un{}({}7{})", j, rep("{a: "), rep("}")), 7, w)
        }
        2 => cx.expr_piece(String::new(), format!("{}7{}", rep("__inc("), rep(")")), 7 + n as u64, w),
        3 => cx.expr_piece(String::new(), format!("({}7{})", rep("("), rep(")")), 7, w),
        4 => Piece { stmts: format!("{}R{} = 7;{}\n", rep("{ "), j, rep(" }")), expect: 7, work: w, ..Default::default() },
        5 => {
            // nested function declarations, called n deep
            let mut s = String::new();
            for i in 0..n {
                let _ = write!(s, "function g{}_{}() {{ ", j, i);
            }
            s.push_str("return 7; ");
            for i in (0..n).rev() {
                if i + 1 < n {
                    let _ = write!(s, "return g{}_{}() + 1; }} ", j, i + 1);
                } else {
                    s.push_str("} ");
                }
            }
            // the innermost returns 7, every level above adds 1 (n >= 1); n = 0: plain value
            let (stmts, expect) = if n == 0 { (format!("R{} = 7;\n", j), 7) } else { (format!("{}\nR{} = g{}_0();\n", s.replacen("return 7; } ", "return 7; } ", 1), j, j), 7 + n as u64 - 1) };
            Piece { stmts, expect, work: w, ..Default::default() }
        }
        6 => {
            // curried arrows: ((a0) => (a1) => ... => a0 + a_{n-1})
            if n == 0 {
                return cx.expr_piece(String::new(), "7".into(), 7, w);
            }
            let mut s = String::new();
            for i in 0..n {
                let _ = write!(s, "(a{}) => ", i);
            }
            let _ = write!(s, "a0 * 1000 + a{}", n - 1);
            let pre = format!("function __ap{j}(f) {{ for (let i = 0; i < {n}; i++) {{ f = f(i + 1); }} return f; }}\n", j = j, n = n);
            cx.expr_piece(pre, format!("__ap{}({})", j, s), 1000 + n as u64, w)
        }
        7 => Piece { stmts: format!("{}R{} = 7;{}\n", rep("if (__g0 === 11) { "), j, rep(" }")), expect: 7, work: w, ..Default::default() },
        8 => {
            let mut s = format!("R{} = 0;\n", j);
            for i in 0..n {
                let _ = write!(s, "for (let i{} = 0; i{} < 1; i{}++) {{ ", i, i, i);
            }
            let _ = write!(s, "R{j} = R{j} + 7;", j = j);
            s.push_str(&rep(" }"));
            s.push('\n');
            Piece { stmts: s, expect: 7, work: w, ..Default::default() }
        }
        9 => {
            // nested try: the innermost throws 1, every level adds 1 and rethrows; the outermost stores
            if n == 0 {
                return Piece { stmts: format!("R{} = 1;\n", j), expect: 1, work: w, ..Default::default() };
            }
            let mut s = String::new();
            s.push_str(&rep("try { "));
            s.push_str("throw 1; ");
            for i in 0..n {
                if i + 1 < n {
                    let _ = write!(s, "}} catch (e{i}) {{ throw e{i} + 1; }} ", i = i);
                } else {
                    let _ = write!(s, "}} catch (e{i}) {{ R{j} = e{i}; }}", i = i, j = j);
                }
            }
            s.push('\n');
            Piece { stmts: s, expect: n as u64, work: w, ..Default::default() }
        }
        10 => cx.expr_piece(String::new(), format!("({}7{})", rep("(__g0 === 11 ? "), rep(" : 0)")), 7, w),
        11 => {
            let mut s = String::new();
            s.push_str(&rep("`a${"));
            s.push('7');
            s.push_str(&rep("}b`"));
            let text = format!("{}7{}", rep("a"), rep("b"));
            cx.expr_piece(String::new(), format!("__ds(\"\" + {})", s), ds(&text), w + n as u64 * 40)
        }
        12 => {
            // nested array pattern
            let pre = format!("function __wr{j}(v) {{ for (let i = 0; i < {n}; i++) {{ v = [v]; }} return v; }}\n", j = j, n = n);
            Piece { pre, stmts: format!("const {}x{}{} = __wr{}(7);\nR{} = x{};\n", rep("["), j, rep("]"), j, j, j).replacen("const x", "const x", 1), expect: 7, work: w, ..Default::default() }
        }
        13 => {
            let pre = format!("function __wr{j}(v) {{ for (let i = 0; i < {n}; i++) {{ v = {{a: v}}; }} return v; }}\n", j = j, n = n);
            let pat = if n == 0 { format!("x{}", j) } else { format!("{}x{}{}", rep("{a: "), j, rep("}")) };
            Piece { pre, stmts: format!("const {} = __wr{}(7);\nR{} = x{};\n", pat, j, j, j), expect: 7, work: w, ..Default::default() }
        }
        14 => {
            // nested function expressions (IIFE): each level adds 1
            let mut s = String::new();
            s.push_str(&rep("(function () { return "));
            s.push('7');
            s.push_str(&rep(" + 1; })()"));
            cx.expr_piece(String::new(), format!("({})", s), 7 + n as u64, w)
        }
        15 => {
            // right-nested additions: a + (b + (c + ...)) keeps n temporaries live
            let mut s = String::new();
            let mut sum = 0;
            for i in 0..n {
                let (e, v) = cx.numval(i);
                let _ = write!(s, "({} + ", e);
                sum += v;
            }
            s.push('1');
            s.push_str(&rep(")"));
            cx.expr_piece(String::new(), format!("({})", s), sum + 1, w)
        }
        16 => {
            // nested calls with live arguments on both sides: __k3(1, __k3(1, ..., 2), 2)
            let mut v = 7u64;
            for _ in 0..n {
                v = ((1 * 31 + v) * 31 + 2) % M;
            }
            cx.expr_piece(String::new(), format!("{}7{}", rep("__k3(1, "), rep(", 2)")), v, w)
        }
        17 => {
            let mut s = format!("R{} = 0;\n", j);
            s.push_str(&rep("switch (__g0) { case 11: "));
            let _ = write!(s, "R{j} = 7;", j = j);
            s.push_str(&rep(" }"));
            s.push('\n');
            Piece { stmts: s, expect: 7, work: w, ..Default::default() }
        }
        18 => {
            // nested while with labelled break out of all levels
            let mut s = format!("R{} = 0;\n", j);
            for i in 0..n {
                let _ = write!(s, "L{}: while (true) {{ ", i);
            }
            let _ = write!(s, "R{j} = R{j} + 7; ", j = j);
            for i in (0..n).rev() {
                let _ = write!(s, "break L{}; }} ", i);
            }
            s.push('\n');
            Piece { stmts: s, expect: 7, work: w, ..Default::default() }
        }
        20 => {
            // a loop with break/continue inside n nested try blocks, then a throw that the innermost catch must see
            if n == 0 {
                return Piece { stmts: format!("R{} = 0;\n", j), expect: 0, work: w, ..Default::default() };
            }
            let mut s = String::new();
            s.push_str(&rep("try { "));
            s.push_str("for (let q = 0; q < 3; q++) { if (q === 0) { continue; } break; } throw 1; ");
            for i in 0..n {
                if i + 1 < n {
                    let _ = write!(s, "}} catch (e{i}) {{ throw e{i} + 1; }} ", i = i);
                } else {
                    let _ = write!(s, "}} catch (e{i}) {{ R{j} = e{i}; }}", i = i, j = j);
                }
            }
            s.push('\n');
            Piece { stmts: s, expect: n as u64, work: w, ..Default::default() }
        }
        _ => {
            // nested array literals that also have siblings: [1, [1, [...], 2], 2]
            let pre = format!("function __un{j}(v) {{ let h = 0; for (let i = 0; i < {n}; i++) {{ h = h + v[0] + v[2]; v = v[1]; }} return h * 10 + v; }}\n", j = j, n = n);
            cx.expr_piece(pre, format!("__un{}({}7{})", j, rep("[1, "), rep(", 2]")), n as u64 * 30 + 7, w)
        }
    }
}

// ------------------------------------------------------------------------------------------------
// destructuring patterns with n elements
// ------------------------------------------------------------------------------------------------
/// fold statements over the sampled names; returns (statements, value) given per-index values
fn fold_reads(hname: &str, n: usize, name: &dyn Fn(usize) -> String, val: &dyn Fn(usize) -> u64) -> (String, u64) {
    let idx = sample_idx(n);
    let mut h = idx.len() as u64 % M;
    let mut s = format!("let {} = {};\n", hname, h);
    for i in idx {
        let _ = writeln!(s, "{h} = ({h} * 31 + {x}) % 1000003;", h = hname, x = name(i));
        h = fold(h, val(i) % M);
    }
    (s, h)
}

pub fn fam_destr_arr(cx: &Cx, dv: u32) -> Piece {
    let n = cx.n;
    let j = cx.j;
    let w = n as u64 * 40 + 100;
    let names = |i: usize| format!("a{}_{}", j, i);
    let list = |f: &dyn Fn(usize) -> String| (0..n).map(|i| f(i)).collect::<Vec<_>>().join(", ");
    match dv {
        0 => {
            let (reads, h) = fold_reads(&format!("hd{}", j), n, &names, &|i| mkv(i));
            Piece { stmts: format!("const [{}] = __mk({});\n{}R{} = hd{};\n", list(&names), n, reads, j, j), expect: h, work: w, ..Default::default() }
        }
        1 => {
            // defaults: the source has only n/2 elements
            let k = n / 2;
            let (reads, h) = fold_reads(&format!("hd{}", j), n, &names, &|i| if i < k { mkv(i) } else { (i % 13) as u64 + 5 });
            Piece { stmts: format!("let [{}] = __mk({});\n{}R{} = hd{};\n", list(&|i| format!("{} = {}", names(i), i % 13 + 5)), k, reads, j, j), expect: h, work: w, ..Default::default() }
        }
        2 => {
            let (reads, h) = fold_reads(&format!("hd{}", j), n, &names, &|i| mkv(i));
            let rest: Vec<u64> = (n..n + 3).map(mkv).collect();
            let sep = if n > 0 { ", " } else { "" };
            Piece {
                stmts: format!("const [{}{}...r{}] = __mk({});\n{}R{} = (hd{} * 31 + __da(r{})) % 1000003;\n", list(&names), sep, j, n + 3, reads, j, j, j),
                expect: fold(h, da(&rest)),
                work: w,
                ..Default::default()
            }
        }
        3 => {
            // assignment pattern into variables declared before
            let (reads, h) = fold_reads(&format!("hd{}", j), n, &names, &|i| mkv(i));
            let decl = if n > 0 { format!("let {};\n", list(&names)) } else { String::new() };
            Piece { stmts: format!("{}[{}] = __mk({});\n{}R{j} = hd{j};\n", decl, list(&names), n, reads, j = j), expect: h, work: w, ..Default::default() }
        }
        4 => {
            // parameter pattern
            let (reads, h) = fold_reads("hd", n, &names, &|i| mkv(i));
            let pre = format!("function __dp{}([{}]) {{\n{}return hd;\n}}\n", j, list(&names), reads);
            cx.expr_piece(pre, format!("__dp{}(__mk({}))", j, n), h, w)
        }
        5 => {
            // for-of head
            let (reads, h) = fold_reads(&format!("hd{}", j), n, &names, &|i| mkv(i));
            Piece { stmts: format!("for (const [{}] of [__mk({})]) {{\n{}R{} = hd{};\n}}\n", list(&names), n, reads, j, j), expect: h, work: w, ..Default::default() }
        }
        _ => {
            // literal source, holes in the pattern at every 4th position
            let pat = (0..n).map(|i| if i % 4 == 3 { String::new() } else { names(i) }).collect::<Vec<_>>().join(", ");
            let src = (0..n).map(|i| mkv(i).to_string()).collect::<Vec<_>>().join(", ");
            let idx: Vec<usize> = sample_idx(n).into_iter().filter(|i| i % 4 != 3).collect();
            let mut h = idx.len() as u64 % M;
            let mut reads = format!("let hd{} = {};\n", j, h);
            for i in idx {
                let _ = writeln!(reads, "hd{j} = (hd{j} * 31 + {x}) % 1000003;", j = j, x = names(i));
                h = fold(h, mkv(i));
            }
            let trail = if n > 0 && n % 4 == 0 { "," } else { "" };
            Piece { stmts: format!("const [{}{}] = [{}];\n{}R{} = hd{};\n", pat, trail, src, reads, j, j), expect: h, work: w, ..Default::default() }
        }
    }
}

pub fn fam_destr_obj(cx: &Cx, ov: u32) -> Piece {
    let n = cx.n;
    let j = cx.j;
    let w = n as u64 * 50 + 100;
    let list = |f: &dyn Fn(usize) -> String| (0..n).map(|i| f(i)).collect::<Vec<_>>().join(", ");
    let hn = format!("hd{}", j);
    match ov {
        0 => {
            // shorthand: binds k{i} itself, so the piece index cannot be part of the name; wrapped in a block
            let (reads, h) = fold_reads(&hn, n, &|i| format!("k{}", i), &|i| mkv(i));
            Piece { stmts: format!("{{\nconst {{{}}} = __mko({}, 1);\n{}R{} = {};\n}}\n", list(&|i| format!("k{}", i)), n, reads, j, hn), expect: h, work: w, ..Default::default() }
        }
        1 => {
            let nm = |i: usize| format!("b{}_{}", j, i);
            let (reads, h) = fold_reads(&hn, n, &nm, &|i| mkv(i));
            Piece { stmts: format!("const {{{}}} = __mko({}, 1);\n{}R{} = {};\n", list(&|i| format!("k{}: {}", i, nm(i))), n, reads, j, hn), expect: h, work: w, ..Default::default() }
        }
        2 => {
            // defaults: the source has only the even keys
            let nm = |i: usize| format!("b{}_{}", j, i);
            let (reads, h) = fold_reads(&hn, n, &nm, &|i| if i % 2 == 0 { mkv(i) } else { (i % 17) as u64 + 2 });
            Piece { stmts: format!("const {{{}}} = __mko({}, 2);\n{}R{} = {};\n", list(&|i| format!("k{}: {} = {}", i, nm(i), i % 17 + 2)), n, reads, j, hn), expect: h, work: w, ..Default::default() }
        }
        3 => {
            let nm = |i: usize| format!("b{}_{}", j, i);
            let (reads, h) = fold_reads(&hn, n, &nm, &|i| mkv(i));
            let sep = if n > 0 { ", " } else { "" };
            let mut hr = 3u64;
            for i in n..n + 3 {
                hr = fold(hr, mkv(i));
            }
            Piece {
                stmts: format!(
                    "const {{{}{}...r{j}}} = __mko({}, 1);\n{}R{j} = ({hn} * 31 + ((((Object.keys(r{j}).length * 31 + r{j}.k{a}) % 1000003 * 31 + r{j}.k{b}) % 1000003 * 31 + r{j}.k{c}) % 1000003)) % 1000003;\n",
                    list(&|i| format!("k{}: {}", i, nm(i))),
                    sep,
                    n + 3,
                    reads,
                    j = j,
                    hn = hn,
                    a = n,
                    b = n + 1,
                    c = n + 2
                ),
                expect: fold(h, hr),
                work: w,
                ..Default::default()
            }
        }
        4 => {
            let nm = |i: usize| format!("b{}", i);
            let (reads, h) = fold_reads("hd", n, &nm, &|i| mkv(i));
            let pre = format!("function __dq{}({{{}}}) {{\n{}return hd;\n}}\n", j, list(&|i| format!("k{}: {}", i, nm(i))), reads);
            cx.expr_piece(pre, format!("__dq{}(__mko({}, 1))", j, n), h, w)
        }
        _ => {
            // assignment pattern into variables declared before
            let nm = |i: usize| format!("b{}_{}", j, i);
            let (reads, h) = fold_reads(&hn, n, &nm, &|i| mkv(i));
            let decl = if n > 0 { format!("let {};\n", list(&nm)) } else { String::new() };
            Piece { stmts: format!("{}({{{}}} = __mko({}, 1));\n{}R{} = {};\n", decl, list(&|i| format!("k{}: {}", i, nm(i))), n, reads, j, hn), expect: h, work: w, ..Default::default() }
        }
    }
}

// ------------------------------------------------------------------------------------------------
// class members
// ------------------------------------------------------------------------------------------------
pub fn fam_class(cx: &Cx, mv: u32) -> Piece {
    let n = cx.n;
    let j = cx.j;
    let w = n as u64 * 60 + 100;
    let mut body = String::with_capacity(n * 30);
    let mut h = n as u64 % M;
    let mut vals = vec![];
    for i in 0..n {
        let v = cx.elem(i);
        let kind = if mv == 7 { (i % 5) as u32 } else { mv };
        match kind {
            0 => {
                let _ = writeln!(body, "m{}() {{ return {}; }}", i, v.expr);
            }
            1 => {
                let _ = writeln!(body, "m{} = {};", i, v.expr);
            }
            2 => {
                let _ = writeln!(body, "static m{} = {};", i, v.expr);
            }
            3 => {
                let _ = writeln!(body, "static m{}() {{ return {}; }}", i, v.expr);
            }
            4 => {
                let _ = writeln!(body, "get m{}() {{ return {}; }}", i, v.expr);
            }
            _ => {
                let _ = writeln!(body, "#m{} = {};", i, v.expr);
            }
        }
        vals.push(v.dv);
    }
    for v in &vals {
        h = fold(h, *v);
    }
    let access = |kind: u32| -> &'static str {
        match kind {
            0 => "c[\"m\" + i]()",
            1 | 4 => "c[\"m\" + i]",
            2 => "C[\"m\" + i]",
            _ => "C[\"m\" + i]()",
        }
    };
    if mv == 5 {
        // private fields read back by a method with a sequence of folds
        let idx = sample_idx(n);
        let mut hh = idx.len() as u64 % M;
        let mut rd = format!("rd() {{\nlet h = {};\n", hh);
        for i in idx {
            let _ = writeln!(rd, "h = (h * 31 + __dv(this.#m{})) % 1000003;", i);
            hh = fold(hh, vals[i]);
        }
        rd.push_str("return h;\n}\n");
        let pre = format!("class __C{j} {{\n{body}{rd}}}\n", j = j, body = body, rd = rd);
        return cx.expr_piece(pre, format!("new __C{}().rd()", j), hh, w);
    }
    let reader = if mv == 7 {
        format!(
            "function __rc{j}(C) {{ const c = new C(); let h = {n} % 1000003; for (let i = 0; i < {n}; i++) {{ const q = i % 5; h = (h * 31 + __dv(q === 0 ? c[\"m\" + i]() : q === 1 ? c[\"m\" + i] : q === 2 ? C[\"m\" + i] : q === 3 ? C[\"m\" + i]() : c[\"m\" + i])) % 1000003; }} return h; }}\n",
            j = j,
            n = n
        )
    } else {
        format!("function __rc{j}(C) {{ const c = new C(); let h = {n} % 1000003; for (let i = 0; i < {n}; i++) {{ h = (h * 31 + __dv({acc})) % 1000003; }} return h; }}\n", j = j, n = n, acc = access(mv))
    };
    let pre = format!("class __C{j} {{\n{body}}}\n{reader}", j = j, body = body, reader = reader);
    cx.expr_piece(pre, format!("__rc{j}(__C{j})", j = j), h, w)
}

// ------------------------------------------------------------------------------------------------
// declarations in one scope; closures
// ------------------------------------------------------------------------------------------------
pub fn fam_decl(cx: &Cx, kw: &str, form: u32) -> Piece {
    let n = cx.n;
    let j = cx.j;
    let mut s = format!("let h{} = {};\n", j, n as u64 % M);
    let mut h = n as u64 % M;
    let mut run = Vec::with_capacity(n);
    if form == 0 && n > 0 {
        let _ = write!(s, "{} ", kw);
    }
    for i in 0..n {
        let (e, v) = cx.numval(i);
        h = fold(h, v % M);
        run.push(h);
        if form == 0 {
            let _ = write!(s, "{}d{}_{} = (h{} = (h{} * 31 + {}) % 1000003)", if i > 0 { ",\n  " } else { "" }, j, i, j, j, e);
        } else {
            let _ = writeln!(s, "{} d{}_{} = (h{} = (h{} * 31 + {}) % 1000003);", kw, j, i, j, j, e);
        }
    }
    if form == 0 && n > 0 {
        s.push_str(";\n");
    }
    let (reads, g) = fold_reads(&format!("g{}", j), n, &|i| format!("d{}_{}", j, i), &|i| run[i]);
    let _ = write!(s, "{}R{j} = (h{j} * 31 + g{j}) % 1000003;\n", reads, j = j);
    Piece { stmts: s, expect: fold(h, g), seq: true, work: n as u64 * 20 + 100, ..Default::default() }
}

pub fn fam_closure_cap(cx: &Cx, kind: u32) -> Piece {
    let n = cx.n;
    let j = cx.j;
    let mut s = String::new();
    let mut vals = vec![];
    for i in 0..n {
        let (e, v) = cx.numval(i);
        let _ = writeln!(s, "let c{}_{} = {};", j, i, e);
        vals.push(v);
    }
    let (reads, h) = fold_reads("hc", n, &|i| format!("c{}_{}", j, i), &|i| vals[i]);
    match kind {
        0 => {
            let _ = write!(s, "const cl{j} = function () {{\n{reads}return hc;\n}};\nR{j} = cl{j}();\n", j = j, reads = reads);
        }
        1 => {
            let _ = write!(s, "const cl{j} = () => {{\n{reads}return hc;\n}};\nR{j} = cl{j}();\n", j = j, reads = reads);
        }
        _ => {
            // the closure writes the captured variables, the enclosing body reads them afterwards
            let idx = sample_idx(n);
            let mut wr = String::new();
            for i in &idx {
                let _ = writeln!(wr, "c{}_{} = c{}_{} + 1;", j, i, j, i);
            }
            let (reads2, h2) = fold_reads(&format!("hw{}", j), n, &|i| format!("c{}_{}", j, i), &|i| vals[i] + 1);
            let _ = write!(s, "const cl{j} = function () {{\n{wr}}};\ncl{j}();\n{reads2}R{j} = hw{j};\n", j = j, wr = wr, reads2 = reads2);
            return Piece { stmts: s, expect: h2, seq: true, work: n as u64 * 30 + 100, ..Default::default() };
        }
    }
    Piece { stmts: s, expect: h, seq: true, work: n as u64 * 30 + 100, ..Default::default() }
}

// ------------------------------------------------------------------------------------------------
// sequences of n statements in one body
// ------------------------------------------------------------------------------------------------
pub const SEQ_KINDS: [&str; 34] = [
    "assign", "decl", "call1", "call2", "call3", "mcall", "new", "iife", "arrow", "try", "trythrow", "if", "for", "while", "switch", "arrlit", "objlit", "template", "destr", "fndecl", "class", "label",
    "propread", "update", "tagged", "push", "spreadcall", "ternary", "logassign", "nestedcall", "strmethod", "forof", "closure", "callexpr",
];

/// one statement of a sequence: appends the text, returns the new accumulator value
fn seq_stmt(s: &mut String, kind: &str, j: usize, i: usize, e: &str, v: u64, h: u64) -> u64 {
    let hn = format!("h{}", j);
    let raw = v;
    let v = v % M;
    match kind {
        "assign" => {
            let _ = writeln!(s, "{h} = ({h} * 31 + {e}) % 1000003;", h = hn, e = e);
            fold(h, v)
        }
        "decl" => {
            let _ = writeln!(s, "const q{j}_{i} = {e}; {h} = ({h} * 31 + q{j}_{i}) % 1000003;", j = j, i = i, h = hn, e = e);
            fold(h, v)
        }
        "call1" => {
            let _ = writeln!(s, "__f1_{}({});", j, e);
            fold(h, v)
        }
        "call2" => {
            let _ = writeln!(s, "__f2_{}({}, {});", j, e, i % 7);
            fold(h, v + (i % 7) as u64)
        }
        "call3" => {
            let _ = writeln!(s, "__f3_{}({}, {}, 1);", j, e, i % 7);
            fold(h, v + (i % 7) as u64 + 1)
        }
        "mcall" => {
            let _ = writeln!(s, "__fo_{}.m({}, {});", j, e, i % 5);
            fold(h, v + (i % 5) as u64)
        }
        "new" => {
            let _ = writeln!(s, "new __FK_{}({}, {});", j, e, i % 5);
            fold(h, v + (i % 5) as u64)
        }
        "iife" => {
            let _ = writeln!(s, "{h} = ({h} * 31 + (function () {{ return {e}; }})()) % 1000003;", h = hn, e = e);
            fold(h, v)
        }
        "arrow" => {
            let _ = writeln!(s, "{h} = ({h} * 31 + (() => {e})()) % 1000003;", h = hn, e = e);
            fold(h, v)
        }
        "try" => {
            let _ = writeln!(s, "try {{ {h} = ({h} * 31 + {e}) % 1000003; }} catch (e) {{ {h} = 1; }}", h = hn, e = e);
            fold(h, v)
        }
        "trythrow" => {
            let _ = writeln!(s, "try {{ throw {e}; }} catch (e) {{ {h} = ({h} * 31 + e) % 1000003; }} finally {{ {h} = ({h} + 1) % 1000003; }}", h = hn, e = e);
            (fold(h, v) + 1) % M
        }
        "if" => {
            let _ = writeln!(s, "if ({h} % 2 === 0) {{ {h} = ({h} * 31 + {e}) % 1000003; }} else {{ {h} = ({h} * 29 + {e} + 1) % 1000003; }}", h = hn, e = e);
            if h % 2 == 0 { fold(h, v) } else { (h * 29 + v + 1) % M }
        }
        "for" => {
            let _ = writeln!(s, "for (let q = 0; q < 2; q++) {{ {h} = ({h} * 31 + {e} + q) % 1000003; }}", h = hn, e = e);
            fold(fold(h, v), v + 1)
        }
        "while" => {
            let _ = writeln!(s, "w{j} = 0; while (w{j} < 2) {{ {h} = ({h} * 31 + {e} + w{j}) % 1000003; w{j}++; }}", j = j, h = hn, e = e);
            fold(fold(h, v), v + 1)
        }
        "switch" => {
            let _ = writeln!(s, "switch ({h} % 3) {{ case 0: {h} = ({h} * 31 + {e}) % 1000003; break; case 1: {h} = ({h} * 29 + {e}) % 1000003; break; default: {h} = ({h} * 23 + {e}) % 1000003; }}", h = hn, e = e);
            match h % 3 {
                0 => fold(h, v),
                1 => (h * 29 + v) % M,
                _ => (h * 23 + v) % M,
            }
        }
        "arrlit" => {
            let _ = writeln!(s, "t{j} = [{e}, {k}, 3]; {h} = ({h} * 31 + t{j}[0] + t{j}[1] + t{j}.length) % 1000003;", j = j, h = hn, e = e, k = i % 11);
            fold(h, v + (i % 11) as u64 + 3)
        }
        "objlit" => {
            let _ = writeln!(s, "t{j} = {{a: {e}, b: {k}}}; {h} = ({h} * 31 + t{j}.a + t{j}.b) % 1000003;", j = j, h = hn, e = e, k = i % 11);
            fold(h, v + (i % 11) as u64)
        }
        "template" => {
            let _ = writeln!(s, "t{j} = `x${{{e}}}y${{{k}}}`; {h} = ({h} * 31 + t{j}.length) % 1000003;", j = j, h = hn, e = e, k = i % 10);
            fold(h, 3 + raw.to_string().len() as u64)
        }
        "destr" => {
            let _ = writeln!(s, "[t{j}, u{j}] = [{e}, {k}]; {h} = ({h} * 31 + t{j} + u{j}) % 1000003;", j = j, h = hn, e = e, k = i % 11);
            fold(h, v + (i % 11) as u64)
        }
        "fndecl" => {
            let _ = writeln!(s, "function fn{j}_{i}() {{ return {e}; }}", j = j, i = i, e = e);
            h
        }
        "class" => {
            let _ = writeln!(s, "class K{j}_{i} {{ m() {{ return {e}; }} }}", j = j, i = i, e = e);
            h
        }
        "label" => {
            let _ = writeln!(s, "L{j}: {{ {h} = ({h} * 31 + {e}) % 1000003; if ({h} >= 0) break L{j}; {h} = 1; }}", j = j, h = hn, e = e);
            fold(h, v)
        }
        "propread" => {
            let _ = writeln!(s, "{h} = ({h} * 31 + __pp{j}.p{i}) % 1000003;", h = hn, j = j, i = i);
            fold(h, mkv(i))
        }
        "update" => {
            let _ = writeln!(s, "{h}++; {h} += {e}; {h} %= 1000003;", h = hn, e = e);
            (h + 1 + v) % M
        }
        "tagged" => {
            let _ = writeln!(s, "{h} = ({h} * 31 + __tq{j}`a${{{e}}}b${{{k}}}c`) % 1000003;", h = hn, j = j, e = e, k = i % 10);
            fold(h, 3 + v + (i % 10) as u64)
        }
        "push" => {
            let _ = writeln!(s, "__pa{j}.push({e}, {k});", j = j, e = e, k = i % 10);
            fold(h, v + (i % 10) as u64)
        }
        "spreadcall" => {
            let _ = writeln!(s, "__f2_{j}(...[{e}, {k}]);", j = j, e = e, k = i % 7);
            fold(h, v + (i % 7) as u64)
        }
        "ternary" => {
            let _ = writeln!(s, "{h} = {h} % 2 === 0 ? ({h} * 31 + {e}) % 1000003 : ({h} * 29 + {e}) % 1000003;", h = hn, e = e);
            if h % 2 == 0 { fold(h, v) } else { (h * 29 + v) % M }
        }
        "logassign" => {
            let _ = writeln!(s, "t{j} = null; t{j} ??= {e}; u{j} = 0; u{j} ||= {k}; {h} = ({h} * 31 + t{j} + u{j}) % 1000003;", j = j, h = hn, e = e, k = i % 9 + 1);
            fold(h, v + (i % 9) as u64 + 1)
        }
        "nestedcall" => {
            let _ = writeln!(s, "{h} = __k3({h}, __id(__inc({e})), {k});", h = hn, e = e, k = i % 9);
            ((h * 31 + (v + 1) % M) * 31 + (i % 9) as u64) % M
        }
        "strmethod" => {
            let _ = writeln!(s, "{h} = ({h} * 31 + \"abcdefghij\".charCodeAt({k}) + \"s{i}\".length) % 1000003;", h = hn, k = i % 10, i = i);
            fold(h, 97 + (i % 10) as u64 + format!("s{}", i).len() as u64)
        }
        "forof" => {
            let _ = writeln!(s, "for (const q of [{e}, {k}]) {{ {h} = ({h} * 31 + q) % 1000003; }}", h = hn, e = e, k = i % 9);
            fold(fold(h, v), (i % 9) as u64)
        }
        "closure" => {
            let _ = writeln!(s, "__fs{j}[{i} % 8] = function () {{ return {e}; }};", j = j, i = i, e = e);
            h
        }
        _ => {
            // "callexpr": call expression statements whose value feeds the accumulator (2 arguments)
            let _ = writeln!(s, "{h} = __k3({h}, {e}, {k});", h = hn, e = e, k = i % 9);
            ((h * 31 + v) * 31 + (i % 9) as u64) % M
        }
    }
}

pub fn fam_seq(cx: &Cx, kind: &str) -> Piece {
    // an element that is evaluated twice cannot host a nested (possibly stateful) construct
    let plain = Cx { j: cx.j, n: cx.n, fl: cx.fl, hole: None, used: std::cell::Cell::new(false) };
    let cx = if matches!(kind, "for" | "while") { &plain } else { cx };
    let n = cx.n;
    let j = cx.j;
    let mut pre = String::new();
    let mut s = String::with_capacity(n * 48 + 200);
    let acc_global = matches!(kind, "call1" | "call2" | "call3" | "mcall" | "new" | "spreadcall");
    let h0 = 1u64;
    let mut h = h0;
    match kind {
        "call1" | "call2" | "call3" | "spreadcall" => {
            let _ = write!(pre, "let __acc{j} = 1;\nfunction __f1_{j}(a) {{ __acc{j} = (__acc{j} * 31 + a) % 1000003; }}\nfunction __f2_{j}(a, b) {{ __acc{j} = (__acc{j} * 31 + a + b) % 1000003; }}\nfunction __f3_{j}(a, b, c) {{ __acc{j} = (__acc{j} * 31 + a + b + c) % 1000003; }}\n", j = j);
        }
        "mcall" => {
            let _ = write!(pre, "let __acc{j} = 1;\nconst __fo_{j} = {{ m(a, b) {{ __acc{j} = (__acc{j} * 31 + a + b) % 1000003; }} }};\n", j = j);
        }
        "new" => {
            let _ = write!(pre, "let __acc{j} = 1;\nclass __FK_{j} {{ constructor(a, b) {{ __acc{j} = (__acc{j} * 31 + a + b) % 1000003; }} }}\n", j = j);
        }
        "propread" => {
            let _ = write!(pre, "const __pp{j} = {{}};\nfor (let i = 0; i < {n}; i++) {{ __pp{j}[\"p\" + i] = (i * 7 + 3) % 1009; }}\n", j = j, n = n);
        }
        "tagged" => {
            let _ = write!(pre, "function __tq{j}(s, a, b) {{ return s.length + a + b; }}\n", j = j);
        }
        _ => {}
    }
    let _ = writeln!(s, "let h{} = {};", j, h0);
    match kind {
        "while" => {
            let _ = writeln!(s, "let w{} = 0;", j);
        }
        "arrlit" | "objlit" | "template" => {
            let _ = writeln!(s, "let t{} = 0;", j);
        }
        "destr" | "logassign" => {
            let _ = writeln!(s, "let t{j} = 0, u{j} = 0;", j = j);
        }
        "push" => {
            let _ = writeln!(s, "const __pa{} = [];", j);
        }
        "closure" => {
            let _ = writeln!(s, "const __fs{} = [];", j);
        }
        _ => {}
    }
    let mut vals = Vec::with_capacity(n);
    for i in 0..n {
        let (e, v) = cx.numval(i);
        h = seq_stmt(&mut s, kind, j, i, &e, v, h);
        vals.push(v % M);
    }
    let r = format!("R{}", j);
    match kind {
        "fndecl" => {
            let (reads, g) = fold_reads(&format!("g{}", j), n, &|i| format!("fn{}_{}()", j, i), &|i| vals[i]);
            let _ = write!(s, "{}{} = g{};\n", reads, r, j);
            h = g;
        }
        "class" => {
            let (reads, g) = fold_reads(&format!("g{}", j), n, &|i| format!("new K{}_{}().m()", j, i), &|i| vals[i]);
            let _ = write!(s, "{}{} = g{};\n", reads, r, j);
            h = g;
        }
        "closure" => {
            // the last 8 closures survive in the ring
            let mut g = 8u64;
            let _ = writeln!(s, "let g{} = 8;", j);
            for k in 0..8usize {
                // index of the last i with i % 8 == k
                let last = if n > k { Some(((n - 1 - k) / 8) * 8 + k) } else { None };
                match last {
                    Some(i) => {
                        let _ = writeln!(s, "g{j} = (g{j} * 31 + __fs{j}[{k}]()) % 1000003;", j = j, k = k);
                        g = fold(g, vals[i]);
                    }
                    None => {
                        let _ = writeln!(s, "g{j} = (g{j} * 31 + (__fs{j}[{k}] === undefined ? 5 : 6)) % 1000003;", j = j, k = k);
                        g = fold(g, 5);
                    }
                }
            }
            let _ = writeln!(s, "{} = g{};", r, j);
            h = g;
        }
        "push" => {
            // the array holds 2n values; digest = length and a fold over sampled pairs
            let idx = sample_idx(n);
            let mut g = (2 * n as u64) % M;
            let _ = writeln!(s, "let g{j} = __pa{j}.length % 1000003;", j = j);
            for i in idx {
                let _ = writeln!(s, "g{j} = (g{j} * 31 + __pa{j}[{a}] + __pa{j}[{b}]) % 1000003;", j = j, a = 2 * i, b = 2 * i + 1);
                g = fold(g, vals[i] + (i % 10) as u64);
            }
            let _ = writeln!(s, "{} = g{};", r, j);
            h = g;
        }
        _ => {
            if acc_global {
                let _ = writeln!(s, "{} = __acc{};", r, j);
            } else {
                let _ = writeln!(s, "{} = h{};", r, j);
            }
        }
    }
    Piece { pre, stmts: s, num: None, expect: h, seq: true, work: n as u64 * 40 + 200 }
}

// ------------------------------------------------------------------------------------------------
// long bodies: jumps that span n statements
// ------------------------------------------------------------------------------------------------
pub const LB_KINDS: [&str; 14] = ["while", "iftrue", "iffalse", "trycatch", "switch", "breakcont", "forof", "dowhile", "labeled", "generator", "fntail", "condexpr", "tryfinally", "forin"];

pub fn fam_longbody(cx: &Cx, kind: &str) -> Piece {
    // bodies that run more than once cannot host a nested (possibly stateful) construct
    let plain = Cx { j: cx.j, n: cx.n, fl: cx.fl, hole: None, used: std::cell::Cell::new(false) };
    let cx = if matches!(kind, "while" | "breakcont" | "forof" | "forin" | "dowhile" | "labeled") { &plain } else { cx };
    let n = cx.n;
    let j = cx.j;
    let hn = format!("h{}", j);
    // the body: n fold statements; simulated by `run`
    let mut body = String::with_capacity(n * 40);
    let mut stmts_v: Vec<String> = Vec::new();
    let mut vs = Vec::with_capacity(n);
    for i in 0..n {
        let (e, v) = cx.numval(i);
        let st = format!("{h} = ({h} * 31 + {e}) % 1000003;\n", h = hn, e = e);
        body.push_str(&st);
        if kind == "generator" {
            stmts_v.push(st);
        }
        vs.push(v % M);
    }
    let run = |mut h: u64| -> u64 {
        for v in &vs {
            h = fold(h, *v);
        }
        h
    };
    let mut s = format!("let {} = 1;\n", hn);
    let mut h = 1u64;
    let work = n as u64 * 40 + 200;
    match kind {
        "while" => {
            let _ = write!(s, "let c{j} = 0;\nwhile (c{j} < 2) {{\n{body}c{j}++;\n}}\n", j = j, body = body);
            h = run(run(h));
        }
        "iftrue" => {
            let _ = write!(s, "if (__g0 === 11) {{\n{body}}} else {{\n{h} = 5;\n}}\n{h} = ({h} * 31 + 2) % 1000003;\n", body = body, h = hn);
            h = fold(run(h), 2);
        }
        "iffalse" => {
            let _ = write!(s, "if (__g0 !== 11) {{\n{body}}} else {{\n{h} = 5;\n}}\n{h} = ({h} * 31 + 2) % 1000003;\n", body = body, h = hn);
            h = fold(5, 2);
        }
        "trycatch" => {
            let _ = write!(s, "try {{\n{body}throw 9;\n}} catch (e) {{\n{h} = ({h} * 31 + e) % 1000003;\n}}\n", body = body, h = hn);
            h = fold(run(h), 9);
        }
        "tryfinally" => {
            let _ = write!(s, "L{j}: try {{\n{body}break L{j};\n}} finally {{\n{h} = ({h} * 31 + 4) % 1000003;\n}}\n{h} = ({h} * 31 + 6) % 1000003;\n", j = j, body = body, h = hn);
            h = fold(fold(run(h), 4), 6);
        }
        "switch" => {
            let _ = write!(s, "switch (__g0) {{\ncase 1:\n{body}break;\ncase 11:\n{h} = ({h} * 31 + 3) % 1000003;\n{body}break;\ndefault:\n{h} = 5;\n}}\n", body = body, h = hn);
            h = run(fold(h, 3));
        }
        "breakcont" => {
            let _ = write!(s, "for (let c{j} = 0; c{j} < 4; c{j}++) {{\nif (c{j} === 1) {{ continue; }}\nif (c{j} === 3) {{ break; }}\n{body}}}\n", j = j, body = body);
            h = run(run(h));
        }
        "forof" => {
            let _ = write!(s, "for (const c{j} of [1, 2]) {{\n{h} = ({h} * 31 + c{j}) % 1000003;\n{body}}}\n", j = j, body = body, h = hn);
            h = run(fold(run(fold(h, 1)), 2));
        }
        "forin" => {
            let _ = write!(s, "for (const c{j} in {{a: 1, b: 2}}) {{\n{h} = ({h} * 31 + c{j}.length) % 1000003;\n{body}}}\n", j = j, body = body, h = hn);
            h = run(fold(run(fold(h, 1)), 1));
        }
        "dowhile" => {
            let _ = write!(s, "let c{j} = 0;\ndo {{\n{body}c{j}++;\n}} while (c{j} < 2);\n", j = j, body = body);
            h = run(run(h));
        }
        "labeled" => {
            let _ = write!(s, "O{j}: for (let c{j} = 0; c{j} < 2; c{j}++) {{\nfor (let d{j} = 0; d{j} < 5; d{j}++) {{\n{body}if (d{j} === 0) {{ continue O{j}; }}\n{h} = 5;\n}}\n}}\n", j = j, body = body, h = hn);
            h = run(run(h));
        }
        "generator" => {
            // yields at the quarters of the body: the resumption point lies beyond 2^16 instructions
            let mut gb = String::with_capacity(body.len() + 200);
            let mut expect_y = vec![];
            let mut hh = h;
            for (i, st) in stmts_v.iter().enumerate() {
                gb.push_str(st);
                hh = fold(hh, vs[i]);
                if n >= 4 && (i + 1) % (n / 4) == 0 && expect_y.len() < 3 {
                    let _ = writeln!(gb, "yield {};", hn);
                    expect_y.push(hh);
                }
            }
            let _ = write!(s, "function* gen{j}() {{\n{gb}return 8;\n}}\nlet y{j} = 1;\nfor (const q of gen{j}()) {{ y{j} = (y{j} * 31 + q) % 1000003; }}\n{h} = ({h} * 31 + y{j}) % 1000003;\n", j = j, gb = gb, h = hn);
            let mut y = 1u64;
            for e in expect_y {
                y = fold(y, e);
            }
            h = fold(run(h), y);
        }
        "fntail" => {
            let _ = write!(s, "{body}const tl{j} = function (a) {{ return a + 1; }};\nif ({h} < 0) {{ {h} = 0; }}\n{h} = ({h} * 31 + tl{j}(4)) % 1000003;\n", j = j, body = body, h = hn);
            h = fold(run(h), 5);
        }
        _ => {
            // "condexpr": both arms of ?: / && are long chains (n links each)
            let mut a = String::from("(0");
            let mut sum = 0u64;
            for i in 0..n {
                let (e, v) = cx.numval(i);
                let _ = write!(a, " + {}", e);
                sum += v;
            }
            a.push(')');
            let _ = write!(s, "{h} = (__g0 === 11 ? {a} : 1) % 1000003;\n{h} = ({h} * 31 + (__g0 !== 11 ? {a} : 2)) % 1000003;\n{h} = ({h} * 31 + ((__g0 !== 11 && {a}) === false ? 3 : 4)) % 1000003;\n", h = hn, a = a);
            h = fold(fold(sum % M, 2), 3);
        }
    }
    let _ = writeln!(s, "R{} = {};", j, hn);
    Piece { pre: String::new(), stmts: s, num: None, expect: h, seq: kind != "condexpr", work: work * 3 }
}

// ------------------------------------------------------------------------------------------------
// program assembly
// ------------------------------------------------------------------------------------------------
pub struct Program {
    pub src: String,
    pub expect: String,
    /// some part is a sequence family with n > 1
    pub has_long_seq: bool,
    pub work: u64,
    pub max_n: usize,
    pub fams: Vec<String>,
}

fn u(p: &Value, k: &str) -> u32 {
    p[k].as_u64().unwrap_or(0) as u32
}

pub fn is_seq_family(fam: &str, kind: &str) -> bool {
    match fam {
        "seq" | "decl" | "closure" => true,
        "lb" => kind != "condexpr",
        _ => false,
    }
}

pub fn part_label(p: &Value) -> String {
    let fam = p["fam"].as_str().unwrap_or("?");
    match p["kind"].as_str() {
        Some(k) => format!("{}:{}", fam, k),
        None => format!("{}:{}", fam, u(p, "k")),
    }
}

pub fn build_piece(p: &Value, j: usize, hole: Option<&Hole>) -> Result<(Piece, bool), String> {
    let fam = p["fam"].as_str().ok_or("part without fam")?;
    let n = p["n"].as_u64().unwrap_or(0) as usize;
    let k = u(p, "k");
    let k2 = u(p, "k2");
    let kind = p["kind"].as_str().unwrap_or("");
    let cx = Cx { j, n, fl: u(p, "fl"), hole, used: std::cell::Cell::new(false) };
    let piece = match fam {
        "arr" => fam_arr(&cx),
        "arr_spread" => fam_arr_spread(&cx),
        "obj" => fam_obj(&cx, k),
        "call" => fam_call(&cx, k),
        "spread_args" => fam_spread_args(&cx, k),
        "spread_rt" => fam_spread_rt(&cx, k),
        "params" => fam_params(&cx, k, k2),
        "params_default" => fam_params_default(&cx, k, k2),
        "params_rest" => fam_params_rest(&cx, k, k2),
        "template" => fam_template(&cx, k),
        "tagged" => fam_tagged(&cx),
        "strlit" => fam_strlit(&cx, k),
        "switch" => fam_switch(&cx, k),
        "chain" => fam_chain(&cx, k),
        "nest" => fam_nest(&cx, k),
        "destr_arr" => fam_destr_arr(&cx, k),
        "destr_obj" => fam_destr_obj(&cx, k),
        "class" => fam_class(&cx, k),
        "decl" => fam_decl(&cx, ["let", "const", "var"][(k % 3) as usize], k2),
        "closure" => fam_closure_cap(&cx, k),
        "seq" => {
            if !SEQ_KINDS.contains(&kind) {
                return Err(format!("unknown seq kind {}", kind));
            }
            fam_seq(&cx, kind)
        }
        "lb" => {
            if !LB_KINDS.contains(&kind) {
                return Err(format!("unknown lb kind {}", kind));
            }
            fam_longbody(&cx, kind)
        }
        other => return Err(format!("unknown family {}", other)),
    };
    Ok((piece, cx.used.get()))
}

fn iife(j: usize, p: &Piece) -> String {
    match &p.num {
        Some(x) => x.clone(),
        None => format!("(function () {{\nlet R{j};\n{stmts}return R{j};\n}})()", j = j, stmts = p.stmts),
    }
}

pub fn render(spec: &Value) -> Result<Program, String> {
    let parts = spec["parts"].as_array().ok_or("spec without parts")?;
    if parts.is_empty() || parts.len() > 4 {
        return Err("1..4 parts".into());
    }
    let ctx = spec["ctx"].as_str().unwrap_or("top");
    let lv = u(spec, "lv");
    let nest = spec["nest"].as_bool().unwrap_or(false);
    let mut pre = String::new();
    let mut pieces: Vec<(usize, Piece)> = vec![];
    let mut work = 0u64;
    let mut has_long_seq = false;
    let mut max_n = 0usize;
    let mut fams = vec![];
    for p in parts {
        let n = p["n"].as_u64().unwrap_or(0) as usize;
        max_n = max_n.max(n);
        fams.push(part_label(p));
        if is_seq_family(p["fam"].as_str().unwrap_or(""), p["kind"].as_str().unwrap_or("")) && n > 1 {
            has_long_seq = true;
        }
    }
    let mut start = 0;
    if nest && parts.len() >= 2 {
        // the last part sits inside the first one (at element n/2)
        let jl = parts.len() - 1;
        let (inner, _) = build_piece(&parts[jl], jl, None)?;
        let host_n = parts[0]["n"].as_u64().unwrap_or(0) as usize;
        let hole = Hole { pos: host_n / 2, expr: iife(jl, &inner), val: inner.expect };
        let (host, used) = build_piece(&parts[0], 0, Some(&hole))?;
        if used {
            pre.push_str(&inner.pre);
            pre.push_str(&host.pre);
            work += inner.work + host.work;
            pieces.push((0, host));
            start = 1;
            for (j, p) in parts.iter().enumerate().take(jl).skip(1) {
                let (pc, _) = build_piece(p, j, None)?;
                pre.push_str(&pc.pre);
                work += pc.work;
                pieces.push((j, pc));
            }
            start = parts.len().max(start);
        }
    }
    if start == 0 {
        for (j, p) in parts.iter().enumerate() {
            let (pc, _) = build_piece(p, j, None)?;
            pre.push_str(&pc.pre);
            work += pc.work;
            pieces.push((j, pc));
        }
    }
    let mut src = String::with_capacity(pre.len() + 4096);
    src.push_str("console.log(\"start\");\n");
    src.push_str(PRELUDE);
    src.push_str(&pre);
    let decl_r: String = pieces.iter().map(|(j, _)| format!("let R{};\n", j)).collect();
    let all_stmts: String = pieces.iter().map(|(_, p)| p.stmts.as_str()).collect();
    let rs_js: String = pieces.iter().map(|(j, _)| format!("R{} + \"|\" + ", j)).collect();
    let rs_exp: String = pieces.iter().map(|(_, p)| format!("{}|", p.expect)).collect();
    let sent = "let s0 = 11;\nconst s1 = \"s\";\nvar s2 = 7;\n";
    let expect;
    match ctx {
        "top" => {
            let _ = write!(src, "{sent}{decl_r}{all_stmts}console.log(\"\" + {rs_js}s0 + s1 + s2);\n", sent = sent, decl_r = decl_r, all_stmts = all_stmts, rs_js = rs_js);
            expect = format!("{}11s7", rs_exp);
        }
        "fn" => {
            let _ = write!(
                src,
                "function __main(p0, p1) {{\n{sent}{decl_r}{all_stmts}return \"\" + {rs_js}s0 + s1 + s2 + p0 + p1;\n}}\nconsole.log(__main(3, \"q\"));\n",
                sent = sent,
                decl_r = decl_r,
                all_stmts = all_stmts,
                rs_js = rs_js
            );
            expect = format!("{}11s73q", rs_exp);
        }
        "encl" => {
            let _ = write!(
                src,
                "function __outer(p0, p1) {{\n{sent}let t = 0;\nfunction __inner(q0) {{\nlet i0 = 5;\n{decl_r}{all_stmts}t = t + 1;\ns2 = s2 + 1;\nreturn \"\" + {rs_js}i0 + q0 + s0 + s1;\n}}\nconst r = __inner(9);\nreturn r + \"|\" + s0 + s1 + s2 + p0 + p1 + t;\n}}\nconsole.log(__outer(3, \"q\"));\n",
                sent = sent,
                decl_r = decl_r,
                all_stmts = all_stmts,
                rs_js = rs_js
            );
            expect = format!("{}5911s|11s83q1", rs_exp);
        }
        "live" => {
            let xs: Vec<(String, u64)> = pieces.iter().map(|(j, p)| (iife(*j, p), p.expect)).collect();
            let mut body = String::new();
            let mut exp = String::new();
            if lv == 5 {
                // every piece is an argument of one call, between two live sentinels
                let args: Vec<&str> = xs.iter().map(|x| x.0.as_str()).collect();
                let _ = writeln!(body, "let L0 = __cr(s0, {}, s2);", args.join(", "));
                let mut d = vec![11u64];
                d.extend(xs.iter().map(|x| x.1 % M));
                d.push(7);
                let _ = write!(exp, "{}|", da(&d));
                body.push_str("return \"\" + L0 + \"|\" + s0 + s1 + s2 + p0 + p1;\n");
            } else {
                for (i, (x, v)) in xs.iter().enumerate() {
                    let vm = *v % M;
                    match (lv + i as u32) % 5 {
                        0 => {
                            let _ = writeln!(body, "let L{} = __k3(s0, {}, s2);", i, x);
                            let _ = write!(exp, "{}|", ((11 * 31 + vm) * 31 + 7) % M);
                        }
                        1 => {
                            let _ = writeln!(body, "let L{} = s0 + {} + s2;", i, x);
                            let _ = write!(exp, "{}|", 18 + v);
                        }
                        2 => {
                            let _ = writeln!(body, "let L{} = __da([s0, {}, s2, s1]);", i, x);
                            let _ = write!(exp, "{}|", da(&[11, vm, 7, ds("s")]));
                        }
                        3 => {
                            let _ = writeln!(body, "let L{} = __ds(`${{s0}}|${{{}}}|${{s2}}`);", i, x);
                            let _ = write!(exp, "{}|", ds(&format!("11|{}|7", v)));
                        }
                        _ => {
                            let _ = writeln!(body, "let L{} = __do({{k0: s0, k1: {}, k2: s2}}, 3, 0);", i, x);
                            let _ = write!(exp, "{}|", fold(fold(fold(3, 11), vm), 7));
                        }
                    }
                }
                let ls: String = (0..xs.len()).map(|i| format!("L{} + \"|\" + ", i)).collect();
                let _ = writeln!(body, "return \"\" + {}s0 + s1 + s2 + p0 + p1;", ls);
            }
            let _ = write!(src, "function __main(p0, p1) {{\n{sent}{body}}}\nconsole.log(__main(3, \"q\"));\n", sent = sent, body = body);
            expect = format!("{}11s73q", exp);
        }
        other => return Err(format!("unknown ctx {}", other)),
    }
    Ok(Program { src, expect, has_long_seq, work, max_n, fams })
}

/// the same spec with every sequence part cut down to at most one statement
pub fn shortened(spec: &Value) -> Option<Value> {
    let mut s = spec.clone();
    let mut changed = false;
    if let Some(parts) = s["parts"].as_array_mut() {
        for p in parts.iter_mut() {
            let seq = is_seq_family(p["fam"].as_str().unwrap_or(""), p["kind"].as_str().unwrap_or(""));
            let n = p["n"].as_u64().unwrap_or(0);
            if seq && n > 1 {
                p["n"] = Value::from(1u64);
                changed = true;
            }
        }
    }
    if changed { Some(s) } else { None }
}
