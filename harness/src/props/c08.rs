//! C08 — the order protocol is exact: every order reported once, no lost wake-ups.
//!
//! Stateful model-based test. A small DSL (c08model.rs) generates module programs with <= 6 orders
//! (+ an optional flush order); the host script (answer / settle / unknown id / duplicate / re-settle /
//! spurious step / forced collect / payload re-read) is planned from the tape against the LEDGER MODEL and then
//! replayed action by action against the live interpreter. After every step the real result must be the one
//! the model predicts, and the ledger invariants I1-I6 are checked (see `rule()`).

use super::c08model::*;
use crate::core::{guarded, Ctx, Exec, Plan, Property, Tier};
use crate::engine::{new_interp, render_js, reset_hooks};
use crate::tape::Tape;
use serde_json::{json, Value};
use std::cell::RefCell;
use std::collections::BTreeMap;
use std::rc::Rc;
use tsrun::{api, Interpreter, JsError, JsValue, ModulePath, Order, OrderId, OrderResponse, RuntimeValue, StepResult};

pub struct C08Prop;
pub static C08: C08Prop = C08Prop;

const GATE_CANCEL_AT_COMPLETE: &str = "c08:cancel-at-complete";
const FLUSH_SITE: u32 = 99;
const MAX_SITES: u32 = 6;
const RANDOM_TURNS: usize = 26;
const MAX_TURNS: usize = 60;
const STEP_BUDGET: u64 = 400_000;

// ------------------------------------------------------------------------------------------------
// Generator
// ------------------------------------------------------------------------------------------------
#[derive(Clone, Copy, PartialEq, Eq, Debug)]
enum VK {
    Plain,
    Prom,
    Id,
}

struct Gen<'t, 'd> {
    tape: &'t mut Tape<'d>,
    nvars: u32,
    sites: Sites,
    funcs: Vec<Func>,
    next_try: u32,
    env: Vec<(u32, VK)>,
    tags: Vec<String>,
}

impl<'t, 'd> Gen<'t, 'd> {
    fn fresh(&mut self, k: Option<VK>) -> u32 {
        self.nvars += 1;
        if let Some(k) = k {
            self.env.push((self.nvars, k));
        }
        self.nvars
    }
    fn vars_of(&self, k: VK) -> Vec<u32> {
        self.env.iter().filter(|(_, kk)| *kk == k).map(|(v, _)| *v).collect()
    }
    fn orders_left(&self) -> bool {
        (self.sites.len() as u32) < MAX_SITES
    }
    fn new_site(&mut self, promise_only: bool) -> (u32, Kind) {
        let site = self.sites.len() as u32 + 1;
        let ws: [u32; 7] = if promise_only { [0, 0, 0, 4, 5, 0, 2] } else { [2, 2, 2, 4, 5, 2, 2] };
        let kind = [Kind::Val, Kind::Obj, Kind::Err, Kind::PromPlain, Kind::PromLinked, Kind::IdEcho, Kind::Callback][self.tape.weighted(&ws)];
        let resolve = !self.tape.chance(1, 3);
        self.sites.insert(site, Site { kind, resolve });
        self.tags.push(format!("answer-kind:{}", kind.name()));
        if kind.is_promise() {
            self.tags.push(format!("settle:{}", if resolve { "resolve" } else { "reject" }));
        }
        (site, kind)
    }
    fn order_stmt(&mut self, awaited: bool) -> Stmt {
        self.order_stmt_of(awaited, false)
    }
    /// wrap a statement that may throw into its own try/catch, most of the time
    fn guard_stmt(&mut self, s: Stmt) -> Stmt {
        if self.tape.chance(3, 5) {
            self.next_try += 1;
            Stmt::Try { id: self.next_try, body: vec![s], handler: vec![] }
        } else {
            s
        }
    }
    fn order_stmt_of(&mut self, awaited: bool, promise_only: bool) -> Stmt {
        let (site, kind) = self.new_site(promise_only);
        let plain = self.vars_of(VK::Plain);
        let with = if !plain.is_empty() && self.tape.chance(1, 3) { Some(*self.tape.pick(&plain)) } else { None };
        let vk = match (kind, awaited) {
            (Kind::IdEcho, _) => VK::Id,
            (k, false) if k.is_promise() => VK::Prom,
            _ => VK::Plain,
        };
        let var = self.fresh(Some(vk));
        Stmt::Order { var, site, awaited, with }
    }
    fn block(&mut self, depth: u32) -> Vec<Stmt> {
        let n = if depth == 0 { 2 + self.tape.below(5) } else { 1 + self.tape.below(3) };
        let mut out = vec![];
        for _ in 0..n {
            let proms = self.vars_of(VK::Prom);
            let ids = self.vars_of(VK::Id);
            let plains = self.vars_of(VK::Plain);
            let ol = self.orders_left();
            let ws = [
                if ol { 5 } else { 0 },                                     // 0 await order
                if ol { 5 } else { 0 },                                     // 1 order, used later
                if !proms.is_empty() { 4 } else { 0 },                      // 2 await var
                if !proms.is_empty() { 6 } else { 0 },                      // 3 combinator
                if depth < 2 { 3 } else { 0 },                              // 4 try
                if !proms.is_empty() { 2 } else { 0 },                      // 5 then / catch
                if !ids.is_empty() { 3 } else { 0 },                        // 6 __cancelOrder__
                1,                                                          // 7 __getOrderId__
                if depth < 2 && self.funcs.len() < 3 && ol { 2 } else { 0 }, // 8 nested async function
                if (self.sites.len() as u32) + 2 <= MAX_SITES { 5 } else { 0 }, // 9 fan-out: 2-3 promise orders + combinator
            ];
            match self.tape.weighted(&ws) {
                0 => {
                    let st = self.order_stmt(true);
                    let risky = matches!(&st, Stmt::Order { site, .. } if self.sites.get(site).map(|x| x.kind == Kind::Err || (x.kind.is_promise() && !x.resolve)).unwrap_or(false));
                    let st = if risky { self.guard_stmt(st) } else { st };
                    out.push(st);
                }
                1 => {
                    let st = self.order_stmt(false);
                    let risky = matches!(&st, Stmt::Order { site, .. } if self.sites.get(site).map(|x| x.kind == Kind::Err).unwrap_or(false));
                    let st = if risky { self.guard_stmt(st) } else { st };
                    out.push(st);
                }
                2 => {
                    let src = if !plains.is_empty() && self.tape.chance(1, 6) { *self.tape.pick(&plains) } else { *self.tape.pick(&proms) };
                    let var = self.fresh(Some(VK::Plain));
                    let st = self.guard_stmt(Stmt::Await { var, src });
                    out.push(st);
                }
                9 => {
                    let k = 2 + self.tape.below(2);
                    let mut args = vec![];
                    for _ in 0..k {
                        if !self.orders_left() {
                            break;
                        }
                        let st = self.order_stmt_of(false, true);
                        if let Stmt::Order { var, .. } = &st {
                            args.push(*var);
                        }
                        out.push(st);
                    }
                    if !proms.is_empty() && self.tape.chance(1, 4) {
                        args.push(*self.tape.pick(&proms));
                    }
                    let f = [Comb::All, Comb::Race, Comb::Any, Comb::AllSettled][self.tape.weighted(&[2, 3, 2, 2])];
                    let awaited = !self.tape.chance(1, 4);
                    let var = self.fresh(Some(if awaited { VK::Plain } else { VK::Prom }));
                    let st = Stmt::Comb { var, f, args, awaited };
                    let st = if awaited { self.guard_stmt(st) } else { st };
                    out.push(st);
                }
                3 => {
                    let f = [Comb::All, Comb::Race, Comb::Any, Comb::AllSettled][self.tape.weighted(&[2, 3, 2, 2])];
                    let want = 1 + self.tape.below(3);
                    let mut args: Vec<u32> = vec![];
                    for _ in 0..want {
                        let pool: Vec<u32> = if !plains.is_empty() && self.tape.chance(1, 6) { plains.clone() } else { proms.clone() };
                        let cand: Vec<u32> = pool.into_iter().filter(|v| !args.contains(v)).collect();
                        if cand.is_empty() {
                            continue;
                        }
                        args.push(*self.tape.pick(&cand));
                    }
                    if args.is_empty() {
                        args.push(proms[0]);
                    }
                    let awaited = !self.tape.chance(1, 3);
                    let var = self.fresh(Some(if awaited { VK::Plain } else { VK::Prom }));
                    let st = Stmt::Comb { var, f, args, awaited };
                    let st = if awaited { self.guard_stmt(st) } else { st };
                    out.push(st);
                }
                4 => {
                    self.next_try += 1;
                    let id = self.next_try;
                    let body = self.block(depth + 1);
                    let handler = if self.tape.chance(1, 3) { self.block(depth + 1) } else { vec![] };
                    out.push(Stmt::Try { id, body, handler });
                }
                5 => {
                    let src = *self.tape.pick(&proms);
                    let catch = self.tape.chance(1, 3);
                    let awaited = self.tape.chance(1, 2);
                    let var = self.fresh(Some(if awaited { VK::Plain } else { VK::Prom }));
                    let st = Stmt::Then { var, src, catch, awaited };
                    let st = if awaited && !catch { self.guard_stmt(st) } else { st };
                    out.push(st);
                }
                6 => out.push(Stmt::Cancel { src: *self.tape.pick(&ids) }),
                7 => {
                    let var = self.fresh(None);
                    out.push(Stmt::GetId { var });
                }
                _ => {
                    let id = self.funcs.len() as u32 + 1;
                    // reserve the slot so that nested functions get other ids
                    self.funcs.push(Func { id, body: vec![], ret: vec![] });
                    let before = self.env.len();
                    let aw = self.tape.chance(2, 3);
                    let mut body = vec![self.order_stmt(aw)];
                    body.extend(self.block(depth + 1));
                    let ret: Vec<u32> = self.env[before..].iter().filter(|(_, k)| *k != VK::Prom).map(|(v, _)| *v).collect();
                    if let Some(f) = self.funcs.iter_mut().find(|f| f.id == id) {
                        f.body = body;
                        f.ret = ret;
                    }
                    let var = self.fresh(Some(VK::Plain));
                    let st = self.guard_stmt(Stmt::Call { var, func: id });
                    out.push(st);
                }
            }
        }
        out
    }
}

fn count_orders(ss: &[Stmt], funcs: &[Func]) -> usize {
    ss.iter()
        .map(|s| match s {
            Stmt::Order { .. } => 1,
            Stmt::Try { body, handler, .. } => count_orders(body, funcs) + count_orders(handler, funcs),
            Stmt::Call { func, .. } => funcs.iter().find(|f| f.id == *func).map(|f| count_orders(&f.body, funcs)).unwrap_or(0),
            _ => 0,
        })
        .sum()
}

struct HostPlan {
    acts: Vec<String>,
    counts: BTreeMap<String, u64>,
    /// the model's view of the whole planned run
    sim: SimOut,
}

/// Interpret the tape as a host script against the MODEL (never the system under test).
fn plan_host(prog: &Prog, sites: &Sites, tape: &mut Tape, safe_flush: bool) -> HostPlan {
    let ids: Vec<u64> = (1..=32).collect();
    let mut hist: Vec<H> = vec![H::Step];
    let mut acts: Vec<String> = vec!["step".into()];
    let mut counts: BTreeMap<String, u64> = BTreeMap::new();
    let bump = |k: &str, counts: &mut BTreeMap<String, u64>| *counts.entry(k.to_string()).or_insert(0) += 1;
    for turn in 0..MAX_TURNS {
        let out = simulate(prog, sites, &hist, &ids);
        if out.block == Block::Finished {
            break;
        }
        let mut unanswered: Option<usize> = match out.block {
            Block::Order(n, false) => Some(n),
            _ => None,
        };
        let mut unsettled = out.unsettled.clone();
        let mut settled = out.settled.clone();
        let issued = out.issued.len();
        let is_flush = |n: usize| out.issued.get(n).map(|i| i.site) == Some(FLUSH_SITE);
        let promise_site = |n: usize| out.issued.get(n).and_then(|i| sites.get(&i.site)).map(|s| s.kind.is_promise()).unwrap_or(false);
        if turn >= RANDOM_TURNS {
            // drain: answer and settle everything outstanding, then step
            let flush_turn = safe_flush && unanswered.map(&is_flush).unwrap_or(false);
            if flush_turn && !unsettled.is_empty() {
                // first settle (and let the next Suspended deliver what that raises); the flush order waits
                for m in unsettled.clone() {
                    hist.push(H::Settle(m));
                    acts.push(format!("settle:{}", m));
                    bump("settle", &mut counts);
                }
            } else {
                if let Some(n) = unanswered {
                    hist.push(H::Answer(n));
                    acts.push("answer".into());
                    bump("answer", &mut counts);
                    if promise_site(n) {
                        unsettled.push(n);
                    }
                }
                if !flush_turn {
                    for m in unsettled.clone() {
                        hist.push(H::Settle(m));
                        acts.push(format!("settle:{}", m));
                        bump("settle", &mut counts);
                    }
                }
            }
            hist.push(H::Step);
            acts.push("step".into());
            continue;
        }
        let k = 1 + tape.below(4);
        let mut answered_now: Option<usize> = None;
        let mut settled_any = false;
        let mut did_something = false;
        for _ in 0..k {
            let can_answer = unanswered.is_some() && !(safe_flush && unanswered.map(&is_flush).unwrap_or(false) && settled_any);
            let ws = [
                if can_answer { 6 } else { 0 },
                if !unsettled.is_empty() { 5 } else { 0 },
                2,
                2,
                if answered_now.is_some() { 3 } else { 0 },
                if !settled.is_empty() { 1 } else { 0 },
                1,
                1,
            ];
            match tape.weighted(&ws) {
                0 => {
                    let n = unanswered.take().unwrap_or(0);
                    hist.push(H::Answer(n));
                    acts.push("answer".into());
                    bump("answer", &mut counts);
                    answered_now = Some(n);
                    did_something = true;
                    if promise_site(n) {
                        unsettled.push(n);
                    }
                    if safe_flush && is_flush(n) {
                        break;
                    }
                }
                1 => {
                    let i = tape.below(unsettled.len());
                    let m = unsettled.remove(i.min(unsettled.len() - 1));
                    hist.push(H::Settle(m));
                    acts.push(format!("settle:{}", m));
                    bump("settle", &mut counts);
                    if i > 0 {
                        bump("settle-out-of-order", &mut counts);
                    }
                    settled.push(m);
                    settled_any = true;
                    did_something = true;
                }
                2 => {}
                3 => {
                    let v = tape.below(3);
                    let olds: Vec<usize> = (0..issued).filter(|n| Some(*n) != unanswered && Some(*n) != answered_now && !matches!(out.block, Block::Order(m, _) if m == *n)).collect();
                    if v == 2 && !olds.is_empty() {
                        let n = *tape.pick(&olds);
                        acts.push(format!("unknown:old:{}", n));
                        bump("answer-consumed-id-again", &mut counts);
                    } else if v == 1 {
                        acts.push("unknown:far".into());
                        bump("answer-unknown-id", &mut counts);
                    } else {
                        acts.push("unknown:zero".into());
                        bump("answer-unknown-id", &mut counts);
                    }
                }
                4 => {
                    acts.push("dup".into());
                    bump("answer-duplicate", &mut counts);
                }
                5 => {
                    let m = *tape.pick(&settled);
                    acts.push(format!("resettle:{}", m));
                    bump("settle-again", &mut counts);
                }
                6 => {
                    acts.push("collect".into());
                    bump("collect", &mut counts);
                }
                _ => {
                    acts.push("verify".into());
                    bump("verify-payloads", &mut counts);
                }
            }
        }
        if !did_something {
            bump("spurious-step", &mut counts);
        }
        hist.push(H::Step);
        acts.push("step".into());
    }
    let sim = simulate(prog, sites, &hist, &ids);
    HostPlan { acts, counts, sim }
}

/// true when the planned run raises a cancellation after the last Suspended result (it can only be lost).
fn cancel_in_last_segment(sim: &SimOut) -> bool {
    if sim.block != Block::Finished {
        return false;
    }
    let e = sim.events.len();
    if e == 0 {
        return false;
    }
    let at_prev = if e >= 2 { sim.req_at_event.get(e - 2).copied().unwrap_or(0) } else { 0 };
    sim.cancel_req.len() > at_prev
}

// ------------------------------------------------------------------------------------------------
// Executor
// ------------------------------------------------------------------------------------------------
struct HostOrd {
    id: u64,
    site: u32,
    /// kept until the end of the run: the payload must stay readable while the host holds the order
    order: Order,
    expected: Value,
    answered: bool,
    /// a step happened after the answer: the program has consumed it
    consumed: bool,
    promise: Option<RuntimeValue>,
    /// Callback kind: the resolve / reject functions the program passed in the payload
    cb: Option<(JsValue, JsValue)>,
    settled: bool,
}

enum Ev {
    Suspended { pending: Vec<Order>, cancelled: Vec<u64> },
    Complete(String),
    Error(String),
    Done,
    NeedImports,
    Budget,
}

fn run_until_event(interp: &mut Interpreter, first: Option<Result<StepResult, JsError>>) -> Ev {
    tsrun::verif_hooks::vm_instr_reset();
    let mut res = match first {
        Some(r) => r,
        None => interp.step(),
    };
    let mut steps = 0u64;
    loop {
        match res {
            Ok(StepResult::Continue) => {}
            Ok(StepResult::Suspended { pending, cancelled }) => return Ev::Suspended { pending, cancelled: cancelled.into_iter().map(|c| c.0).collect() },
            Ok(StepResult::Complete(v)) => return Ev::Complete(render_js(v.value())),
            Ok(StepResult::Done) => return Ev::Done,
            Ok(StepResult::NeedImports(_)) => return Ev::NeedImports,
            Err(e) => return Ev::Error(format!("{} [thrown: {}]", e.to_string().trim_end(), guarded(|| render_js(&e.to_value())).unwrap_or_default())),
        }
        steps += 1;
        if steps > STEP_BUDGET {
            return Ev::Budget;
        }
        res = interp.step();
    }
}

fn ev_name(e: &Ev) -> String {
    match e {
        Ev::Suspended { pending, cancelled } => format!("Suspended{{pending:{:?}, cancelled:{:?}}}", pending.iter().map(|o| o.id.0).collect::<Vec<_>>(), cancelled),
        Ev::Complete(v) => format!("Complete({})", v.chars().take(120).collect::<String>()),
        Ev::Error(e) => format!("Err({})", e.chars().take(120).collect::<String>()),
        Ev::Done => "Done".into(),
        Ev::NeedImports => "NeedImports".into(),
        Ev::Budget => "no result within the step budget".into(),
    }
}

fn pred_name(p: &Pred) -> &'static str {
    match p {
        Pred::NewOrder(_) => "suspended-with-new-order",
        Pred::Waiting => "suspended-waiting",
        Pred::Complete(_) => "complete",
        Pred::Error(_) => "error",
    }
}

fn answer_result(interp: &mut Interpreter, o: &mut HostOrd, kind: Kind) -> Result<RuntimeValue, JsError> {
    match kind {
        Kind::Val => Ok(RuntimeValue::unguarded(JsValue::Number(val_of_site(o.site) as f64))),
        Kind::Obj => api::create_response_object(interp, &obj_of_site(o.site)),
        Kind::Err => Err(JsError::type_error(boom_of_site(o.site))),
        Kind::IdEcho => Ok(RuntimeValue::unguarded(JsValue::Number(o.id as f64))),
        Kind::Callback => {
            if o.cb.is_none() {
                let p = o.order.payload.value();
                if let (Ok(r), Ok(j)) = (api::get_property(p, "cb"), api::get_property(p, "cbr")) {
                    o.cb = Some((r, j));
                }
            }
            Ok(RuntimeValue::unguarded(JsValue::String("ack".into())))
        }
        Kind::PromPlain | Kind::PromLinked => {
            if o.promise.is_none() {
                o.promise = Some(if kind == Kind::PromLinked { api::create_order_promise(interp, OrderId(o.id)) } else { api::create_promise(interp) });
            }
            match &o.promise {
                Some(p) => Ok(RuntimeValue::unguarded(p.value().clone())),
                None => Ok(RuntimeValue::unguarded(JsValue::Undefined)),
            }
        }
    }
}

fn bogus() -> RuntimeValue {
    RuntimeValue::unguarded(JsValue::String("BOGUS".into()))
}

struct Run {
    fail: Option<(String, String)>,
    discard: Option<String>,
    observed: Value,
    orders: u64,
    deferred: u64,
    errors: u64,
    dups: u64,
    unknowns: u64,
    suspensions: u64,
    cancels_delivered: u64,
    cancels_optional_delivered: u64,
    executed: Vec<&'static str>,
    ended: &'static str,
}

/// multiset difference helper: remove one occurrence
fn take_one(v: &mut Vec<u64>, x: u64) -> bool {
    if let Some(i) = v.iter().position(|y| *y == x) {
        v.remove(i);
        true
    } else {
        false
    }
}

fn run_case(prog: &Prog, sites: &Sites, acts: &[String], gc: usize, use_eval: bool) -> Run {
    let src = render(prog, sites);
    let log = Rc::new(RefCell::new(Vec::<String>::new()));
    let mut run = Run {
        fail: None,
        discard: None,
        observed: Value::Null,
        orders: 0,
        deferred: 0,
        errors: 0,
        dups: 0,
        unknowns: 0,
        suspensions: 0,
        cancels_delivered: 0,
        cancels_optional_delivered: 0,
        executed: vec![],
        ended: "script-ended",
    };
    let mut interp = new_interp(&log);
    interp.set_gc_threshold(gc);
    let stale0 = tsrun::verif_hooks::stale_total();
    // a defect can make the program run away (e.g. a stale handle that turns an array into its own
    // element): bound the work of one host step and the native recursion depth deterministically
    tsrun::verif_hooks::vm_instr_set_limit(3_000_000);
    tsrun::verif_hooks::reentry_set_limit(150);
    let mut hist: Vec<H> = vec![];
    let mut ords: Vec<HostOrd> = vec![];
    let mut ids: Vec<u64> = vec![];
    let mut max_id: u64 = 0;
    let mut log_seen = 0usize;
    let mut delivered: Vec<u64> = vec![]; // cancellation ids delivered so far
    let mut bogus_answers = 0usize;
    let mut last_answered: Option<usize> = None;
    let mut started = false;
    let mut trace: Vec<String> = vec![];
    macro_rules! fail {
        ($sig:expr, $($arg:tt)*) => {{
            run.fail = Some(($sig.to_string(), format!($($arg)*)));
            run.observed = json!({"trace": trace, "log": log.borrow().clone()});
            return run;
        }};
    }
    let verify_payloads = |ords: &Vec<HostOrd>| -> Option<String> {
        for o in ords {
            let got = match guarded(|| tsrun::js_value_to_json(o.order.payload.value())) {
                Ok(Ok(j)) => j,
                Ok(Err(e)) => return Some(format!("payload of order {} is not serialisable any more: {}", o.id, e)),
                Err(p) => return Some(format!("reading the payload of order {} panicked: {}", o.id, p)),
            };
            if got != o.expected {
                return Some(format!("payload of order {} reads {} but the program passed {}", o.id, got, o.expected));
            }
        }
        None
    };
    for act in acts {
        let mut parts = act.split(':');
        let head = parts.next().unwrap_or("");
        let a1 = parts.next().unwrap_or("");
        let a2 = parts.next().unwrap_or("");
        match head {
            "answer" => {
                let Some(n) = ords.iter().position(|o| !o.answered) else {
                    run.discard = Some("host script answers an order that was not reported".into());
                    return run;
                };
                let kind = sites.get(&ords[n].site).map(|s| s.kind).unwrap_or(Kind::Val);
                let result = answer_result(&mut interp, &mut ords[n], kind);
                match kind {
                    Kind::Err => run.errors += 1,
                    k if k.is_promise() => run.deferred += 1,
                    _ => {}
                }
                let id = ords[n].id;
                ords[n].answered = true;
                interp.fulfill_orders(vec![OrderResponse { id: OrderId(id), result }]);
                hist.push(H::Answer(n));
                last_answered = Some(n);
                trace.push(format!("answer order {} ({})", id, kind.name()));
            }
            "dup" => {
                let Some(n) = last_answered else { continue };
                if ords[n].consumed {
                    continue;
                }
                let kind = sites.get(&ords[n].site).map(|s| s.kind).unwrap_or(Kind::Val);
                let result = answer_result(&mut interp, &mut ords[n], kind);
                let id = ords[n].id;
                interp.fulfill_orders(vec![OrderResponse { id: OrderId(id), result }]);
                run.dups += 1;
                trace.push(format!("answer order {} again with an equal value", id));
            }
            "unknown" => {
                let id = match a1 {
                    "zero" => 0,
                    "far" => max_id + 1000,
                    _ => {
                        let n: usize = a2.parse().unwrap_or(0);
                        // only ids whose answer was already consumed by the program
                        match ords.get(n) {
                            Some(o) if o.consumed => o.id,
                            _ => max_id + 2000,
                        }
                    }
                };
                interp.fulfill_orders(vec![OrderResponse { id: OrderId(id), result: Ok(bogus()) }]);
                bogus_answers += 1;
                run.unknowns += 1;
                trace.push(format!("answer id {} (not outstanding) with BOGUS", id));
            }
            "settle" => {
                let n: usize = a1.parse().unwrap_or(0);
                let Some(o) = ords.get_mut(n) else {
                    run.discard = Some("host script settles a promise of an order that was not reported".into());
                    return run;
                };
                let resolve = sites.get(&o.site).map(|s| s.resolve).unwrap_or(true);
                if let Some((r, j)) = o.cb.clone() {
                    // settle through the resolver functions the program handed over
                    let g = api::create_guard(&interp);
                    let res = if resolve {
                        let v = match res_of_site(o.site) {
                            MV::Obj(jv) => api::create_from_json(&mut interp, &g, &jv).unwrap_or(JsValue::Undefined),
                            other => JsValue::String(show(&other).into()),
                        };
                        api::call_function(&mut interp, &g, &r, None, &[v])
                    } else {
                        api::call_function(&mut interp, &g, &j, None, &[JsValue::String(rej_of_site(o.site).into())])
                    };
                    o.settled = true;
                    let id = o.id;
                    if let Err(e) = res {
                        fail!("c08:settle-api-error", "api::call_function on the resolver passed with order {} returned {}", id, e);
                    }
                    hist.push(H::Settle(n));
                    trace.push(format!("call the {} function passed with order {}", if resolve { "resolve" } else { "reject" }, id));
                    continue;
                }
                let Some(p) = o.promise.as_ref() else {
                    run.discard = Some("host script settles a promise that was not created".into());
                    return run;
                };
                let r = if resolve {
                    let v = match res_of_site(o.site) {
                        MV::Obj(j) => match api::create_response_object(&mut interp, &j) {
                            Ok(v) => v,
                            Err(e) => {
                                run.discard = Some(format!("create_response_object failed: {}", e));
                                return run;
                            }
                        },
                        other => RuntimeValue::unguarded(JsValue::String(show(&other).into())),
                    };
                    api::resolve_promise(&mut interp, p, v)
                } else {
                    api::reject_promise(&mut interp, p, RuntimeValue::unguarded(JsValue::String(rej_of_site(o.site).into())))
                };
                o.settled = true;
                let id = o.id;
                if let Err(e) = r {
                    fail!("c08:settle-api-error", "api::{}_promise on the promise answering order {} returned {}", if resolve { "resolve" } else { "reject" }, id, e);
                }
                hist.push(H::Settle(n));
                trace.push(format!("{} promise of order {}", if resolve { "resolve" } else { "reject" }, id));
            }
            "resettle" => {
                let n: usize = a1.parse().unwrap_or(0);
                if let Some(o) = ords.get(n) {
                    if let (Some((r, j)), true) = (o.cb.clone(), o.settled) {
                        let g = api::create_guard(&interp);
                        let _ = api::call_function(&mut interp, &g, if n % 2 == 0 { &r } else { &j }, None, &[JsValue::String("BOGUS".into())]);
                        trace.push(format!("call a resolver of order {} again with BOGUS", o.id));
                    }
                    if let (Some(p), true) = (o.promise.as_ref(), o.settled) {
                        let r = if n % 2 == 0 { api::resolve_promise(&mut interp, p, bogus()) } else { api::reject_promise(&mut interp, p, bogus()) };
                        let _ = r;
                        trace.push(format!("settle the settled promise of order {} again with BOGUS", o.id));
                    }
                }
            }
            "collect" => {
                interp.collect();
                trace.push("collect()".into());
            }
            "verify" => {
                if let Some(m) = verify_payloads(&ords) {
                    fail!("c08:payload-not-intact", "I1: {}", m);
                }
            }
            "step" => {
                hist.push(H::Step);
                for o in ords.iter_mut() {
                    if o.answered {
                        o.consumed = true;
                    }
                }
                let ev = if !started {
                    started = true;
                    let first = if use_eval { interp.eval(&src, Some(ModulePath::new("/main.ts"))) } else { interp.prepare(&src, Some(ModulePath::new("/main.ts"))) };
                    run_until_event(&mut interp, Some(first))
                } else {
                    run_until_event(&mut interp, None)
                };
                trace.push(format!("step -> {}", ev_name(&ev)));
                if tsrun::verif_hooks::stale_total() != stale0 {
                    let st: Vec<String> = tsrun::verif_hooks::take_stale().into_iter().map(|(k, v)| format!("{}x {}", v, k)).collect();
                    fail!(format!("c08:stale-handle {}", st.first().cloned().unwrap_or_default()), "a swept or re-used heap slot was used while driving the order protocol: {:?}", st);
                }
                // the ids of orders reported by this event must be known to the model (IdEcho values)
                let mut ids_now = ids.clone();
                if let Ev::Suspended { pending, .. } = &ev {
                    for o in pending {
                        ids_now.push(o.id.0);
                    }
                }
                let sim = simulate(prog, sites, &hist, &ids_now);
                if let Some(b) = &sim.bad_history {
                    run.discard = Some(format!("host script inconsistent with the model: {}", b));
                    return run;
                }
                let Some(pred) = sim.events.last().cloned() else {
                    run.discard = Some("model produced no event".into());
                    return run;
                };
                run.executed = sim.executed.clone();
                // --- console output so far (also carries the __getOrderId__ values) ---
                let real_log = log.borrow().clone();
                for (i, line) in real_log.iter().enumerate().skip(log_seen) {
                    let Some(want) = sim.log.get(i) else {
                        fail!("c08:output-differs", "I6: console line {} {:?} but the model expects no more output at this point (model predicts {})", i, line, pred_name(&pred));
                    };
                    if let Some(prefix) = want.strip_suffix('#') {
                        let num = line.strip_prefix(prefix).and_then(|r| r.parse::<u64>().ok());
                        match num {
                            Some(g) => {
                                if g <= max_id {
                                    fail!("c08:order-id-not-fresh", "I1: __getOrderId__() returned {} but id {} was already handed out", g, max_id);
                                }
                                max_id = g;
                            }
                            None => fail!("c08:output-differs", "I6: console line {} is {:?}, expected {:?} with a number", i, line, want),
                        }
                    } else if want != line {
                        fail!("c08:output-differs", "I6: console line {} is {:?} but the model (ES combinator semantics under this host schedule) expects {:?}", i, line, want);
                    }
                }
                log_seen = real_log.len();
                match ev {
                    Ev::Budget => fail!("c08:no-result-within-step-budget", "I4: {} step() calls returned Continue without reaching a result (model predicts {})", STEP_BUDGET, pred_name(&pred)),
                    Ev::NeedImports => {
                        run.discard = Some("NeedImports".into());
                        return run;
                    }
                    Ev::Suspended { pending, cancelled } => {
                        run.suspensions += 1;
                        // I1: every order exactly once, fresh increasing id, payload intact
                        let mut new_order_seen = false;
                        for o in pending {
                            let id = o.id.0;
                            if ords.iter().any(|h| h.id == id) {
                                fail!("c08:order-reported-twice", "I1: order {} appears in a second `pending` list", id);
                            }
                            if id <= max_id {
                                fail!("c08:order-id-not-fresh", "I1: order id {} is not greater than the ids handed out before (max {})", id, max_id);
                            }
                            max_id = id;
                            let Pred::NewOrder(n) = pred.clone() else {
                                fail!("c08:unexpected-order", "I1: Suspended reports order {} but the model predicts {} (no new order)", id, pred_name(&pred));
                            };
                            if new_order_seen {
                                fail!("c08:unexpected-order", "I1: two orders in one `pending` list although order() blocks the program");
                            }
                            new_order_seen = true;
                            let expected = sim.issued.get(n).map(|i| i.payload.clone()).unwrap_or(Value::Null);
                            let site = sim.issued.get(n).map(|i| i.site).unwrap_or(0);
                            let got = match guarded(|| tsrun::js_value_to_json(o.payload.value())) {
                                Ok(Ok(j)) => j,
                                Ok(Err(e)) => fail!("c08:payload-not-intact", "I1: payload of order {} is not serialisable: {}", id, e),
                                Err(p) => fail!("c08:payload-not-intact", "I1: reading the payload of order {} panicked: {}", id, p),
                            };
                            if got != expected {
                                fail!("c08:payload-not-intact", "I1: payload of order {} is {} but the program passed {}", id, got, expected);
                            }
                            ids.push(id);
                            ords.push(HostOrd { id, site, order: o, expected, answered: false, consumed: false, promise: None, cb: None, settled: false });
                            run.orders += 1;
                        }
                        if matches!(pred, Pred::NewOrder(_)) && !new_order_seen {
                            fail!("c08:order-not-reported", "I1: the model says the program issued a new order in this step, but `pending` is empty");
                        }
                        // I2: cancellations name raised ids, each at most once
                        let mut avail_req: Vec<u64> = sim.cancel_req.iter().filter_map(|n| ids.get(*n).copied()).collect();
                        let mut avail_opt: Vec<u64> = sim.cancel_opt.iter().filter_map(|n| ids.get(*n).copied()).collect();
                        for d in &delivered {
                            if !take_one(&mut avail_req, *d) {
                                take_one(&mut avail_opt, *d);
                            }
                        }
                        for c in cancelled {
                            if take_one(&mut avail_req, c) {
                                run.cancels_delivered += 1;
                            } else if take_one(&mut avail_opt, c) {
                                run.cancels_optional_delivered += 1;
                            } else if delivered.contains(&c) {
                                fail!("c08:cancellation-delivered-twice", "I2: cancellation of order {} is delivered again (delivered so far {:?})", c, delivered);
                            } else {
                                fail!("c08:cancellation-not-raised", "I2: `cancelled` names id {} for which no cancellation was raised (issued ids {:?})", c, ids);
                            }
                            delivered.push(c);
                        }
                        // I3 / I4: Suspended => the host can still do something; no lost wake-up
                        let unanswered = ords.iter().any(|o| !o.answered);
                        let unsettled = ords.iter().any(|o| (o.promise.is_some() || o.cb.is_some()) && !o.settled);
                        if !unanswered && !unsettled {
                            fail!("c08:suspended-with-nothing-outstanding", "I3/I4: Suspended although every order is answered and every host promise is settled (model predicts {})", pred_name(&pred));
                        }
                        match &pred {
                            Pred::Complete(_) | Pred::Error(_) => fail!("c08:lost-wakeup", "I4: Suspended, but the model says the program can run to its end ({}) after what the host did", pred_name(&pred)),
                            Pred::NewOrder(_) | Pred::Waiting => {}
                        }
                        if real_log.len() != sim.log.len() {
                            fail!("c08:output-differs", "I6: {} console lines so far, the model predicts {} at this point", real_log.len(), sim.log.len());
                        }
                    }
                    Ev::Complete(v) => {
                        run.ended = "complete";
                        let Pred::Complete(want) = &pred else {
                            fail!("c08:complete-while-outstanding", "I5: Complete({}) but the model predicts {}", v.chars().take(200).collect::<String>(), pred_name(&pred));
                        };
                        let wantv = format!("str:{}", want);
                        if v != wantv {
                            fail!("c08:final-value-differs", "I6: final value {:?} but the model (ES combinator semantics under this host schedule) predicts {:?}", v, wantv);
                        }
                        if sim.log.len() != real_log.len() {
                            fail!("c08:output-differs", "I6: {} console lines, the model predicts {}", real_log.len(), sim.log.len());
                        }
                        // I5: nothing outstanding
                        let q = interp.verif_quiescence();
                        if q.wait_contexts != 0 || q.ready_queue != 0 || q.suspended_for_order || q.active_vm || q.pending_orders != 0 {
                            fail!("c08:complete-not-quiescent", "I5: Complete but wait_contexts={} ready_queue={} suspended_for_order={} active_vm={} pending_orders={}", q.wait_contexts, q.ready_queue, q.suspended_for_order, q.active_vm, q.pending_orders);
                        }
                        if q.order_responses > bogus_answers {
                            fail!("c08:complete-not-quiescent", "I5: Complete but {} unconsumed order responses remain ({} answers to ids that were not outstanding were sent)", q.order_responses, bogus_answers);
                        }
                        // I2 at the end: every required cancellation was delivered
                        let mut need: Vec<u64> = sim.cancel_req.iter().filter_map(|n| ids.get(*n).copied()).collect();
                        for d in &delivered {
                            take_one(&mut need, *d);
                        }
                        if !need.is_empty() {
                            fail!("c08:cancellation-lost-at-complete", "I2: the run completed but the cancellation of order(s) {:?} was never delivered ({} still queued inside the interpreter; StepResult::Complete carries no list)", need, q.cancelled_orders);
                        }
                        match run_until_event(&mut interp, None) {
                            Ev::Done => {}
                            other => fail!("c08:step-after-complete", "I5: step() after Complete returned {}", ev_name(&other)),
                        }
                        break;
                    }
                    Ev::Error(text) => {
                        run.ended = "error";
                        let Pred::Error(want) = &pred else {
                            fail!("c08:unexpected-error", "the run failed with {:?} but the model predicts {}", text.chars().take(200).collect::<String>(), pred_name(&pred));
                        };
                        if !want.starts_with("agg[") && !text.contains(want.as_str()) {
                            fail!("c08:error-differs", "I6: the run failed with {:?} but the model predicts the uncaught reason {:?}", text.chars().take(200).collect::<String>(), want);
                        }
                        if sim.log.len() != real_log.len() {
                            fail!("c08:output-differs", "I6: {} console lines, the model predicts {}", real_log.len(), sim.log.len());
                        }
                        let mut need: Vec<u64> = sim.cancel_req.iter().filter_map(|n| ids.get(*n).copied()).collect();
                        for d in &delivered {
                            take_one(&mut need, *d);
                        }
                        if !need.is_empty() {
                            fail!("c08:cancellation-lost-at-complete", "I2: the run ended with an error but the cancellation of order(s) {:?} was never delivered", need);
                        }
                        let q = interp.verif_quiescence();
                        if q.wait_contexts != 0 || q.suspended_for_order || q.active_vm || q.pending_orders != 0 || q.order_responses != 0 {
                            fail!("c08:error-not-quiescent", "I5: the run ended with an error but wait_contexts={} suspended_for_order={} active_vm={} pending_orders={} order_responses={}", q.wait_contexts, q.suspended_for_order, q.active_vm, q.pending_orders, q.order_responses);
                        }
                        break;
                    }
                    Ev::Done => {
                        fail!("c08:done-without-complete", "step() returned Done but the model predicts {}", pred_name(&pred));
                    }
                }
            }
            _ => {}
        }
    }
    // payloads stay intact for as long as the host holds the orders, also after all the collections
    interp.collect();
    if let Some(m) = verify_payloads(&ords) {
        fail!("c08:payload-not-intact", "I1 (end of run): {}", m);
    }
    run.observed = json!({"ended": run.ended, "orders": run.orders, "trace": trace.iter().rev().take(12).rev().cloned().collect::<Vec<_>>()});
    drop(ords);
    drop(interp);
    run
}

impl Property for C08Prop {
    fn id(&self) -> &'static str {
        "C08"
    }
    fn rule(&self) -> String {
        "A DSL generates module programs (import { order, __cancelOrder__, __getOrderId__ } from \"tsrun:host\") with <= 6 orders whose payloads carry a marker and a nested object (optionally data derived from earlier answers): awaited orders, orders issued and used later, await of earlier values, Promise.all/race/any/allSettled over 1-3 host or derived promises (awaited or kept), then/catch chains, try/catch with optional handler blocks (nesting <= 2), __cancelOrder__ of an id the host echoed, __getOrderId__, nested async functions awaiting orders; main body at module top level or inside an async function; prepare+step or eval+step. Per order the answer kind is drawn from value / object / error / pending plain promise / pending order-linked promise (eventually resolved with a string or a fresh object, or rejected) / id echo / callback (the program creates the promise and passes its resolve and reject functions in the payload; the host acknowledges and later calls one of them through api::call_function). The HOST SCRIPT is planned from the tape against the model and replayed action by action against the live interpreter: answer the outstanding order, settle any outstanding host promise (any permutation, batched with answers or one per step), step with nothing ready, answer an id that was never issued (0, far future) or whose answer was already consumed, answer the same order twice, settle a settled promise again, force collect(), re-read the payloads of all orders the host still holds; GC threshold 1 or 100. ORACLE = ledger model re-executed after every step (blocking order(), ECMAScript combinator semantics with the winner decided by the host's settle order): the real step result must be the predicted one, and I1 each order in exactly one pending list with a fresh strictly increasing id (also w.r.t. __getOrderId__) and a deep-JSON-equal payload that stays intact while the host holds it; I2 every delivered cancellation was raised (race decided by a later settlement -> linked ids of the losers; rejection of a linked promise; __cancelOrder__) and is delivered at most once, and every raised one was delivered when the run ends; I3 Suspended => an unanswered order or an unsettled host promise exists; I4 when the model says the program can continue the next step reports its next order / await / end within the step budget; I5 Complete => quiescent (H4) and a later step() is Done; I6 error answers and rejections are caught by the program's catch, console output and final value equal the model's prediction; no stale-handle event. Answers to unknown/consumed ids and duplicates must have no effect. Non-trivial: >= 2 orders reported and >= 1 deferred promise, error answer, duplicate or unknown-id answer. Distinct = distinct (program, host script).".into()
    }
    fn assumptions(&self) -> Vec<String> {
        vec![
            "the ledger model in harness/src/props/c08model.rs: order() is a blocking syscall (docs of order_syscall), await of a pending promise stops the whole program, Promise.all/race/any/allSettled/then/catch as in ECMA-262 restricted to what `await` can observe".into(),
            "which events raise a cancellation is taken from the API docs and the project's own tests (race decided by a later settlement, rejection of an order-linked promise, __cancelOrder__); a race that is already decided when it is called may or may not cancel its pending losers (accepted either way); the order of ids inside one `cancelled` list is not judged".into(),
            "answers to ids that will be issued later in the same run are not generated (the docs do not say whether early answers are held); duplicate answers before consumption carry an equal value (which one wins is unspecified)".into(),
            "hook H4 (read-only quiescence snapshot) and hook H1 (stale-handle log)".into(),
        ]
    }
    fn plan(&self, tier: Tier) -> Plan {
        Plan { shards: 16, cases_per_shard: tier.pick(40000, 480000), tape_len: 260, watchdog_s: tier.pick(1800, 14400) }
    }
    fn generate(&self, tape: &mut Tape, ctx: &Ctx) -> Value {
        let mut g = Gen { tape, nvars: 0, sites: Sites::new(), funcs: vec![], next_try: 0, env: vec![], tags: vec![] };
        let toplevel = g.tape.chance(1, 3);
        let use_eval = g.tape.chance(1, 4);
        let gc = if g.tape.chance(1, 2) { 1 } else { 100 };
        let aw0 = g.tape.chance(1, 2);
        let mut main = vec![g.order_stmt(aw0)];
        main.extend(g.block(0));
        while count_orders(&main, &g.funcs) < 2 {
            let aw = g.tape.chance(1, 2);
            main.push(g.order_stmt(aw));
        }
        // a promise that nobody awaited is awaited at the end, half of the time (so that races/anys get decided)
        let proms = g.vars_of(VK::Prom);
        if !proms.is_empty() && g.tape.chance(1, 2) {
            let src = *g.tape.pick(&proms);
            let var = g.fresh(Some(VK::Plain));
            g.next_try += 1;
            main.push(Stmt::Try { id: g.next_try, body: vec![Stmt::Await { var, src }], handler: vec![] });
        }
        let ret: Vec<u32> = g.env.iter().filter(|(_, k)| *k != VK::Prom).map(|(v, _)| *v).collect();
        let mut prog = Prog { toplevel, funcs: g.funcs.clone(), main, ret, nvars: g.nvars };
        let mut sites = g.sites.clone();
        let mut tags = g.tags.clone();
        let tape = g.tape;
        let mut plan = plan_host(&prog, &sites, tape, false);
        let mut excluded = 0u64;
        if cancel_in_last_segment(&plan.sim) && ctx.gates.excluded(GATE_CANCEL_AT_COMPLETE) {
            // open finding: a cancellation raised in the step that ends the run is never delivered. Exactly
            // that shape is removed: the body is wrapped in try/catch and followed by a flush order, and the
            // host does nothing else in the turn in which it answers the flush order.
            excluded = 1;
            prog.nvars += 1;
            let flush_var = prog.nvars;
            let body = std::mem::take(&mut prog.main);
            prog.main = vec![Stmt::Try { id: 90, body, handler: vec![] }, Stmt::Order { var: flush_var, site: FLUSH_SITE, awaited: true, with: None }];
            sites.insert(FLUSH_SITE, Site { kind: Kind::Val, resolve: true });
            plan = plan_host(&prog, &sites, tape, true);
            if cancel_in_last_segment(&plan.sim) {
                // cannot happen by construction; keep the case harmless if it does
                plan.acts.truncate(1);
            }
            tags.push("flush-order".into());
        }
        for (k, _) in plan.counts.iter() {
            tags.push(format!("host:{}", k));
        }
        if toplevel {
            tags.push("main:top-level".into());
        } else {
            tags.push("main:async-function".into());
        }
        tags.push(if use_eval { "entry:eval".into() } else { "entry:prepare".into() });
        tags.push(format!("gc-threshold:{}", gc));
        json!({
            "src": render(&prog, &sites),
            "prog": prog_to_json(&prog),
            "sites": sites_to_json(&sites),
            "host": plan.acts,
            "gc": gc,
            "eval": use_eval,
            "tags": tags,
            "host_counts": plan.counts,
            "excluded": excluded,
        })
    }
    fn execute(&self, case: &Value, _ctx: &mut Ctx) -> Exec {
        let prog = prog_from_json(&case["prog"]);
        let sites = sites_from_json(&case["sites"]);
        let acts: Vec<String> = case["host"].as_array().map(|a| a.iter().filter_map(|x| x.as_str().map(|s| s.to_string())).collect()).unwrap_or_default();
        let gc = case["gc"].as_u64().unwrap_or(100) as usize;
        let use_eval = case["eval"].as_bool().unwrap_or(false);
        let mut tags: Vec<String> = case["tags"].as_array().map(|a| a.iter().filter_map(|x| x.as_str().map(|s| s.to_string())).collect()).unwrap_or_default();
        reset_hooks();
        let r = guarded(|| run_case(&prog, &sites, &acts, gc, use_eval));
        let stale: Vec<String> = tsrun::verif_hooks::take_stale().into_iter().map(|(k, v)| format!("{}x {}", v, k)).collect();
        tsrun::verif_hooks::vm_instr_set_limit(0);
        tsrun::verif_hooks::reentry_set_limit(0);
        let run = match r {
            Ok(r) => r,
            Err(p) => {
                if !stale.is_empty() {
                    return Exec::fail(format!("c08:stale-handle {}", stale[0]), format!("stale-handle events (then: {}): {:?}", p.chars().take(120).collect::<String>(), stale)).with_tags(tags);
                }
                if p.contains("verif: vm work limit") || p.contains("re-entry depth limit") {
                    return Exec::fail("c08:runaway-step", format!("I4: one host step did not end within 3e6 VM instructions / native depth 150: {}", p.chars().take(160).collect::<String>())).with_tags(tags);
                }
                return Exec::fail(format!("panic: {}", p), format!("panic while driving the order protocol: {}", p)).with_tags(tags);
            }
        };
        if let Some((sig, msg)) = run.fail {
            return Exec::fail(sig, msg).with_observed(run.observed).with_tags(tags);
        }
        if let Some(d) = run.discard {
            return Exec::discard(d);
        }
        if !stale.is_empty() {
            return Exec::fail(format!("c08:stale-handle {}", stale[0]), format!("stale-handle events while driving the order protocol: {:?}", stale)).with_observed(run.observed).with_tags(tags);
        }
        let mut ex: Vec<&'static str> = run.executed.clone();
        ex.sort();
        ex.dedup();
        for e in ex {
            tags.push(e.to_string());
        }
        tags.push(format!("end:{}", run.ended));
        let nontrivial = run.orders >= 2 && (run.deferred + run.errors + run.dups + run.unknowns) >= 1;
        let mut e = Exec::pass(nontrivial).with_tags(tags).with_observed(run.observed);
        e = e
            .count("orders_reported", run.orders)
            .count("suspended_results", run.suspensions)
            .count("answers_deferred_promise", run.deferred)
            .count("answers_error", run.errors)
            .count("answers_duplicate", run.dups)
            .count("answers_unknown_or_consumed_id", run.unknowns)
            .count("cancellations_delivered", run.cancels_delivered)
            .count("cancellations_optional_delivered", run.cancels_optional_delivered)
            .count(&format!("excluded_by_gate:{}", GATE_CANCEL_AT_COMPLETE), case["excluded"].as_u64().unwrap_or(0));
        if let Some(hc) = case["host_counts"].as_object() {
            for (k, v) in hc {
                e = e.count(&format!("host_action:{}", k), v.as_u64().unwrap_or(0));
            }
        }
        e
    }
}
