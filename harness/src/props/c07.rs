//! C07 — suspending and resuming is transparent to the program.
//!
//! Module programs await host orders at many syntactic positions with live state around the await.
//! Oracles: (1) inline-value relation: the same program with `order` replaced by an in-program stub that
//! returns the same values synchronously gives the same result; (2) schedule independence: spurious
//! steps, deferred fulfilment through host promises, settle order/batching and GC thresholds do not
//! change the outcome; (3) zero stale-handle events.

use crate::core::{guarded, Ctx, Exec, Plan, Property, Tier};
use crate::engine::{describe_step, error_class, new_interp, render_value, reset_hooks};
use crate::tape::Tape;
use serde_json::{json, Value};
use std::cell::RefCell;
use std::collections::BTreeMap;
use std::rc::Rc;
use tsrun::{api, Interpreter, JsError, JsValue, ModulePath, OrderResponse, RuntimeValue, StepResult};

pub struct C07Prop;
pub static C07: C07Prop = C07Prop;

const PRELUDE: &str = r#"const __out = [];
function __s(v) { return (typeof v === "object" && v !== null) ? JSON.stringify(v) : String(v); }
function __t(id, v) { console.log("t" + id + ":" + __s(v)); __out.push(id + "=" + __s(v)); return v; }
"#;

/// (name, body of an async function using K1/K2/KE placeholders, kinds needed: 'v' value, 'e' error, 'p' promise)
const SEGMENTS: &[(&str, &str, &str)] = &[
    ("plain-local", "const a = 5; const r = await order({k: K1}); return a + r;", "v"),
    ("finally-await-pending-return", "try { return \"ret\"; } finally { await order({k: K1}); }", "v"),
    ("finally-await-pending-throw", "try { try { throw new Error(\"inner\"); } finally { await order({k: K1}); } } catch (e) { return \"outer:\" + e.message; }", "v"),
    ("catch-await", "try { await order({k: KE}); return \"no\"; } catch (e) { const r = await order({k: K1}); return \"c:\" + e + \":\" + r; }", "ve"),
    ("catch-finally-await", "let log = \"\"; try { await order({k: KE}); log += \"no\"; } catch (e) { log += \"c\"; } finally { log += \"f\" + (await order({k: K1})); } return log;", "ve"),
    ("for-loop", "let s = 0; for (let i = 0; i < 3; i++) { s += (await order({k: K1})) * (i + 1); } return s;", "v"),
    ("for-of-array", "let s = \"\"; for (const x of [\"a\", \"b\"]) { s += x + (await order({k: K1})); } return s;", "v"),
    ("for-of-generator", "function* g() { yield 1; yield 2; yield 3; } let s = 0; for (const x of g()) { s += x * (await order({k: K1})); } return s;", "v"),
    ("while-break", "let n = 0; let rounds = 0; while (true) { n += await order({k: K1}); rounds++; if (rounds >= 3) break; } return n + \":\" + rounds;", "v"),
    ("method-this", "class A { constructor() { this.v = 9; } async m() { const r = await order({k: K1}); return this.v + r; } } return await new A().m();", "v"),
    ("static-method", "class B { static base = 4; static async m(x) { const r = await order({k: K1}); return B.base + r + x; } } return await B.m(1);", "v"),
    ("nested-async-calls", "async function inner(x) { const r = await order({k: K1}); return r * 2 + x; } const l = 100; const r = await inner(1); const r2 = await inner(2); return l + r + r2;", "v"),
    ("arrow-captures-this", "const o = { v: 3, f() { return (async () => (await order({k: K1})) + this.v)(); } }; return await o.f();", "v"),
    ("destructuring-default", "const { a = await order({k: K1}), b = 2 } = {}; return a + b;", "v"),
    ("template-literal", "return `x${await order({k: K1})}y${await order({k: K2})}z`;", "vv"),
    ("call-arguments", "const f = (a, b, c) => a * 100 + b * 10 + c; return f(await order({k: K1}), 2, await order({k: K2}));", "vv"),
    ("conditional-logical", "return (false || (await order({k: K1}))) + (true ? await order({k: K2}) : 0) + (null ?? (await order({k: K1})));", "vv"),
    ("block-let-closure", "let out; { let b = 1; const f = () => b; b += await order({k: K1}); out = f(); } return out;", "v"),
    ("switch-discriminant", "switch (await order({k: K1})) { case 0: return \"zero\"; case 1: return \"one\"; default: return \"other\"; }", "v"),
    ("object-array-literal", "return {a: await order({k: K1}), b: [await order({k: K2}), 3]};", "vv"),
    ("finally-continue", "let s = 0; for (let i = 0; i < 2; i++) { try { if (i === 0) continue; s += 1; } finally { s += await order({k: K1}); } } return s;", "v"),
    ("compound-assignment", "let acc = 10; acc += await order({k: K1}); acc *= await order({k: K2}); return acc;", "vv"),
    ("promise-all", "const p1 = order({k: P1}); const p2 = order({k: P2}); const [a, b] = await Promise.all([p1, p2]); return a + \",\" + b;", "pp"),
    ("promise-then-chain", "const p = order({k: P1}); const v = await p.then((x) => x + 1); return v;", "p"),
    ("await-promise-twice", "const p = order({k: P1}); const a = await p; const b = await p; return a + b;", "p"),
    ("object-payload-response", "const r = await order({k: K1, nested: {a: [1, 2]}}); return r;", "o"),
    ("deep-call-chain", "async function d3() { return (await order({k: K1})) + 3; } async function d2() { const l2 = 20; return (await d3()) + l2; } async function d1() { const l1 = 100; return (await d2()) + l1; } return await d1();", "v"),
    ("shadow-after-block-await", "let x = \"outer\"; { let x = \"inner\"; x += await order({k: K1}); } return x;", "v"),
    ("loop-let-closures-across-await", "const fs = []; for (let i = 0; i < 3; i++) { const r = await order({k: K1}); fs.push(() => i * 10 + r); } return fs.map((f) => f()).join(\",\");", "v"),
    ("generator-state-across-await", "function* g() { let i = 0; while (true) { yield i++; } } const it = g(); it.next(); const r = await order({k: K1}); return it.next().value * 10 + r;", "v"),
    ("finally-await-rethrow-outer-catch", "try { try { throw new Error(\"e1\"); } catch (e) { await order({k: K1}); throw new Error(e.message + \"+e2\"); } finally { await order({k: K2}); } } catch (o) { return o.message; }", "vv"),
    ("await-in-catch-param-scope", "try { throw {code: 7}; } catch ({code}) { const r = await order({k: K1}); return code + r; }", "v"),
    ("super-method-after-await", "class P { base() { return 40; } } class Q extends P { async m() { const r = await order({k: K1}); return super.base() + r; } } return await new Q().m();", "v"),
    ("constructor-callee-await", "async function make() { const r = await order({k: K1}); return new (class { constructor(v) { this.v = v; } })(r + 1); } const o = await make(); return o.v;", "v"),
    ("labelled-break-across-await", "let n = 0; outer: for (let i = 0; i < 3; i++) { for (let j = 0; j < 3; j++) { n += await order({k: K1}); if (j === 1) continue outer; if (i === 2) break outer; } } return n;", "v"),
    ("try-finally-return-override", "const f = async () => { try { return \"t\"; } finally { const r = await order({k: K1}); if (r > 100) { return \"never\"; } } }; return await f();", "v"),
    ("handlers-on-pending-promise-fulfilled", "const p = order({k: P1}); const hs = []; p.then((v) => { hs.push(\"a\" + v); }); p.then((v) => { hs.push(\"b\" + v); }, () => { hs.push(\"b!\"); }); p.finally(() => { hs.push(\"f\"); }); p.then((v) => { hs.push(\"c\" + v); }); const v = await p; return hs.join(\",\") + \"=\" + v;", "p"),
    ("handlers-on-pending-promise-rejected", "const p = order({k: R1}); const hs = []; p.catch((e) => { hs.push(\"first:\" + e); }); p.then(() => { hs.push(\"no\"); }, (e) => { hs.push(\"second:\" + e); }); p.finally(() => { hs.push(\"fin\"); }).catch(() => {}); p.catch((e) => { hs.push(\"third\"); }); let got = \"\"; try { await p; } catch (e) { got = String(e); } return hs.join(\",\") + \"=\" + got;", "r"),
    ("then-chain-on-rejected-promise", "const p = order({k: R1}); const q = p.then((v) => v + 1).catch((e) => \"rec:\" + e).then((v) => v + \"!\"); let direct = \"\"; try { await p; } catch (e) { direct = String(e); } return (await q) + \"/\" + direct;", "r"),
    ("race-all-settled-mixed", "const a = order({k: P1}); const b = order({k: R1}); const r = await Promise.all([a.then((v) => \"ok\" + v), b.catch((e) => \"ko:\" + e)]); return r.join(\"+\");", "pr"),
    ("three-level-constructors-suspend-before-super", "const seen = []; function cfg(n) { const r = order({k: K1}); seen.push(\"cfg\" + n); return r; } class A0 { constructor(v) { this.a = v; seen.push(\"A\"); } } class B0 extends A0 { constructor(v) { const c = cfg(1); super(v + c); this.b = c; seen.push(\"B\"); } } class C0 extends B0 { constructor(v) { super(v * 2); this.c = cfg(2); seen.push(\"C\"); } } const o = new C0(3); return seen.join(\",\") + \"|\" + o.a + \"|\" + o.b + \"|\" + o.c + \"|\" + (o instanceof A0);", "v"),
    ("new-target-and-arguments-across-suspension", "function F(x) { const nt = new.target === F; const n0 = arguments.length; const r = order({k: K1}); this.v = x + r; return undefined; } function plain(a, b) { const r = order({k: K2}); return arguments.length + \":\" + (new.target === undefined) + \":\" + (a + b + r); } const o = new F(4, 5, 6); return o.v + \"|\" + plain(1, 2) + \"|\" + (o instanceof F);", "vv"),
    ("closure-counter-across-await", "let c = 0; const inc = () => ++c; inc(); const r = await order({k: K1}); inc(); return c * 10 + r;", "v"),
];


/// A segment built from a pending completion (what is in flight when a finally block starts) and a
/// suspension site (how the finally block reaches the host). Returns (tag, body of an async function).
fn completion_segment(tape: &mut Tape, k1: u64, k2: u64) -> (String, String) {
    let comp = tape.below(8);
    let site = tape.below(6);
    let comp_names = ["normal", "return", "throw-callee-object", "break", "continue", "labelled-break", "labelled-continue", "throw-error-subclass"];
    let site_names = ["await-order", "await-in-callee", "await-in-callee-of-callee", "await-in-loop", "await-order-twice", "await-in-callee-with-own-finally"];
    let labelled = comp == 5 || comp == 6;
    let action = match comp {
        0 => "s += \"n\";",
        1 => "return \"ret:\" + s;",
        2 => "thrower(i);",
        3 => "break;",
        4 => "continue;",
        5 => "break outer;",
        6 => "continue outer;",
        _ => "throw new MyErr(\"me\" + i);",
    };
    let site_code = match site {
        0 => format!("s += \"f\" + (await order({{k: {k1}}}));"),
        1 => format!("s += \"f\" + (await sub({k1}));"),
        2 => format!("s += \"f\" + (await sub2({k1}));"),
        3 => format!("for (let q = 0; q < 2; q++) {{ let w = q; s += \"f\" + w + (await order({{k: {k1}}})); }}"),
        4 => format!("s += \"f\" + (await order({{k: {k1}}})) + (await order({{k: {k2}}}));"),
        _ => format!("s += \"f\" + (await sub3({k1}, {k2}));"),
    };
    let helpers = "function thrower(i) { throw {code: 42 + i, where: \"callee\", list: [i, i + 1]}; } class MyErr extends Error { constructor(m) { super(m); this.extra = {m}; } } async function sub(k) { const l = 1; return (await order({k})) + l; } async function sub2(k) { let m = 0; try { return (await sub(k)) + 10; } finally { m++; } } async function sub3(a, b) { let t = \"\"; try { t += await order({k: a}); } finally { t += \"|\" + (await order({k: b})); } return t; }";
    let inner_open = if labelled { "for (let j = 0; j < 2; j++) { " } else { "" };
    let inner_close = if labelled { " s += \"j\"; }" } else { "" };
    let label = if labelled { "outer: " } else { "" };
    let text = format!(
        "{helpers} let s = \"\"; try {{ {label}for (let i = 0; i < 3; i++) {{ {inner_open}try {{ let blk = i; s += \"a\" + blk; if (i === 1) {{ {action} }} s += \"b\"; }} finally {{ {site_code} }} s += \"c\";{inner_close} }} }} catch (e) {{ return \"caught:\" + (e.code || e.message) + \":\" + (e.where || JSON.stringify(e.extra)) + \":\" + JSON.stringify(e.list || null) + \":\" + (e instanceof Error) + \":\" + s; }} return \"end:\" + s;"
    );
    (format!("pending:{}x{}", comp_names[comp], site_names[site]), text)
}

#[derive(Clone, Copy, PartialEq, Debug)]
pub enum Kind {
    Value,
    Error,
    Promise,
    Object,
    /// pending host promise that the host later REJECTS with the string "rej <k>"
    Reject,
}

pub fn kind_of(v: &Value) -> Kind {
    match v.as_str() {
        Some("e") => Kind::Error,
        Some("p") => Kind::Promise,
        Some("o") => Kind::Object,
        Some("r") => Kind::Reject,
        _ => Kind::Value,
    }
}

fn value_js(k: u64, kind: Kind) -> String {
    match kind {
        Kind::Object => format!("{{v: {}, s: \"r{}\", l: [{}, {}]}}", k % 7, k, k, k + 1),
        _ => format!("{}", k % 5),
    }
}
fn value_json(k: u64, kind: Kind) -> Value {
    match kind {
        Kind::Object => json!({"v": k % 7, "s": format!("r{}", k), "l": [k, k + 1]}),
        _ => json!(k % 5),
    }
}
fn err_text(k: u64) -> String {
    format!("TypeError: boom {}", k)
}

struct HostRun {
    end: String,
    log: Vec<String>,
    suspensions: u64,
    stale: Vec<String>,
}

/// Drive one module program on an existing interpreter with the scripted host (used by C07 and C14).
pub fn drive_host(interp: &mut Interpreter, src: &str, path: Option<&str>, kinds: &BTreeMap<u64, Kind>, sched: &[u64], suspensions: &mut u64) -> String {
    let mut si = 0usize;
    let mut next = |n: u64| -> u64 {
        let v = sched.get(si % sched.len().max(1)).copied().unwrap_or(0);
        si += 1;
        if n == 0 { 0 } else { v % n }
    };
    let mut outstanding: Vec<(u64, RuntimeValue)> = vec![];
    let mut steps = 0u64;
    tsrun::verif_hooks::vm_instr_set_limit(20_000_000);
    tsrun::verif_hooks::vm_instr_reset();
    let mut res = match interp.prepare(src, path.map(ModulePath::new)) {
        Ok(r) => r,
        Err(e) => return format!("error:{}", error_class(&e)),
    };
    loop {
        match res {
            StepResult::Continue => {}
            StepResult::Complete(v) => return format!("complete:{}", render_value(&v)),
            StepResult::Done => return "done".into(),
            StepResult::NeedImports(_) => return describe_step(&res),
            StepResult::Suspended { pending, cancelled: _ } => {
                *suspensions += 1;
                // host-forced collection while the run is parked (schedule-chosen)
                if next(2) == 1 {
                    interp.collect();
                }
                // spurious steps while suspended
                let spurious = next(3);
                let mut early: Option<StepResult> = None;
                if pending.is_empty() {
                    for _ in 0..spurious {
                        match interp.step() {
                            Ok(StepResult::Suspended { pending: p2, .. }) if p2.is_empty() => {}
                            Ok(other) => {
                                early = Some(other);
                                break;
                            }
                            Err(e) => return format!("error:{}", error_class(&e)),
                        }
                    }
                }
                if let Some(o) = early {
                    res = o;
                    continue;
                }
                if !pending.is_empty() {
                    let mut responses = vec![];
                    for o in pending.iter() {
                        let pj = tsrun::js_value_to_json(o.payload.value()).unwrap_or(Value::Null);
                        let k = pj["k"].as_u64().unwrap_or(0);
                        let kind = kinds.get(&k).copied().unwrap_or(Kind::Value);
                        let result = match kind {
                            Kind::Value => Ok(RuntimeValue::unguarded(JsValue::Number((k % 5) as f64))),
                            Kind::Object => api::create_response_object(interp, &value_json(k, Kind::Object)),
                            Kind::Error => Err(JsError::type_error(format!("boom {}", k))),
                            Kind::Promise | Kind::Reject => {
                                let p = api::create_promise(interp);
                                let handle = RuntimeValue::unguarded(p.value().clone());
                                outstanding.push((k, p));
                                Ok(handle)
                            }
                        };
                        responses.push(OrderResponse { id: o.id, result });
                    }
                    drop(pending);
                    interp.fulfill_orders(responses);
                } else if !outstanding.is_empty() {
                    // settle one or several outstanding promises, in a schedule-chosen order
                    let how_many = 1 + next(outstanding.len() as u64) as usize;
                    for _ in 0..how_many {
                        if outstanding.is_empty() {
                            break;
                        }
                        let idx = next(outstanding.len() as u64) as usize;
                        let (k, p) = outstanding.remove(idx);
                        if kinds.get(&k).copied() == Some(Kind::Reject) {
                            let reason = RuntimeValue::unguarded(JsValue::String(format!("rej {}", k).into()));
                            if api::reject_promise(interp, &p, reason).is_err() {
                                return "error:reject_promise".into();
                            }
                        } else {
                            let val = RuntimeValue::unguarded(JsValue::Number((k % 5) as f64));
                            if api::resolve_promise(interp, &p, val).is_err() {
                                return "error:resolve_promise".into();
                            }
                        }
                    }
                } else {
                    return "stuck:suspended-with-nothing-outstanding".into();
                }
            }
        }
        steps += 1;
        if steps > 600_000 {
            return "budget".into();
        }
        tsrun::verif_hooks::vm_instr_reset();
        res = match interp.step() {
            Ok(r) => r,
            Err(e) => return format!("error:{}:{}", error_class(&e), e.to_string().chars().take(80).collect::<String>()),
        };
    }
}

/// Drive a module program with a scripted host.
fn run_host(src: &str, kinds: &BTreeMap<u64, Kind>, sched: &[u64], gc_threshold: Option<usize>) -> HostRun {
    let log = Rc::new(RefCell::new(Vec::new()));
    reset_hooks();
    let mut suspensions = 0u64;
    let r = guarded(|| {
        let mut interp = new_interp(&log);
        if let Some(t) = gc_threshold {
            interp.set_gc_threshold(t);
        }
        drive_host(&mut interp, src, Some("/main.ts"), kinds, sched, &mut suspensions)
    });
    tsrun::verif_hooks::vm_instr_set_limit(0);
    let end = match r {
        Ok(e) => e,
        Err(p) => {
            if p.contains("verif: vm work limit") { "budget".into() } else { format!("panic:{}", p) }
        }
    };
    let stale: Vec<String> = tsrun::verif_hooks::take_stale().into_iter().map(|(k, v)| format!("{}x {}", v, k)).collect();
    let l = log.borrow().clone();
    HostRun { end, log: l, suspensions, stale }
}

impl Property for C07Prop {
    fn id(&self) -> &'static str {
        "C07"
    }
    fn rule(&self) -> String {
        format!("Module programs that `await order(..)` (module tsrun:host) inside 1-5 async segments drawn from {} position templates (plain local, try/finally with pending return or throw, catch, loops, for-of over arrays and generators, methods using this, static methods, nested async calls, arrows capturing this, destructuring defaults, template literals, call arguments, conditional/logical operands, block-scoped let + closure, switch, object/array literals, finally+continue, compound assignment, Promise.all / then-chains over host promises, object responses), each with live state that is read after the await. One segment in three is compositional instead: a pending completion (normal, return, object thrown by a callee, Error subclass, break, continue, labelled break, labelled continue out of an inner loop) in flight while a finally block suspends through one of six sites (await order, await in a callee, in a callee of a callee, in a loop, twice, in a callee with its own try/finally), inside a three-iteration loop with block-scoped state, all observed afterwards. Handler templates register 3-4 then/catch/finally handlers on a still-pending host promise and compare their firing order and values after the await. Host kinds per order: immediate value, object value, error response, pending host promise resolved later, pending host promise rejected later; the host also forces collect() at schedule-chosen suspensions. Oracles: the program with `order` replaced by an in-program stub returning the same values gives the same (value, console output); 4 host schedules (spurious steps, settle order and batching of outstanding promises, GC threshold 1 / 100) agree; no stale-handle event. Segments gated by an open finding are not emitted (counted). Non-trivial: >= 1 suspension observed and >= 2 segments. Distinct = distinct program + schedules.", SEGMENTS.len())
    }
    fn assumptions(&self) -> Vec<String> {
        vec!["`order()` is a blocking syscall that suspends the whole VM, so the sequential inline-value relation is exact; promise reactions run synchronously by design, so only what the property states (value, output, errors) is compared".into()]
    }
    fn plan(&self, tier: Tier) -> Plan {
        Plan { shards: 16, cases_per_shard: tier.pick(1200, 25000), tape_len: 200, watchdog_s: tier.pick(900, 7200) }
    }
    fn generate(&self, tape: &mut Tape, ctx: &Ctx) -> Value {
        let n = 1 + tape.below(5);
        let mut body = String::new();
        let mut kinds: BTreeMap<String, Value> = BTreeMap::new();
        let mut tags: Vec<String> = vec![];
        let mut excluded: BTreeMap<String, u64> = BTreeMap::new();
        let mut next_k = 1u64;
        let mut main = String::new();
        for s in 0..n {
            // one segment in three is compositional: pending completion x suspension site
            if tape.below(3) == 2 {
                let (k1, k2) = (next_k, next_k + 1);
                next_k += 2;
                kinds.insert(k1.to_string(), json!("v"));
                kinds.insert(k2.to_string(), json!("v"));
                let (tag, text) = completion_segment(tape, k1, k2);
                tags.push(format!("seg:{}", tag));
                body.push_str(&format!("async function seg{}() {{ {} }}\n", s, text));
                main.push_str(&format!("  try {{ __t({}, await seg{}()); }} catch (e) {{ __t({}, \"caught:\" + String(e)); }}\n", s, s, s));
                continue;
            }
            let mut pick = tape.below(SEGMENTS.len());
            // skip segments gated by an open finding (exact tag), counting the exclusion
            let mut guard = 0;
            while ctx.gates.excluded(&format!("C07:seg:{}", SEGMENTS[pick].0)) && guard < SEGMENTS.len() {
                *excluded.entry(SEGMENTS[pick].0.to_string()).or_insert(0) += 1;
                pick = (pick + 1) % SEGMENTS.len();
                guard += 1;
            }
            let (name, text, need) = SEGMENTS[pick];
            tags.push(format!("seg:{}", name));
            let mut t = text.to_string();
            let mut k1: Vec<u64> = vec![];
            for ch in need.chars() {
                let k = next_k;
                next_k += 1;
                kinds.insert(k.to_string(), json!(ch.to_string()));
                k1.push(k);
                let (ph1, ph2) = match ch {
                    'e' => ("KE", "KE"),
                    'p' => ("P1", "P2"),
                    'r' => ("R1", "R2"),
                    _ => ("K1", "K2"),
                };
                // first occurrence of the class fills the "1" placeholder, the second the "2" placeholder
                if t.contains(ph1) {
                    t = t.replace(ph1, &k.to_string());
                } else {
                    t = t.replace(ph2, &k.to_string());
                }
            }
            // single-key segments reuse the key for any remaining K2 placeholder
            if let Some(first) = k1.first() {
                t = t.replace("K2", &first.to_string()).replace("P2", &first.to_string());
            }
            body.push_str(&format!("async function seg{}() {{ {} }}\n", s, t));
            main.push_str(&format!("  try {{ __t({}, await seg{}()); }} catch (e) {{ __t({}, \"caught:\" + String(e)); }}\n", s, s, s));
        }
        let program = format!("{}{}async function main() {{\n{}}}\nawait main();\n__out.join(\"|\")\n", PRELUDE, body, main);
        // stub: same values, delivered inline
        let mut table = String::from("const __K = {");
        for (k, kd) in kinds.iter() {
            let kk: u64 = k.parse().unwrap_or(0);
            let kd = kind_of(kd);
            let entry = match kd {
                Kind::Value => format!("{}: () => {}", k, value_js(kk, Kind::Value)),
                Kind::Object => format!("{}: () => ({})", k, value_js(kk, Kind::Object)),
                Kind::Error => format!("{}: () => {{ throw \"{}\"; }}", k, err_text(kk)),
                Kind::Promise => format!("{}: () => Promise.resolve({})", k, value_js(kk, Kind::Value)),
                Kind::Reject => format!("{}: () => Promise.reject(\"rej {}\")", k, kk),
            };
            table.push_str(&entry);
            table.push_str(", ");
        }
        table.push_str("};\nconst order = (p) => __K[p.k]();\n");
        let host_src = format!("import {{ order }} from \"tsrun:host\";\n{}", program);
        let stub_src = format!("{}{}", table, program);
        let schedules: Vec<Vec<u64>> = (0..3).map(|_| (0..12).map(|_| tape.below(1000) as u64).collect()).collect();
        json!({"host_src": host_src, "stub_src": stub_src, "kinds": kinds, "schedules": schedules, "tags": tags, "excluded": excluded})
    }
    fn execute(&self, case: &Value, _ctx: &mut Ctx) -> Exec {
        let host_src = case["host_src"].as_str().unwrap_or("");
        let stub_src = case["stub_src"].as_str().unwrap_or("");
        let kinds: BTreeMap<u64, Kind> = case["kinds"].as_object().map(|m| m.iter().map(|(k, v)| (k.parse().unwrap_or(0), kind_of(v))).collect()).unwrap_or_default();
        let tags: Vec<String> = case["tags"].as_array().map(|a| a.iter().filter_map(|x| x.as_str().map(|s| s.to_string())).collect()).unwrap_or_default();
        let mut counters: Vec<(String, u64)> = vec![];
        if let Some(ex) = case["excluded"].as_object() {
            for (k, v) in ex {
                counters.push((format!("excluded_by_gate:C07:seg:{}", k), v.as_u64().unwrap_or(0)));
            }
        }
        // reference: inline stub (no suspension at all)
        let stub = run_host(stub_src, &kinds, &[0], None);
        if stub.end == "budget" {
            return Exec::discard("budget");
        }
        if stub.end.starts_with("panic") {
            return Exec::discard("stub run panicked (C01/C06 business)");
        }
        // schedule 0: everything immediate, no spurious steps
        let base = run_host(host_src, &kinds, &[0], None);
        let fail = |sig: String, msg: String, obs: Value| -> Exec {
            let mut e = Exec::fail(sig, msg);
            e.observed = obs;
            e
        };
        let first_tag = tags.first().cloned().unwrap_or_default();
        if !base.stale.is_empty() {
            return fail(format!("c07:stale-handle {}", base.stale[0]), format!("stale-handle events during suspension/resumption: {:?}", base.stale), json!({"stale": base.stale})).with_tags(tags);
        }
        if base.end == "budget" {
            return Exec::discard("budget");
        }
        if (base.end.clone(), base.log.clone()) != (stub.end.clone(), stub.log.clone()) {
            let k = base.log.iter().zip(stub.log.iter()).position(|(a, b)| a != b);
            let seg = k.and_then(|i| base.log.get(i)).and_then(|l| l.strip_prefix('t')).and_then(|l| l.split(':').next()).and_then(|n| n.parse::<usize>().ok()).and_then(|i| tags.get(i).cloned()).unwrap_or(first_tag.clone());
            return fail(
                format!("c07:suspended-differs-from-inline {}", seg),
                format!("suspending changes the outcome ({}): with host orders end={:?}, with inline values end={:?}; first differing line {:?} vs {:?}", seg, base.end.chars().take(160).collect::<String>(), stub.end.chars().take(160).collect::<String>(), k.and_then(|i| base.log.get(i)), k.and_then(|i| stub.log.get(i))),
                json!({"host": {"end": base.end, "log": base.log}, "inline": {"end": stub.end, "log": stub.log}}),
            )
            .with_tags(tags);
        }
        // schedule independence
        let mut total_susp = base.suspensions;
        for (i, s) in case["schedules"].as_array().cloned().unwrap_or_default().iter().enumerate() {
            let sched: Vec<u64> = s.as_array().map(|a| a.iter().map(|x| x.as_u64().unwrap_or(0)).collect()).unwrap_or_default();
            let gc = if i % 2 == 0 { Some(1usize) } else { Some(100usize) };
            let r = run_host(host_src, &kinds, &sched, gc);
            total_susp += r.suspensions;
            if !r.stale.is_empty() {
                return fail(format!("c07:stale-handle {}", r.stale[0]), format!("stale-handle events under schedule {} (gc {:?}): {:?}", i, gc, r.stale), json!({"stale": r.stale, "schedule": sched})).with_tags(tags);
            }
            if r.end == "budget" {
                continue;
            }
            if (r.end.clone(), r.log.clone()) != (base.end.clone(), base.log.clone()) {
                return fail(
                    format!("c07:schedule-dependent {}", first_tag),
                    format!("outcome depends on the host schedule {:?} (gc {:?}): end={:?} vs {:?}", sched, gc, r.end.chars().take(160).collect::<String>(), base.end.chars().take(160).collect::<String>()),
                    json!({"schedule": sched, "this": {"end": r.end, "log": r.log}, "base": {"end": base.end, "log": base.log}}),
                )
                .with_tags(tags);
            }
        }
        let nontrivial = base.suspensions >= 1 && tags.len() >= 2;
        let mut e = Exec::pass(nontrivial);
        e.tags = tags;
        e.counters = counters;
        e.counters.push(("suspensions_observed".into(), total_susp));
        e.observed = json!({"end": base.end.chars().take(200).collect::<String>(), "suspensions": base.suspensions});
        e
    }
}
