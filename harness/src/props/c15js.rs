//! C15: the JavaScript side. Program texts that carry doubles into tsrun exactly (hex bits ->
//! value by exact power-of-two arithmetic, never through a decimal literal) and carry results
//! out exactly (value -> sign, exponent, two 32-bit halves by exact scaling), so that the
//! in-program conversion paths are observed without trusting the conversions under test.

/// Shared prelude. P[i] = 2^i, Q[i] = 2^-i built by repeated exact doubling/halving.
/// V(hex16) -> number with exactly those bits. B(x) -> "s,e,hi,lo" with |x| = (hi*2^32+lo)*2^e.
pub const PRELUDE: &str = r#"const P=[1];for(let i=1;i<=1100;i++)P.push(P[i-1]*2);
const Q=[1];for(let i=1;i<=1100;i++)Q.push(Q[i-1]*0.5);
function HX(s,o){let v=0;for(let j=0;j<8;j++){const c=s.charCodeAt(o+j);v=v*16+(c<58?c-48:c-87);}return v;}
function V(s){let hi=HX(s,0);const lo=HX(s,8);let sg=1;if(hi>=P[31]){sg=-1;hi-=P[31];}
const ex=Math.floor(hi/P[20]);const mh=hi-ex*P[20];let m=mh*P[32]+lo;
if(ex===2047)return m===0?sg/0:0/0;
if(ex===0)return sg*(m*Q[1074]);
m+=P[52];const e=ex-1075;return sg*(e>=0?m*P[e]:m*Q[-e]);}
function B(x){if(typeof x!=="number")return"type:"+typeof x;if(x!==x)return"nan";let s=0;if(x<0||(x===0&&1/x<0)){s=1;x=-x;}
if(x===0)return s+",0,0,0";if(x===1/0)return s+",inf";
let e=0;while(x>=P[85]){x*=Q[32];e+=32;}while(x>=P[53]){x*=0.5;e++;}
while(x<P[21]&&e>-1040){x*=P[32];e-=32;}
while(x<P[52]&&e>-1074){x*=2;e--;}
const hi=Math.floor(x/P[32]);const lo=x-hi*P[32];return s+","+e+","+hi+","+lo;}
function AR(s){let v=0;for(let j=1;j<s.length;j++)v=v*10+(s.charCodeAt(j)-48);return v;}
function OP(x,c,a){switch(c){
case"b":return B(x);
case"S":return String(x);
case"T":return `${x}`;
case"C":return ""+x;
case"N":return x.toString();
case"J":return JSON.stringify(x);
case"K":{const o={};o[x]=1;return Object.keys(o)[0];}
case"O":console.log(x);return"@";
case"I":return""+(x|0);
case"U":return""+(x>>>0);
case"W":return""+(~x);
case"A":return""+(x&-1);
case"X":return""+(x^0);
case"L":return""+(x<<a);
case"R":return""+(x>>a);
case"Z":return""+(x>>>a);
case"H":return""+(1<<x);
case"F":return x.toFixed(a);
case"P":return x.toPrecision(a);
case"E":return x.toExponential(a);
case"e":return x.toExponential();
case"G":return x.toString(a);
case"V":return B(Number(String(x)));
case"Y":return B(+(""+x));
case"D":return B(parseFloat(String(x)));
}return"?";}
function RUN(data){const d=data.split(",");for(let i=0;i<d.length;i++){const f=d[i].split(";");const x=V(f[0]);let r="="+i;
for(let j=1;j<f.length;j++){const c=f[j].charAt(0);const a=f[j].length>1?AR(f[j]):0;let v;try{v=OP(x,c,a);}catch(err){v="!"+(err&&err.name);}r+="|"+v;}
console.log(r);}}
function SO(s,c,y){switch(c){
case"n":return B(Number(s));
case"p":return B(+s);
case"m":return B(s*1);
case"f":return B(parseFloat(s));
case"q":return""+(s==V(y));
case"g":return B(Number.parseFloat(s));
case"i":return B(parseInt(s));
case"h":return B(parseInt(s,16));
case"j":return B(Number.parseInt(s));
case"z":return B(parseInt(s,36));
}return"?";}
function RS(i,s,ops,y){let r="="+i;for(let j=0;j<ops.length;j++){let v;try{v=SO(s,ops.charAt(j),y);}catch(err){v="!"+(err&&err.name);}r+="|"+v;}console.log(r);}
"#;

/// JS double-quoted string literal with everything outside printable ASCII escaped
pub fn js_string(s: &str) -> String {
    let mut o = String::with_capacity(s.len() + 2);
    o.push('"');
    for c in s.chars() {
        match c {
            '"' => o.push_str("\\\""),
            '\\' => o.push_str("\\\\"),
            ' '..='~' => o.push(c),
            _ => {
                let mut buf = [0u16; 2];
                for u in c.encode_utf16(&mut buf) {
                    o.push_str(&format!("\\u{:04x}", u));
                }
            }
        }
    }
    o.push('"');
    o
}

/// number program: `data` = "hex16;op;op,hex16;op" (in-program op codes only)
pub fn number_program(data: &str) -> String {
    format!("{}RUN(\"{}\");\n", PRELUDE, data)
}

/// string program: items (index, string, in-program ops, hex of the expected value) in chunk
/// functions of 60 (array literals and register use stay small), literal items (index, literal
/// text, negate) in chunks of 60 as well.
pub fn string_program(items: &[(usize, String, String, String)], literals: &[(usize, String, bool)]) -> String {
    let mut src = String::from(PRELUDE);
    for (c, chunk) in items.chunks(60).enumerate() {
        let idx: Vec<String> = chunk.iter().map(|x| x.0.to_string()).collect();
        let ss: Vec<String> = chunk.iter().map(|x| js_string(&x.1)).collect();
        let os: Vec<String> = chunk.iter().map(|x| js_string(&x.2)).collect();
        let ys: Vec<String> = chunk.iter().map(|x| js_string(&x.3)).collect();
        src.push_str(&format!(
            "function g{c}(){{const k=[{}];const a=[{}];const o=[{}];const y=[{}];for(let i=0;i<a.length;i++)RS(k[i],a[i],o[i],y[i]);}}\ng{c}();\n",
            idx.join(","),
            ss.join(","),
            os.join(","),
            ys.join(","),
            c = c
        ));
    }
    for (c, chunk) in literals.chunks(60).enumerate() {
        let idx: Vec<String> = chunk.iter().map(|x| x.0.to_string()).collect();
        let ls: Vec<String> = chunk.iter().map(|x| if x.2 { format!("-{}", x.1) } else { x.1.clone() }).collect();
        src.push_str(&format!(
            "function h{c}(){{const k=[{}];const a=[{}];for(let i=0;i<a.length;i++)console.log(\"=L\"+k[i]+\"|\"+B(a[i]));}}\nh{c}();\n",
            idx.join(","),
            ls.join(" , "),
            c = c
        ));
    }
    src
}
