//! C12 — execution is deterministic and interpreter instances are isolated.

use crate::core::{guarded, Ctx, Exec, Plan, Property, Tier};
use crate::engine::{describe_step, error_class, new_interp, reset_hooks};
use crate::progen::{gen_script, Config};
use crate::tape::{fnv64, Tape};
use serde_json::{json, Value};
use std::cell::RefCell;
use std::rc::Rc;
use tsrun::{Interpreter, StepResult};

pub struct C12Prop;
pub static C12: C12Prop = C12Prop;

/// address- and order-sensitive epilogue appended to every program
const SENSITIVE: &str = r#"
const __o1 = {id: 1}, __o2 = {id: 2}, __o3 = {id: 3}, __s1 = Symbol("a"), __s2 = Symbol("a");
const __m = new Map([[__o2, "two"], [__o1, "one"], [__s1, "s1"], [__o3, "three"], [__s2, "s2"]]);
const __st = new Set([__o3, __o2, __o1, __s2, __s1]);
const __big = {}; for (let i = 0; i < 12; i++) { __big["k" + ((i * 7) % 12)] = i; }
__t(9000, [[...__m.values()], [...__st].map((x) => (typeof x === "symbol" ? "sym" : x.id)), __s1 === __s2,
  [{k: 1, v: "a"}, {k: 0, v: "b"}, {k: 1, v: "c"}, {k: 0, v: "d"}].sort((a, b) => a.k - b.k).map((x) => x.v),
  Object.keys(__big), JSON.stringify(__big), Math.random(), Math.random(), Date.now(), new Date(0).getTime(),
  [__o3, __o1, __o2].map((o) => __m.get(o))]);
__t(9001, [/a(b+)c/.test("xabbc"), "a1b22c".replace(/\d+/g, "@"), "x,y;z".split(/[,;]/).length, /^K\w+/i.test("key-9")]);
export const __ea = 1; export let __eb = "two"; export function __ec() { return 3; } export class __Ed {} export const __ee = [5];
export const __ef = {six: 6}; export const __eg = () => 7; export const __eh = null; export const __ei = __s1; export default 10;
"#;

struct Runner {
    interp: Interpreter,
    log: Rc<RefCell<Vec<String>>>,
    steps: u64,
    end: Option<String>,
    first: Option<Result<StepResult, String>>,
}

impl Runner {
    fn new(src: &str) -> Runner {
        let log = Rc::new(RefCell::new(Vec::new()));
        let mut interp = new_interp(&log);
        let first = match interp.prepare(src, Some(tsrun::ModulePath::new("/c12/main.ts"))) {
            Ok(r) => Ok(r),
            Err(e) => Err(format!("error:{}", error_class(&e))),
        };
        Runner { interp, log, steps: 0, end: None, first: Some(first) }
    }
    /// advance by at most n steps; true when finished
    fn advance(&mut self, n: u64, budget: u64) -> bool {
        if self.end.is_some() {
            return true;
        }
        if let Some(f) = self.first.take() {
            match f {
                Err(e) => {
                    self.end = Some(e);
                    return true;
                }
                Ok(StepResult::Continue) => {}
                Ok(other) => {
                    self.end = Some(describe_step(&other));
                    return true;
                }
            }
        }
        for _ in 0..n {
            self.steps += 1;
            if self.steps > budget {
                self.end = Some("budget".into());
                return true;
            }
            match self.interp.step() {
                Ok(StepResult::Continue) => {}
                Ok(other) => {
                    self.end = Some(describe_step(&other));
                    return true;
                }
                Err(e) => {
                    self.end = Some(format!("error:{}", error_class(&e)));
                    return true;
                }
            }
        }
        false
    }
    fn trace(&self) -> String {
        format!("steps={} end={} exports={} log={}", self.steps, self.end.clone().unwrap_or_default(), self.interp.get_export_names().join(","), self.log.borrow().join("\u{1}"))
    }
}

const BUDGET: u64 = 2_000_000;

fn solo(src: &str) -> String {
    let mut r = Runner::new(src);
    while !r.advance(100_000, BUDGET) {}
    r.trace()
}

/// create and drop other interpreters in various states, and allocate junk
/// A RegExp engine that never matches anything: instances configured with it must not influence
/// (or be influenced by) instances that use the default engine.
#[derive(Debug)]
struct NeverRegex;
impl tsrun::platform::CompiledRegex for NeverRegex {
    fn is_match(&self, _input: &str) -> Result<bool, String> {
        Ok(false)
    }
    fn find(&self, _input: &str, _start_pos: usize) -> Result<Option<tsrun::platform::RegexMatch>, String> {
        Ok(None)
    }
    fn find_iter(&self, _input: &str) -> Result<Vec<tsrun::platform::RegexMatch>, String> {
        Ok(vec![])
    }
    fn split(&self, input: &str) -> Result<Vec<String>, String> {
        Ok(vec![input.to_string()])
    }
    fn replace(&self, input: &str, _replacement: &str) -> Result<String, String> {
        Ok(input.to_string())
    }
    fn replace_all(&self, input: &str, _replacement: &str) -> Result<String, String> {
        Ok(input.to_string())
    }
}
struct NeverProvider;
impl tsrun::platform::RegExpProvider for NeverProvider {
    fn compile(&self, _pattern: &str, _flags: &str) -> Result<Rc<dyn tsrun::platform::CompiledRegex>, String> {
        Ok(Rc::new(NeverRegex))
    }
}

const REGEX_PROBE: &str = "console.log(\"t9001:\" + JSON.stringify([/a(b+)c/.test(\"xabbc\"), \"a1b22c\".replace(/\\d+/g, \"@\"), \"x,y;z\".split(/[,;]/).length, /^K\\w+/i.test(\"key-9\")]));";

/// What the regex line of the epilogue prints under the default engine and under `NeverProvider`,
/// each measured once in a fresh OS thread (nothing any other instance did can be visible there).
fn regex_expectations() -> &'static (String, String) {
    static CELL: std::sync::OnceLock<(String, String)> = std::sync::OnceLock::new();
    CELL.get_or_init(|| {
        let run = |never: bool| -> String {
            std::thread::spawn(move || {
                let log = Rc::new(RefCell::new(Vec::new()));
                let mut interp = new_interp(&log);
                if never {
                    interp.set_regexp_provider(Rc::new(NeverProvider));
                }
                let _ = interp.eval(REGEX_PROBE, None);
                let l = log.borrow().first().cloned().unwrap_or_default();
                l
            })
            .join()
            .unwrap_or_default()
        };
        (run(false), run(true))
    })
}

/// The regex line of a finished run, if the epilogue got that far
fn regex_line(trace: &str) -> Option<String> {
    trace.split('\u{1}').find(|l| l.starts_with("t9001:")).map(|l| l.to_string())
}

fn perturb(kind: u64, other: &str) -> Option<String> {
    match kind % 6 {
        5 => {
            // another instance with its own RegExp engine runs the same regular expressions first
            let mut r = Runner::new(other);
            r.interp.set_regexp_provider(Rc::new(NeverProvider));
            while !r.advance(100_000, BUDGET) {}
            // that instance must have been served by ITS engine
            if let Some(l) = regex_line(&r.trace()) {
                let want = format!("t9001:{}", regex_expectations().1.trim_start_matches("t9001:"));
                if l.replace(' ', "") != want.replace(' ', "") {
                    return Some(format!("an instance with its own RegExp engine got results of another engine: {} (its engine gives {})", l, want));
                }
            }
        }
        0 => {}
        1 => {
            let mut v: Vec<Vec<u8>> = vec![];
            for i in 0..40 {
                v.push(vec![i as u8; 1000 + i * 37]);
            }
            drop(v);
        }
        2 => {
            // an interpreter abandoned mid-run
            let mut r = Runner::new(other);
            let _ = r.advance(25, BUDGET);
        }
        3 => {
            // an interpreter whose run failed
            let mut r = Runner::new("function f(n) { if (n > 3) { throw new TypeError('x'); } return f(n + 1); } f(0)");
            while !r.advance(1000, BUDGET) {}
        }
        _ => {
            // several live interpreters at once, dropped in a different order
            let a = Runner::new("1 + 1");
            let mut b = Runner::new(other);
            let _ = b.advance(60, BUDGET);
            let c = Runner::new("({a: [1, 2, 3]})");
            drop(b);
            drop(a);
            drop(c);
        }
    }
    None
}

impl Property for C12Prop {
    fn id(&self) -> &'static str {
        "C12"
    }
    fn rule(&self) -> String {
        "P and Q = two progen programs (full profile) run as modules, each followed by an address- and order-sensitive epilogue (objects and symbols as Map/Set keys, enumeration of a 12-key object, stable sort with ties, Symbol identity, Math.random/Date.now under fixed providers, four regular expressions, ten exports of every declaration kind). The full trace (number of steps, terminal result with payload, export table in the order the host API reports it, console lines) of P must be identical: solo; 3x in fresh interpreters each preceded by a different perturbation (junk allocation, an interpreter abandoned mid-run, a failed run, several live interpreters dropped out of order, an instance configured with a different RegExp engine - one that never matches - running the same regular expressions first; every instance must show the regex results of ITS engine, measured once in fresh OS threads); with P and Q stepped in one thread under a tape-chosen interleaving; in 4 OS threads at once (every 8th case); and in a separately spawned process (every 16th case). Non-trivial: the trace has >= 200 steps and the epilogue ran. Distinct = distinct (P, Q, schedule).".into()
    }
    fn assumptions(&self) -> Vec<String> {
        vec!["time and random providers are fixed by the harness (the property conditions on them)".into(), "thread interleavings are not owned by the harness: the 4-thread run is a smoke test (Interpreter is !Send and shares nothing by design)".into()]
    }
    fn plan(&self, tier: Tier) -> Plan {
        Plan { shards: 16, cases_per_shard: tier.pick(700, 25000), tape_len: tier.pick(900, 1800), watchdog_s: tier.pick(900, 7200) }
    }
    fn generate(&self, tape: &mut Tape, ctx: &Ctx) -> Value {
        let max = if ctx.tier == Tier::Quick { 12 } else { 26 };
        let p = gen_script(tape, &crate::findings::Gates::none(), Config::full(max));
        let q = gen_script(tape, &crate::findings::Gates::none(), Config::full(max));
        let fin = |js: String| -> String {
            // insert the epilogue before the final expression line
            match js.rfind("\n__show(") {
                Some(i) => format!("{}{}{}", &js[..i], SENSITIVE, &js[i..]),
                None => format!("{}{}", js, SENSITIVE),
            }
        };
        let sched: Vec<u64> = (0..24).map(|_| 1 + tape.below(400) as u64).collect();
        let perturb: Vec<u64> = (0..3).map(|_| tape.below(6) as u64).collect();
        json!({"p": fin(p.js()), "q": fin(q.js()), "schedule": sched, "perturb": perturb,
               "threads": tape.chance(1, 8), "xproc": tape.chance(1, 16)})
    }
    fn execute(&self, case: &Value, _ctx: &mut Ctx) -> Exec {
        let p = case["p"].as_str().unwrap_or("").to_string();
        let q = case["q"].as_str().unwrap_or("").to_string();
        // child mode: only compute and print the trace hash
        if std::env::var("VERIF_C12_CHILD").is_ok() {
            let t = solo(&p);
            let mut e = Exec::pass(false);
            e.observed = json!({"trace_hash": format!("{:016x}", fnv64(t.as_bytes()))});
            return e;
        }
        reset_hooks();
        let r = guarded(|| {
            let base_p = solo(&p);
            let base_q = solo(&q);
            let mut problems: Vec<String> = vec![];
            // (a) repetition with perturbations
            for (k, pk) in case["perturb"].as_array().cloned().unwrap_or_default().iter().enumerate() {
                if let Some(problem) = perturb(pk.as_u64().unwrap_or(0), &q) {
                    problems.push(problem);
                }
                let t = solo(&p);
                if let Some(l) = regex_line(&t) {
                    let want = &regex_expectations().0;
                    if l.replace(' ', "") != want.replace(' ', "") {
                        problems.push(format!("default-engine instance got regex results {} (the default engine gives {})", l, want));
                    }
                }
                if t != base_p {
                    problems.push(format!("repetition {} after perturbation {} differs", k, pk));
                }
            }
            // (b) interleaving of two interpreters in one thread
            {
                let mut a = Runner::new(&p);
                let mut b = Runner::new(&q);
                let sched: Vec<u64> = case["schedule"].as_array().map(|v| v.iter().map(|x| x.as_u64().unwrap_or(1)).collect()).unwrap_or_default();
                let mut i = 0usize;
                loop {
                    let n = sched.get(i % sched.len().max(1)).copied().unwrap_or(50);
                    let da = a.advance(n, BUDGET);
                    let m = sched.get((i + 1) % sched.len().max(1)).copied().unwrap_or(50);
                    let db = b.advance(m, BUDGET);
                    i += 2;
                    if da && db {
                        break;
                    }
                }
                if a.trace() != base_p {
                    problems.push("P interleaved with Q differs from P alone".into());
                }
                if b.trace() != base_q {
                    problems.push("Q interleaved with P differs from Q alone".into());
                }
            }
            // (c) threads
            if case["threads"].as_bool() == Some(true) {
                let handles: Vec<_> = (0..4)
                    .map(|k| {
                        let src = if k % 2 == 0 { p.clone() } else { q.clone() };
                        std::thread::spawn(move || solo(&src))
                    })
                    .collect();
                for (k, h) in handles.into_iter().enumerate() {
                    match h.join() {
                        Ok(t) => {
                            let want = if k % 2 == 0 { &base_p } else { &base_q };
                            if &t != want {
                                problems.push(format!("thread {} trace differs", k));
                            }
                        }
                        Err(_) => problems.push(format!("thread {} panicked", k)),
                    }
                }
            }
            (base_p, problems)
        });
        let (base_p, mut problems) = match r {
            Ok(x) => x,
            Err(pn) => return Exec::discard(format!("panic (C01/C06 business): {}", pn.chars().take(80).collect::<String>())),
        };
        if base_p.contains("end=budget") {
            return Exec::discard("budget");
        }
        // (d) separate process
        let mut xproc_done = 0u64;
        if case["xproc"].as_bool() == Some(true) {
            let dir = crate::core::verif_root().join("target/work/C12");
            let _ = std::fs::create_dir_all(&dir);
            let tag = format!("{}-{:016x}", std::process::id(), fnv64(p.as_bytes()));
            let inp = dir.join(format!("x-{}.in.json", tag));
            let outp = dir.join(format!("x-{}.out.json", tag));
            let _ = std::fs::write(&inp, case.to_string());
            let st = std::process::Command::new(std::env::current_exe().unwrap_or_default())
                .args(["one", "C12", "--case"])
                .arg(&inp)
                .arg("--out")
                .arg(&outp)
                .env("VERIF_C12_CHILD", "1")
                .stdin(std::process::Stdio::null())
                .stdout(std::process::Stdio::null())
                .stderr(std::process::Stdio::null())
                .status();
            let got = std::fs::read_to_string(&outp).ok().and_then(|s| serde_json::from_str::<Value>(&s).ok());
            let _ = std::fs::remove_file(&inp);
            let _ = std::fs::remove_file(&outp);
            if let (Ok(_), Some(v)) = (st, got) {
                xproc_done = 1;
                let h = v["observed"]["trace_hash"].as_str().unwrap_or("").to_string();
                if h != format!("{:016x}", fnv64(base_p.as_bytes())) {
                    problems.push("trace in a separately spawned process differs".into());
                }
            }
        }
        if let Some(first) = problems.first() {
            let mut e = Exec::fail(format!("c12:{}", first.chars().filter(|c| !c.is_ascii_digit()).take(50).collect::<String>()), format!("non-deterministic or non-isolated execution: {:?}", problems));
            e.observed = json!({"problems": problems, "solo_trace": base_p.chars().take(400).collect::<String>()});
            return e;
        }
        let steps: u64 = base_p.split(' ').next().and_then(|s| s.strip_prefix("steps=")).and_then(|s| s.parse().ok()).unwrap_or(0);
        let nontrivial = steps >= 200 && base_p.contains("t9000:");
        let mut e = Exec::pass(nontrivial);
        e.counters = vec![("cross_process_comparisons".into(), xproc_done), ("thread_runs".into(), (case["threads"].as_bool() == Some(true)) as u64)];
        e.observed = json!({"steps": steps, "trace_hash": format!("{:016x}", fnv64(base_p.as_bytes()))});
        e
    }
}
