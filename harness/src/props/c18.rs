//! C18 — module specifiers resolve to canonical paths.
//! Exhaustive enumeration of (specifier, importer) pairs over a small alphabet + random longer
//! paths, against an independent reference resolver written from the property text.

use crate::core::{Ctx, Exec, Plan, Property, Tier};
use crate::tape::Tape;
use serde_json::{json, Value};
use tsrun::ModulePath;

pub struct C18Prop;
pub static C18: C18Prop = C18Prop;

const ALPHA: [&str; 7] = ["", ".", "..", "a", "b", "..a", "a.ts"];
const PREFIX: [&str; 4] = ["", "/", "./", "../"];

fn is_bare_doc(spec: &str) -> bool {
    // documented: "not relative, not absolute", relative = starts with ./ or ../
    !(spec.starts_with('/') || spec.starts_with("./") || spec.starts_with("../"))
}

/// Reference: join to the importer's directory, then stack-normalise.
/// Returns None when the result is unspecified (relative base with `..` underflow).
fn reference(spec: &str, importer: Option<&str>) -> Option<String> {
    if is_bare_doc(spec) {
        return Some(spec.to_string());
    }
    let (absolute, joined): (bool, String) = if spec.starts_with('/') {
        (true, spec.to_string())
    } else {
        match importer {
            None => (false, spec.to_string()),
            Some(imp) => match imp.rfind('/') {
                // directory = everything before the last '/'
                Some(i) => (imp.starts_with('/'), format!("{}/{}", &imp[..i], spec)),
                None => (false, spec.to_string()),
            },
        }
    };
    let mut stack: Vec<&str> = Vec::new();
    for seg in joined.split('/') {
        match seg {
            "" | "." => {}
            ".." => {
                if stack.pop().is_none() && !absolute {
                    return None; // relative underflow: unspecified
                }
            }
            s => stack.push(s),
        }
    }
    if absolute {
        Some(format!("/{}", stack.join("/")))
    } else {
        Some(stack.join("/"))
    }
}

pub enum PairVerdict {
    Ok { nontrivial: bool },
    Unjudged(&'static str),
    Bad(String),
}

pub fn check_pair(spec: &str, importer: Option<&str>) -> PairVerdict {
    let imp_mp = importer.map(ModulePath::new);
    let r = ModulePath::resolve(spec, imp_mp.as_ref());
    let r = r.as_str().to_string();
    let nontrivial = {
        let has_special = |p: &str| p.split('/').enumerate().any(|(i, s)| s == "." || s == ".." || (s.is_empty() && i != 0));
        has_special(spec) || importer.map(|i| has_special(i) || (i.starts_with('/') && i[1..].find('/').is_none())).unwrap_or(false)
    };
    if spec == "." || spec == ".." {
        return PairVerdict::Unjudged("one-segment-dot-specifier");
    }
    if is_bare_doc(spec) {
        if r != spec {
            return PairVerdict::Bad(format!("bare specifier changed: resolve({:?},{:?}) = {:?}", spec, importer, r));
        }
        return PairVerdict::Ok { nontrivial: false };
    }
    let abs_ctx = spec.starts_with('/') || importer.map(|i| i.starts_with('/')).unwrap_or(false);
    let Some(expect) = reference(spec, importer) else {
        return PairVerdict::Unjudged("relative-underflow");
    };
    if r != expect {
        return PairVerdict::Bad(format!("resolve({:?},{:?}) = {:?}, reference = {:?}", spec, importer, r, expect));
    }
    if abs_ctx {
        if !r.starts_with('/') {
            return PairVerdict::Bad(format!("result not absolute: resolve({:?},{:?}) = {:?}", spec, importer, r));
        }
        if r != "/" {
            if r.ends_with('/') {
                return PairVerdict::Bad(format!("trailing slash: {:?}", r));
            }
            if r[1..].split('/').any(|s| s.is_empty() || s == "." || s == "..") {
                return PairVerdict::Bad(format!("non-canonical segment in {:?}", r));
            }
        }
        // fixed point
        let again = ModulePath::resolve(&r, imp_mp.as_ref());
        if again.as_str() != r {
            return PairVerdict::Bad(format!("not idempotent: resolve({:?}) = {:?}", r, again.as_str()));
        }
        let again2 = ModulePath::resolve(&r, None);
        if again2.as_str() != r {
            return PairVerdict::Bad(format!("not a fixed point of normalisation: {:?} -> {:?}", r, again2.as_str()));
        }
    }
    PairVerdict::Ok { nontrivial }
}

fn build(prefix: &str, segs: &[&str], trailing: bool) -> String {
    let mut s = String::from(prefix);
    s.push_str(&segs.join("/"));
    if trailing {
        s.push('/');
    }
    s
}

/// Enumerate all pairs with total segment count == total, for this shard.
/// `f(spec, importer, canonical)`: canonical = undecorated segment lists (a bijection with strings), used
/// to count *distinct* pairs conservatively (decorated forms can coincide with other forms).
fn enumerate_total(total: usize, shard: usize, nshards: usize, f: &mut dyn FnMut(&str, Option<&str>, bool)) {
    // choose all segment tuples of length `total`, then every split point and decoration
    let n = ALPHA.len();
    let combos = n.pow(total as u32);
    let mut idx = vec![0usize; total];
    for c in 0..combos {
        if c % nshards != shard {
            // advance odometer
            for d in 0..total {
                idx[d] += 1;
                if idx[d] < n { break; }
                idx[d] = 0;
            }
            continue;
        }
        let segs: Vec<&str> = idx.iter().map(|i| ALPHA[*i]).collect();
        for split in 0..=total {
            let (sp, im) = segs.split_at(split);
            for pre in PREFIX {
                for st in [false, true] {
                    let spec = build(pre, sp, st);
                    // importer None only once per spec form (when importer part is empty)
                    let spec_canon = pre.is_empty() && !st && !sp.is_empty();
                    if im.is_empty() {
                        f(&spec, None, spec_canon);
                    }
                    for il in [false, true] {
                        for it in [false, true] {
                            let imp = build(if il { "/" } else { "" }, im, it);
                            f(&spec, Some(&imp), spec_canon && !il && !it && !im.is_empty());
                        }
                    }
                }
            }
        }
        for d in 0..total {
            idx[d] += 1;
            if idx[d] < n { break; }
            idx[d] = 0;
        }
    }
}

const NAMES: [&str; 14] = ["", ".", "..", "a", "b", "src", "lib.ts", "..a", "a..", ".hidden", "é", "模块", "x y", "index.d.ts"];

impl Property for C18Prop {
    fn id(&self) -> &'static str {
        "C18"
    }
    fn rule(&self) -> String {
        "Exhaustive part: every (specifier, importer) pair with prefix in {'', '/', './', '../'}, importer with/without leading and trailing slash (and importer=None), total segments <= N (quick N=5, thorough N=7) over {'', '.', '..', 'a', 'b', '..a', 'a.ts'}; distinct_nontrivial counts only undecorated segment-list pairs (a bijection with strings, hence pairwise distinct); decorated forms are evaluated too but not counted as distinct. Random part: paths of up to 40 segments incl. non-ASCII names, plus metamorphic respellings (insert './' or 'x/../'). Non-trivial: the pair contains a '.', '..' or empty segment, or the importer sits directly under '/'. One-segment specifiers '.'/'..' and relative-base '..' underflow are counted as unjudged.".into()
    }
    fn assumptions(&self) -> Vec<String> {
        vec!["reference resolver in harness/src/props/c18.rs written from the property text (join to importer directory; stack removal of '.', '..', ''; clamp at root)".into()]
    }
    fn plan(&self, tier: Tier) -> Plan {
        Plan { shards: 16, cases_per_shard: tier.pick(20_000, 400_000), tape_len: 96, watchdog_s: tier.pick(600, 3600) }
    }
    fn exhaustive_part(&self, tier: Tier) -> Option<String> {
        Some(format!("all pairs with total segments <= {}", tier.pick(5, 7)))
    }
    fn fixed_cases(&self, ctx: &Ctx) -> Vec<Value> {
        let max = ctx.tier.pick(5, 7);
        (0..=max).map(|t| json!({"kind": "exhaustive", "total_segments": t, "shard": ctx.shard, "nshards": ctx.nshards})).collect()
    }
    fn generate(&self, tape: &mut Tape, _ctx: &Ctx) -> Value {
        let nseg = tape.range(0, 20) as usize;
        let mseg = tape.range(0, 20) as usize;
        let sp: Vec<&str> = (0..nseg).map(|_| *tape.pick(&NAMES)).collect();
        let im: Vec<&str> = (0..mseg).map(|_| *tape.pick(&NAMES)).collect();
        let pre = *tape.pick(&PREFIX);
        let spec = build(pre, &sp, tape.chance(1, 4));
        let importer = match tape.below(8) {
            0 => Value::Null,
            k => json!(build(if k >= 3 { "/" } else { "" }, &im, tape.chance(1, 4))),
        };
        // metamorphic respelling positions
        let respell: Vec<u64> = (0..3).map(|_| tape.below(64) as u64).collect();
        json!({"kind": "pair", "spec": spec, "importer": importer, "respell": respell})
    }
    fn execute(&self, case: &Value, _ctx: &mut Ctx) -> Exec {
        match case["kind"].as_str() {
            Some("exhaustive") => {
                let total = case["total_segments"].as_u64().unwrap_or(0) as usize;
                let shard = case["shard"].as_u64().unwrap_or(0) as usize;
                let nshards = case["nshards"].as_u64().unwrap_or(1) as usize;
                let (mut evals, mut nontriv, mut unj_dot, mut unj_under) = (0u64, 0u64, 0u64, 0u64);
                let mut first_bad: Option<(String, Option<String>, String)> = None;
                let mut bad = 0u64;
                let mut nontriv_any = 0u64;
                enumerate_total(total, shard, nshards, &mut |spec, imp, canonical| {
                    evals += 1;
                    match check_pair(spec, imp) {
                        PairVerdict::Ok { nontrivial } => {
                            if nontrivial { nontriv_any += 1; }
                            if nontrivial && canonical { nontriv += 1; }
                        }
                        PairVerdict::Unjudged(w) => {
                            if w.starts_with("one") { unj_dot += 1 } else { unj_under += 1 }
                        }
                        PairVerdict::Bad(m) => {
                            bad += 1;
                            // keep the shortest failing pair
                            let len = spec.len() + imp.map(|s| s.len()).unwrap_or(0);
                            let better = first_bad.as_ref().map(|(s, i, _)| len < s.len() + i.as_ref().map(|x| x.len()).unwrap_or(0)).unwrap_or(true);
                            if better {
                                first_bad = Some((spec.to_string(), imp.map(|s| s.to_string()), m));
                            }
                        }
                    }
                });
                let mut ex = if let Some((s, i, m)) = first_bad {
                    let mut e = Exec::fail("c18:reference-mismatch", format!("{} ({} failing pairs in this block)", m, bad));
                    e.repro = Some(json!({"kind": "pair", "spec": s, "importer": i, "respell": []}));
                    e
                } else {
                    Exec::pass(true)
                };
                ex.evals = evals.max(1);
                ex.nontrivial = nontriv;
                ex.counters = vec![("unjudged:one-segment-dot".into(), unj_dot), ("unjudged:relative-underflow".into(), unj_under), ("exhaustive_pairs".into(), evals), ("exhaustive_nontrivial_incl_possible_duplicates".into(), nontriv_any)];
                ex.observed = json!({"pairs": evals, "nontrivial": nontriv});
                ex
            }
            _ => {
                let spec = case["spec"].as_str().unwrap_or("").to_string();
                let importer = case["importer"].as_str().map(|s| s.to_string());
                let mut tags = vec![];
                let r = ModulePath::resolve(&spec, importer.as_deref().map(ModulePath::new).as_ref());
                let verdict = check_pair(&spec, importer.as_deref());
                let mut ex = match verdict {
                    PairVerdict::Ok { nontrivial } => Exec::pass(nontrivial),
                    PairVerdict::Unjudged(w) => {
                        tags.push(format!("unjudged:{}", w));
                        Exec::pass(false)
                    }
                    PairVerdict::Bad(m) => Exec::fail("c18:reference-mismatch", m),
                };
                // metamorphic: respell the specifier; equal file => equal ModulePath
                if !ex.is_fail() && !is_bare_doc(&spec) && (spec.starts_with('/') || importer.as_deref().map(|i| i.starts_with('/')).unwrap_or(false)) {
                    if let Some(rs) = case["respell"].as_array() {
                        for k in rs {
                            let k = k.as_u64().unwrap_or(0) as usize;
                            // positions of '/' in spec where we may insert "./" or "zz/../"
                            let slashes: Vec<usize> = spec.char_indices().filter(|(_, c)| *c == '/').map(|(i, _)| i).collect();
                            if slashes.is_empty() { break; }
                            let at = slashes[k % slashes.len()] + 1;
                            let ins = if k % 2 == 0 { "./" } else { "zz/../" };
                            let mut s2 = spec.clone();
                            s2.insert_str(at, ins);
                            let r2 = ModulePath::resolve(&s2, importer.as_deref().map(ModulePath::new).as_ref());
                            tags.push("respelling".into());
                            if r2 != r {
                                ex = Exec::fail("c18:respelling", format!("spellings {:?} and {:?} (importer {:?}) resolve to {:?} vs {:?}", spec, s2, importer, r.as_str(), r2.as_str()));
                                break;
                            }
                        }
                    }
                }
                ex.tags = tags;
                ex.observed = json!({"resolved": r.as_str()});
                ex
            }
        }
    }
}
