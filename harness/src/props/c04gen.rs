//! C04 generator + desugarer. Every construct is rendered twice from the same model: as TypeScript
//! (`Two::ts`) and as the JavaScript tsc is specified to emit (`Two::js`, DESIGN Appendix B).
//! All decisions come from the tape; no other randomness.

use crate::core::{Ctx, Tier};
use crate::findings::Gates;
use crate::progen::{gen_script, Config};
use crate::tape::Tape;
use serde_json::{json, Value};
use std::collections::{BTreeMap, BTreeSet};

#[derive(Clone, Debug, Default)]
pub struct Two {
    pub ts: String,
    pub js: String,
}

impl Two {
    pub fn same(s: impl Into<String>) -> Two {
        let s = s.into();
        Two { ts: s.clone(), js: s }
    }
    pub fn new(ts: impl Into<String>, js: impl Into<String>) -> Two {
        Two { ts: ts.into(), js: js.into() }
    }
    pub fn push(&mut self, o: &Two) {
        self.ts.push_str(&o.ts);
        self.js.push_str(&o.js);
    }
    pub fn push_same(&mut self, s: &str) {
        self.ts.push_str(s);
        self.js.push_str(s);
    }
}

/// Template: `{}` = next part; text between `⟦` and `⟧` exists only in the TypeScript rendering;
/// text between `⟪` and `⟫` only in the JavaScript rendering.
pub fn t2(template: &str, parts: &[&Two]) -> Two {
    let mut out = Two::default();
    let mut it = template.chars().peekable();
    let mut k = 0usize;
    let mut mode = 0u8; // 0 both, 1 ts only, 2 js only
    while let Some(c) = it.next() {
        match c {
            '⟦' => mode = 1,
            '⟪' => mode = 2,
            '⟧' | '⟫' => mode = 0,
            '{' if it.peek() == Some(&'}') => {
                it.next();
                if let Some(p) = parts.get(k) {
                    if mode != 2 {
                        out.ts.push_str(&p.ts);
                    }
                    if mode != 1 {
                        out.js.push_str(&p.js);
                    }
                }
                k += 1;
            }
            c => {
                if mode != 2 {
                    out.ts.push(c);
                }
                if mode != 1 {
                    out.js.push(c);
                }
            }
        }
    }
    out
}

pub fn join2(items: &[Two], sep: &str) -> Two {
    let mut out = Two::default();
    for (i, x) in items.iter().enumerate() {
        if i > 0 {
            out.push_same(sep);
        }
        out.push(x);
    }
    out
}

/// JavaScript numeric literal for a finite double (Rust's shortest round-trip digits, no exponent)
pub fn jsnum(v: f64) -> String {
    if v == 0.0 && v.is_sign_negative() {
        return "-0".into();
    }
    format!("{}", v)
}

/// literal usable as an operand (negative numbers parenthesised)
pub fn jsnum_operand(v: f64) -> String {
    if v < 0.0 || (v == 0.0 && v.is_sign_negative()) {
        format!("({})", jsnum(v))
    } else {
        jsnum(v)
    }
}

pub fn is_ident(s: &str) -> bool {
    let mut cs = s.chars();
    match cs.next() {
        Some(c) if c.is_ascii_alphabetic() || c == '_' || c == '$' => {}
        _ => return false,
    }
    cs.all(|c| c.is_ascii_alphanumeric() || c == '_' || c == '$')
}

fn to_int32(x: f64) -> i32 {
    if !x.is_finite() {
        return 0;
    }
    let t = x.trunc();
    let m = t.rem_euclid(4294967296.0);
    if m >= 2147483648.0 {
        (m - 4294967296.0) as i32
    } else {
        m as i32
    }
}
fn to_uint32(x: f64) -> u32 {
    to_int32(x) as u32
}

// ───────────────────────────── enums ─────────────────────────────

#[derive(Clone, Debug)]
pub enum Val {
    Num(f64),
    Str(String),
    /// computed at run time (numeric); not known to the generator
    Dyn,
}

/// constant enum expression (tsc folds these)
#[derive(Clone, Debug)]
pub enum CE {
    Lit(String, f64),
    /// bare reference to an earlier member of the same block
    Ref(String, f64),
    /// qualified reference `E.X` / `E["a-b"]` (same or other enum); `inline` = the enum is a const enum
    QRef { en: String, member: String, v: f64, inline: bool },
    Un(char, Box<CE>),
    Bin(&'static str, Box<CE>, Box<CE>),
}

impl CE {
    pub fn eval(&self) -> f64 {
        match self {
            CE::Lit(_, v) | CE::Ref(_, v) | CE::QRef { v, .. } => *v,
            CE::Un(op, x) => {
                let v = x.eval();
                match op {
                    '-' => -v,
                    '+' => v,
                    _ => !to_int32(v) as f64,
                }
            }
            CE::Bin(op, a, b) => {
                let (x, y) = (a.eval(), b.eval());
                match *op {
                    "+" => x + y,
                    "-" => x - y,
                    "*" => x * y,
                    "/" => x / y,
                    "%" => x % y,
                    "**" => x.powi(y as i32),
                    "|" => (to_int32(x) | to_int32(y)) as f64,
                    "&" => (to_int32(x) & to_int32(y)) as f64,
                    "^" => (to_int32(x) ^ to_int32(y)) as f64,
                    "<<" => to_int32(x).wrapping_shl(to_uint32(y) & 31) as f64,
                    ">>" => to_int32(x).wrapping_shr(to_uint32(y) & 31) as f64,
                    _ => to_uint32(x).wrapping_shr(to_uint32(y) & 31) as f64,
                }
            }
        }
    }
    fn atom(&self) -> bool {
        matches!(self, CE::Lit(..) | CE::Ref(..) | CE::QRef { .. })
    }
    /// (ts, js): in the emit bare references become `E.X`; const-enum references are inlined
    pub fn render(&self, owner: &str) -> Two {
        match self {
            CE::Lit(t, _) => Two::same(t.clone()),
            CE::Ref(m, _) => Two::new(m.clone(), format!("{}.{}", owner, m)),
            CE::QRef { en, member, v, inline } => {
                let acc = if is_ident(member) { format!("{}.{}", en, member) } else { format!("{}[{:?}]", en, member) };
                if *inline {
                    Two::new(acc, jsnum_operand(*v))
                } else {
                    Two::same(acc)
                }
            }
            CE::Un(op, x) => {
                let r = x.render(owner);
                if matches!(**x, CE::Lit(..)) && *op != '-' || matches!(**x, CE::Ref(..)) {
                    t2(&format!("{}{{}}", op), &[&r])
                } else {
                    t2(&format!("{}({{}})", op), &[&r])
                }
            }
            CE::Bin(op, a, b) => {
                let (ra, rb) = (a.render(owner), b.render(owner));
                let pa = if a.atom() && *op != "**" { "{}" } else { "({})" };
                let pb = if b.atom() { "{}" } else { "({})" };
                t2(&format!("{} {} {}", pa, op, pb), &[&ra, &rb])
            }
        }
    }
}

#[derive(Clone, Debug)]
pub enum Init {
    Auto,
    /// numeric literal text, possibly negative
    Lit(String),
    Const(CE),
    /// non-constant numeric expression (ts, js)
    Computed(Two),
    Str(String),
    /// template literal without substitutions
    Tpl(String),
    /// reference to an earlier string member of the same block
    StrRef(String),
}

#[derive(Clone, Debug)]
pub struct Member {
    pub name: String,
    /// rendered as a string literal in the declaration
    pub quoted: bool,
    pub init: Init,
    pub val: Val,
}

#[derive(Clone, Debug)]
pub struct EnumModel {
    pub name: String,
    pub is_const: bool,
    pub blocks: Vec<Vec<Member>>,
}

impl EnumModel {
    pub fn members_upto(&self, nblocks: usize) -> Vec<&Member> {
        self.blocks.iter().take(nblocks).flat_map(|b| b.iter()).collect()
    }
    /// member access: TS form; for a const enum the JS form is the inlined constant
    pub fn access(&self, m: &Member, bracket: bool) -> Two {
        let ts = if !is_ident(&m.name) || bracket { format!("{}[{:?}]", self.name, m.name) } else { format!("{}.{}", self.name, m.name) };
        if self.is_const {
            let js = match &m.val {
                Val::Num(v) => jsnum_operand(*v),
                Val::Str(s) => format!("{:?}", s),
                Val::Dyn => "undefined".into(),
            };
            Two::new(ts, js)
        } else {
            Two::same(ts)
        }
    }
}

pub fn member_decl_ts(m: &Member, owner: &str) -> String {
    let name = if m.quoted || !is_ident(&m.name) { format!("{:?}", m.name) } else { m.name.clone() };
    match &m.init {
        Init::Auto => name,
        Init::Lit(t) => format!("{} = {}", name, t),
        Init::Const(ce) => format!("{} = {}", name, ce.render(owner).ts),
        Init::Computed(x) => format!("{} = {}", name, x.ts),
        Init::Str(s) => format!("{} = {:?}", name, s),
        Init::Tpl(s) => format!("{} = `{}`", name, s),
        Init::StrRef(r) => format!("{} = {}", name, r),
    }
}

pub fn member_emit_js(m: &Member, owner: &str) -> String {
    let key = format!("{:?}", m.name);
    let num = |rhs: String| format!("{o}[{o}[{k}] = {r}] = {k};", o = owner, k = key, r = rhs);
    match &m.init {
        Init::Auto => match &m.val {
            Val::Num(v) => num(jsnum(*v)),
            _ => num("undefined".into()),
        },
        Init::Lit(t) => num(t.clone()),
        Init::Const(ce) => num(ce.render(owner).js),
        Init::Computed(x) => num(x.js.clone()),
        Init::Str(s) => format!("{}[{}] = {:?};", owner, key, s),
        Init::Tpl(s) => format!("{}[{}] = `{}`;", owner, key, s),
        Init::StrRef(_) => match &m.val {
            Val::Str(s) => format!("{}[{}] = {:?};", owner, key, s),
            _ => format!("{}[{}] = undefined;", owner, key),
        },
    }
}

/// How the variable of an enum / namespace object is introduced in the emit
#[derive(Clone, Debug, PartialEq)]
pub enum Binder {
    /// `var E;` (top level, function level)
    Var,
    /// `let E;` (block level, nested in a namespace)
    Let,
    /// already declared in this scope (repeated block) or merged with a function/class
    None,
}

/// One `enum` block: (TypeScript declaration, emitted IIFE). `parent` = enclosing namespace parameter
/// name for an exported enum inside a namespace.
pub fn render_enum_block(e: &EnumModel, bi: usize, binder: Binder, exported_in: Option<&str>, ts_prefix: &str) -> Two {
    let block = &e.blocks[bi];
    let members: Vec<String> = block.iter().map(|m| member_decl_ts(m, &e.name)).collect();
    let ts = format!("{}{}enum {} {{ {} }}", ts_prefix, if e.is_const { "const " } else { "" }, e.name, members.join(", "));
    if e.is_const {
        return Two::new(ts, format!("/* const enum {} */", e.name));
    }
    let body: Vec<String> = block.iter().map(|m| member_emit_js(m, &e.name)).collect();
    let decl = match binder {
        Binder::Var => format!("var {};\n", e.name),
        Binder::Let => format!("let {};\n", e.name),
        Binder::None => String::new(),
    };
    let arg = match exported_in {
        Some(p) => format!("{n} = {p}.{n} || ({p}.{n} = {{}})", n = e.name, p = p),
        None => format!("{n} || ({n} = {{}})", n = e.name),
    };
    let js = format!("{}(function ({}) {{\n    {}\n}})({});", decl, e.name, body.join("\n    "), arg);
    Two::new(ts, js)
}

// ───────────────────────────── generator state ─────────────────────────────

pub struct G<'t, 'a, 'g> {
    pub tape: &'t mut Tape<'a>,
    pub gates: &'g Gates,
    pub tier: Tier,
    pub tags: BTreeSet<String>,
    pub counts: BTreeMap<String, u64>,
    pub excluded: BTreeMap<String, u64>,
    pub next: usize,
    pub tid: usize,
    /// regular (non-const) enums declared at top level so far: usable in constant expressions of later enums
    pub known_enums: Vec<EnumModel>,
    /// names of top-level namespaces whose blocks were all generated (a nested namespace may reuse one)
    pub top_ns_names: Vec<String>,
    /// (access path of the nested namespace, outer name) pairs to observe
    pub ns_shadows: Vec<(String, String)>,
    /// non-exported enums declared in namespace blocks: (name, namespace, block) - a sibling block may reuse the name
    pub ns_local_enums: Vec<(String, String, usize)>,
    pub big_decl: bool,
    pub did_reverse: bool,
    pub did_enumerate: bool,
    pub did_merge: bool,
}

const NUM_POOL: [(&str, f64); 22] = [
    ("0", 0.0),
    ("1", 1.0),
    ("2", 2.0),
    ("3", 3.0),
    ("5", 5.0),
    ("7", 7.0),
    ("10", 10.0),
    ("100", 100.0),
    ("255", 255.0),
    ("0x10", 16.0),
    ("0.5", 0.5),
    ("2.5", 2.5),
    ("0.1", 0.1),
    ("1e3", 1000.0),
    ("1e21", 1e21),
    ("1e-7", 1e-7),
    ("2147483647", 2147483647.0),
    ("2147483648", 2147483648.0),
    ("4294967295", 4294967295.0),
    ("4294967296", 4294967296.0),
    ("9007199254740991", 9007199254740991.0),
    ("12", 12.0),
];

const MEMBER_NAMES: [&str; 26] = [
    "A", "B", "C", "D", "Up", "Down", "Red", "Green", "Blue", "On", "Off", "None", "All", "X1", "_p", "$q", "Low", "High", "Read", "Write", "a-b", "x y", "Q", "toString", "length",
    "name",
];

impl<'t, 'a, 'g> G<'t, 'a, 'g> {
    pub fn tag(&mut self, t: &str) {
        self.tags.insert(t.to_string());
        *self.counts.entry(t.to_string()).or_insert(0) += 1;
    }
    /// true when an open finding excludes this production (counted)
    pub fn gated(&mut self, gate: &str) -> bool {
        if self.gates.excluded(gate) {
            *self.excluded.entry(gate.to_string()).or_insert(0) += 1;
            true
        } else {
            false
        }
    }
    pub fn fresh(&mut self, p: &str) -> String {
        let n = self.next;
        self.next += 1;
        format!("{}{}", p, n)
    }
    pub fn trace(&mut self, e: &Two) -> Two {
        self.tid += 1;
        t2(&format!("__t({}, {{}});", self.tid), &[e])
    }

    fn num_lit(&mut self) -> (String, f64) {
        // small values first (simple), specials later
        let i = if self.tape.chance(3, 4) { self.tape.below(10) } else { self.tape.below(NUM_POOL.len()) };
        let (t, v) = NUM_POOL[i.min(NUM_POOL.len() - 1)];
        (t.to_string(), v)
    }

    /// constant numeric expression over literals, earlier members (bare / qualified) and other enums
    fn const_expr(&mut self, owner: &str, same_block: &[(String, f64)], earlier: &[(String, f64)], depth: usize) -> CE {
        let leaf = depth == 0 || self.tape.chance(2, 5);
        if leaf {
            let mut opts = vec![0u32; 4];
            opts[0] = 3;
            opts[1] = if same_block.iter().any(|(n, _)| is_ident(n)) { 6 } else { 0 };
            opts[2] = if earlier.is_empty() { 0 } else { 3 };
            opts[3] = if self.known_enums.is_empty() { 0 } else { 2 };
            match self.tape.weighted(&opts) {
                1 => {
                    let c: Vec<&(String, f64)> = same_block.iter().filter(|(n, _)| is_ident(n)).collect();
                    let (n, v) = c[self.tape.below(c.len())].clone();
                    self.tag("enum-init:ref-bare");
                    CE::Ref(n, v)
                }
                2 => {
                    let (n, v) = earlier[self.tape.below(earlier.len())].clone();
                    self.tag("enum-init:ref-qualified");
                    CE::QRef { en: owner.to_string(), member: n, v, inline: false }
                }
                3 => {
                    let k = self.tape.below(self.known_enums.len());
                    let other = self.known_enums[k].clone();
                    let nums: Vec<(String, f64)> = other
                        .blocks
                        .iter()
                        .flatten()
                        .filter_map(|m| match (&m.val, &m.init) {
                            (Val::Num(v), Init::Auto | Init::Lit(_) | Init::Const(_)) if v.is_finite() => Some((m.name.clone(), *v)),
                            _ => None,
                        })
                        .collect();
                    if nums.is_empty() || other.name == owner {
                        let (t, v) = self.num_lit();
                        CE::Lit(t, v)
                    } else {
                        let (n, v) = nums[self.tape.below(nums.len())].clone();
                        self.tag(if other.is_const { "enum-init:ref-const-enum" } else { "enum-init:ref-other-enum" });
                        CE::QRef { en: other.name.clone(), member: n, v, inline: other.is_const }
                    }
                }
                _ => {
                    let (t, v) = self.num_lit();
                    CE::Lit(t, v)
                }
            }
        } else if self.tape.chance(1, 5) {
            let op = *self.tape.pick(&['-', '~', '+']);
            let x = self.const_expr(owner, same_block, earlier, depth - 1);
            CE::Un(op, Box::new(x))
        } else {
            let op = *self.tape.pick(&["+", "*", "|", "<<", "-", "&", "^", ">>", ">>>", "%", "/", "**"]);
            let a = self.const_expr(owner, same_block, earlier, depth - 1);
            let mut b = self.const_expr(owner, same_block, earlier, depth - 1);
            if op == "**" {
                let e = self.tape.range(0, 3) as f64;
                b = CE::Lit(jsnum(e), e);
                let av = a.eval();
                if av.fract() != 0.0 || av.abs() > 1000.0 {
                    return CE::Bin("*", Box::new(a), Box::new(b));
                }
            }
            let e = CE::Bin(op, Box::new(a.clone()), Box::new(b));
            let v = e.eval();
            if !v.is_finite() || v.abs() > 1e300 {
                // division by zero / NaN: outside the domain (tsc prints NaN/Infinity identifiers)
                return a;
            }
            e
        }
    }

    /// non-constant numeric initialiser (ts, js); may refer to earlier members by bare name
    fn computed_expr(&mut self, owner: &str, same_block: &[(String, f64)]) -> Two {
        let base: &[&str] = &["\"x\".length", "\"abc\".indexOf(\"c\")", "Math.floor(2.5)", "__n(7)", "[1, 2, 3].length", "Number(\"12\")", "parseInt(\"8\", 10)", "Math.max(1, 4)", "\"a,b\".split(\",\").length"];
        let b = Two::same(*self.tape.pick(base));
        let refs: Vec<&(String, f64)> = same_block.iter().filter(|(n, _)| is_ident(n)).collect();
        if !refs.is_empty() && self.tape.chance(1, 2) {
            let (n, _) = refs[self.tape.below(refs.len())].clone();
            let r = Two::new(n.clone(), format!("{}.{}", owner, n));
            match self.tape.below(4) {
                0 => {
                    self.tag("enum-init:computed-with-ref");
                    t2("{} + {}", &[&b, &r])
                }
                1 => {
                    self.tag("enum-init:computed-ref-in-call");
                    t2("Math.max({}, {})", &[&r, &b])
                }
                2 => {
                    self.tag("enum-init:computed-ref-in-call");
                    t2("__n({} * 2)", &[&r])
                }
                _ => {
                    self.tag("enum-init:computed-ref-in-conditional");
                    t2("({} > 1 ? {} : 3)", &[&r, &b])
                }
            }
        } else {
            b
        }
    }

    /// Build an enum with `nblocks` declaration blocks
    pub fn gen_enum(&mut self, name: &str, is_const: bool, nblocks: usize, max_members: usize) -> EnumModel {
        let mut e = EnumModel { name: name.to_string(), is_const, blocks: vec![] };
        let mut used: BTreeSet<String> = BTreeSet::new();
        // numeric members of earlier blocks: (name, value)
        let mut earlier: Vec<(String, f64)> = vec![];
        // TS2553: computed (non-constant) members are not permitted in an enum with string members
        let (allow_computed, allow_strings) = match self.tape.below(3) {
            0 => (false, false),
            1 => (true, false),
            _ => (false, true),
        };
        for bi in 0..nblocks {
            let n = self.tape.range(1, max_members as i64) as usize;
            let mut block: Vec<Member> = vec![];
            let mut same: Vec<(String, f64)> = vec![];
            let mut strs: Vec<(String, String)> = vec![];
            // value of the previous member when it is a numeric constant (auto-numbering allowed)
            let mut prev: Option<f64> = if bi == 0 { Some(-1.0) } else { None };
            for mi in 0..n {
                let mut name = String::new();
                for _ in 0..8 {
                    let special = self.tape.chance(1, 8);
                    let i = if special { 20 + self.tape.below(MEMBER_NAMES.len() - 20) } else { self.tape.below(20) };
                    let c = MEMBER_NAMES[i.min(MEMBER_NAMES.len() - 1)];
                    if !used.contains(c) {
                        name = c.to_string();
                        break;
                    }
                }
                if name.is_empty() {
                    name = format!("M{}", used.len());
                }
                used.insert(name.clone());
                let ident = is_ident(&name);
                let quoted = !ident || (name == "Q");
                if !ident {
                    if self.gated("enum-quoted-member-name") {
                        name = format!("M{}", used.len());
                    } else {
                        self.tag("enum-member:non-identifier-name");
                    }
                }
                let quoted = quoted && !is_ident(&name) || name == "Q";
                // kind weights: auto, literal, negative literal, constant expr, computed, string, template, string ref, duplicate
                let can_auto = prev.is_some() && !(bi > 0 && mi == 0);
                let w = [
                    if can_auto { 8 } else { 0 },
                    5,
                    2,
                    5,
                    if is_const || !allow_computed { 0 } else { 4 },
                    if allow_strings { 3 } else { 0 },
                    if allow_strings { 1 } else { 0 },
                    if allow_strings && strs.iter().any(|(n, _)| is_ident(n)) { 1 } else { 0 },
                    if same.is_empty() && earlier.is_empty() { 0 } else { 2 },
                ];
                let (init, val) = match self.tape.weighted(&w) {
                    0 => {
                        self.tag("enum-member:auto");
                        (Init::Auto, Val::Num(prev.unwrap_or(-1.0) + 1.0))
                    }
                    1 => {
                        let (t, v) = self.num_lit();
                        self.tag(if v.fract() != 0.0 {
                            "enum-member:literal-fractional"
                        } else if v > 2147483647.0 {
                            "enum-member:literal-large"
                        } else {
                            "enum-member:literal"
                        });
                        (Init::Lit(t), Val::Num(v))
                    }
                    2 => {
                        let (t, v) = self.num_lit();
                        self.tag("enum-member:literal-negative");
                        (Init::Lit(format!("-{}", t)), Val::Num(-v))
                    }
                    3 => {
                        let ce = self.const_expr(&e.name, &same, &earlier, 2);
                        let v = ce.eval();
                        self.tag("enum-member:constant-expression");
                        (Init::Const(ce), Val::Num(v))
                    }
                    4 => {
                        self.tag("enum-member:computed");
                        (Init::Computed(self.computed_expr(&name_owner(&e.name), &same)), Val::Dyn)
                    }
                    5 => {
                        let s = self.tape.pick(&["s", "up", "", "a b", "0", "Red", "x-y"]).to_string();
                        self.tag("enum-member:string");
                        (Init::Str(s.clone()), Val::Str(s))
                    }
                    6 => {
                        let s = self.tape.pick(&["t", "tpl", "k1"]).to_string();
                        self.tag("enum-member:template-string");
                        (Init::Tpl(s.clone()), Val::Str(s))
                    }
                    7 => {
                        let c: Vec<&(String, String)> = strs.iter().filter(|(n, _)| is_ident(n)).collect();
                        let (n, s) = c[self.tape.below(c.len())].clone();
                        self.tag("enum-member:string-ref");
                        (Init::StrRef(n), Val::Str(s))
                    }
                    _ => {
                        // duplicate value of an earlier member (last writer wins in the reverse map)
                        let all: Vec<&(String, f64)> = same.iter().chain(earlier.iter()).collect();
                        let (_, v) = all[self.tape.below(all.len())].clone();
                        self.tag("enum-member:duplicate-value");
                        let t = if v < 0.0 { format!("-{}", jsnum(-v)) } else { jsnum(v) };
                        (Init::Lit(t), Val::Num(v))
                    }
                };
                match &val {
                    Val::Num(v) => {
                        prev = Some(*v);
                        same.push((name.clone(), *v));
                    }
                    Val::Str(s) => {
                        prev = None;
                        strs.push((name.clone(), s.clone()));
                    }
                    Val::Dyn => prev = None,
                }
                block.push(Member { name, quoted, init, val });
            }
            earlier.extend(same);
            e.blocks.push(block);
        }
        let total: usize = e.blocks.iter().map(|b| b.len()).sum();
        if total >= 3 {
            self.big_decl = true;
        }
        if nblocks > 1 {
            self.tag("enum:merged-blocks");
        }
        if is_const {
            self.tag("enum:const");
        }
        e
    }
}

fn name_owner(n: &str) -> String {
    n.to_string()
}

// ───────────────────────────── uses of enum objects ─────────────────────────────

impl<'t, 'a, 'g> G<'t, 'a, 'g> {
    fn pick_member<'m>(&mut self, ms: &[&'m Member]) -> &'m Member {
        ms[self.tape.below(ms.len())]
    }

    /// reverse-lookup key for a numeric value, as an expression (ts, js)
    fn reverse_key(&mut self, e: &EnumModel, v: f64) -> Two {
        let lit = if v < 0.0 || (v == 0.0 && v.is_sign_negative()) { jsnum(v) } else { jsnum(v) };
        if self.tape.chance(1, 4) {
            // string spelling of the key: needs `as any` in TypeScript
            let key = if v == 0.0 { "0".to_string() } else { js_key_string(v) };
            Two::new(format!("({} as any)[{:?}]", e.name, key), format!("{}[{:?}]", e.name, key))
        } else {
            Two::same(format!("{}[{}]", e.name, lit))
        }
    }

    /// one read-only observation of a regular enum object
    pub fn enum_read_use(&mut self, e: &EnumModel, nblocks: usize) -> Two {
        let ms = e.members_upto(nblocks);
        let en = e.name.clone();
        let any = Two::new(format!("({} as any)", en), en.clone());
        let w = [6, 6, 5, 5, 3, 3, 3, 4, 3, 2, 3, 3, 2, 3, 3, 3, 3, 2, 2, 3, 3];
        let k = self.tape.weighted(&w);
        let expr = match k {
            0 => {
                self.tag("use:forward-lookup");
                let n = self.tape.range(1, 4) as usize;
                let xs: Vec<Two> = (0..n)
                    .map(|_| {
                        let m = self.pick_member(&ms);
                        let br = self.tape.chance(1, 3);
                        e.access(m, br)
                    })
                    .collect();
                t2("[{}]", &[&join2(&xs, ", ")])
            }
            1 => {
                // reverse lookup by literal value
                let nums: Vec<f64> = ms.iter().filter_map(|m| if let Val::Num(v) = m.val { Some(v) } else { None }).collect();
                if nums.is_empty() {
                    Two::same(format!("Object.keys({})", en))
                } else {
                    self.tag("use:reverse-lookup-literal");
                    self.did_reverse = true;
                    let n = self.tape.range(1, 3) as usize;
                    let xs: Vec<Two> = (0..n)
                        .map(|_| {
                            let v = nums[self.tape.below(nums.len())];
                            self.reverse_key(e, v)
                        })
                        .collect();
                    t2("[{}]", &[&join2(&xs, ", ")])
                }
            }
            2 => {
                self.tag("use:reverse-lookup-by-member");
                self.did_reverse = true;
                let m = self.pick_member(&ms);
                let a = e.access(m, false);
                match m.val {
                    Val::Str(_) => t2("{}[{}⟦ as any⟧]", &[&any, &a]),
                    _ => t2(&format!("{}[{{}}]", en), &[&a]),
                }
            }
            3 => {
                self.tag("use:Object.keys");
                self.did_enumerate = true;
                Two::same(format!("Object.keys({})", en))
            }
            4 => {
                self.tag("use:Object.values");
                self.did_enumerate = true;
                Two::same(format!("Object.values({})", en))
            }
            5 => {
                self.tag("use:Object.entries");
                self.did_enumerate = true;
                Two::same(format!("Object.entries({})", en))
            }
            6 => {
                self.tag("use:getOwnPropertyNames");
                self.did_enumerate = true;
                Two::same(format!("Object.getOwnPropertyNames({})", en))
            }
            7 => {
                self.tag("use:for-in");
                self.did_enumerate = true;
                Two::same(format!("__keys({})", en))
            }
            8 => {
                if self.gated("json-stringify-key-order") {
                    self.tag("use:JSON.stringify-keys");
                    Two::same(format!("JSON.stringify(Object.keys({}))", en))
                } else {
                    self.tag("use:JSON.stringify");
                    self.did_enumerate = true;
                    Two::same(format!("JSON.stringify({})", en))
                }
            }
            9 => {
                self.tag("use:typeof-instanceof");
                Two::same(format!("[typeof {0}, {0} instanceof Object, Array.isArray({0}), Object.getPrototypeOf({0}) === Object.prototype, Object.isFrozen({0}), Object.isExtensible({0})]", en))
            }
            10 => {
                self.tag("use:in-hasOwnProperty");
                let m = self.pick_member(&ms);
                let probe = match m.val {
                    Val::Num(v) => jsnum_operand(v),
                    _ => "0".into(),
                };
                Two::same(format!(
                    "[{n:?} in {e}, {p} in {e}, \"nope\" in {e}, {e}.hasOwnProperty({n:?}), Object.prototype.hasOwnProperty.call({e}, {p}), 99 in {e}]",
                    n = m.name,
                    e = en,
                    p = probe
                ))
            }
            11 => {
                self.tag("use:spread-assign");
                self.did_enumerate = true;
                if self.tape.chance(1, 2) {
                    Two::same(format!("{{ ...{} }}", en))
                } else {
                    Two::same(format!("Object.assign({{}}, {})", en))
                }
            }
            12 => {
                self.tag("use:descriptor");
                let m = self.pick_member(&ms);
                match m.val {
                    Val::Num(v) if self.tape.chance(1, 2) => Two::same(format!("Object.getOwnPropertyDescriptor({}, {})", en, jsnum_operand(v))),
                    _ => Two::same(format!("Object.getOwnPropertyDescriptor({}, {:?})", en, m.name)),
                }
            }
            13 => {
                self.tag("use:compare-identity");
                let a = self.pick_member(&ms);
                let b = self.pick_member(&ms);
                let (xa, xb) = (e.access(a, false), e.access(b, false));
                let lit = match &a.val {
                    Val::Num(v) => jsnum_operand(*v),
                    Val::Str(s) => format!("{:?}", s),
                    Val::Dyn => "1".into(),
                };
                let others: Vec<EnumModel> = self.known_enums.iter().filter(|o| !o.is_const && o.name != en).cloned().collect();
                let cross = if others.is_empty() {
                    Two::same("0")
                } else {
                    let o = others[self.tape.below(others.len())].clone();
                    let oms = o.members_upto(o.blocks.len());
                    let om = oms[self.tape.below(oms.len())];
                    self.tag("use:compare-across-enums");
                    t2("({} as any) === {}", &[&xa, &o.access(om, false)])
                };
                t2(&format!("[({{}} as any) === {{}}, ({{}} as any) === {}, {{}} < {{}}, {} === {}, {{}}]", lit, en, en), &[&xa, &xb, &xa, &xa, &xb, &cross]).fix_as_any()
            }
            14 => {
                self.tag("use:pass-to-function");
                self.did_enumerate = true;
                let m = self.pick_member(&ms);
                let acc = if is_ident(&m.name) { format!("e.{}", m.name) } else { format!("e[{:?}]", m.name) };
                Two::new(
                    format!("((e: typeof {}) => [{}, Object.keys(e).length, e === {}])({})", en, acc, en, en),
                    format!("((e) => [{}, Object.keys(e).length, e === {}])({})", acc, en, en),
                )
            }
            15 => {
                self.tag("use:idiom-filter-names");
                self.did_enumerate = true;
                match self.tape.below(3) {
                    0 => Two::same(format!("Object.keys({}).filter((k) => isNaN(Number(k)))", en)),
                    1 => Two::same(format!("Object.values({}).filter((v) => typeof v === \"number\")", en)),
                    _ => Two::same(format!("Object.keys({}).length", en)),
                }
            }
            16 => {
                self.tag("use:arithmetic-template");
                let m = self.pick_member(&ms);
                let a = e.access(m, false);
                t2("[`${{}}`, ({} as any) + 1, String({}), typeof {}]", &[&a, &a, &a, &a]).fix_template()
            }
            17 => {
                self.tag("use:switch");
                let a = self.pick_member(&ms);
                let b = self.pick_member(&ms);
                let (xa, xb) = (e.access(a, false), e.access(b, false));
                if a.name == b.name {
                    t2("(() => { switch ({} as any) { case {}: return \"first\"; default: return \"other\"; } })()", &[&xa, &xa]).fix_as_any()
                } else {
                    t2("(() => { switch ({} as any) { case {}: return \"first\"; case {}: return \"second\"; default: return \"other\"; } })()", &[&xb, &xa, &xb]).fix_as_any()
                }
            }
            18 => {
                self.tag("use:typed-variable");
                let m = self.pick_member(&ms);
                let a = e.access(m, false);
                let v = self.fresh("ev");
                Two::new(
                    format!("(() => {{ let {v}: {en} = {a}; const ks: Array<keyof typeof {en}> = []; return [{v} === {a}, {v}, ks.length]; }})()", v = v, en = en, a = a.ts),
                    format!("(() => {{ let {v} = {a}; const ks = []; return [{v} === {a}, {v}, ks.length]; }})()", v = v, a = a.js),
                )
            }
            19 => {
                self.tag("use:missing-lookup");
                self.did_reverse = true;
                t2("[{}[99], {}[-77], {}.nope, {}[\"1.50\"]]", &[&any, &any, &any, &any])
            }
            _ => {
                self.tag("use:show-whole-object");
                self.did_enumerate = true;
                Two::same(en.clone())
            }
        };
        self.trace(&expr)
    }

    /// uses of a const enum: member access only (inlined constants in the emit)
    pub fn const_enum_use(&mut self, e: &EnumModel, nblocks: usize) -> Two {
        let ms = e.members_upto(nblocks);
        let a = {
            let m = self.pick_member(&ms);
            let br = self.tape.chance(1, 3);
            e.access(m, br)
        };
        let b = {
            let m = self.pick_member(&ms);
            e.access(m, false)
        };
        self.tag("use:const-enum-access");
        let expr = match self.tape.below(7) {
            0 => t2("[{}, {}]", &[&a, &b]),
            1 => t2("({ [{}]: \"k\", v: {} })", &[&a, &b]),
            2 => t2("((d = {}) => d)()", &[&a]),
            3 => t2("(() => { switch ({} as any) { case {}: return \"hit\"; default: return \"miss\"; } })()", &[&b, &a]).fix_as_any(),
            4 => t2("[({} as any) === {}, typeof {}]", &[&a, &b, &a]).fix_as_any(),
            5 => t2("[{}].concat([{}]).length + String({}).length", &[&a, &b, &a]),
            _ => t2("[`${{}}|${{}}`]", &[&a, &b]).fix_template(),
        };
        self.trace(&expr)
    }

    /// mutation of an enum / namespace object through `as any`, followed by an observation
    pub fn object_mutation(&mut self, obj: &str, member_names: &[String], num_values: &[f64]) -> Vec<Two> {
        let any = Two::new(format!("({} as any)", obj), obj.to_string());
        let mut out = vec![];
        let k = self.tape.below(8);
        let name = if member_names.is_empty() { "A".to_string() } else { member_names[self.tape.below(member_names.len())].clone() };
        let acc = if is_ident(&name) { format!(".{}", name) } else { format!("[{:?}]", name) };
        match k {
            0 => {
                self.tag("mutate:add-string-key");
                out.push(t2("{}.Z9 = 7;", &[&any]));
            }
            1 => {
                self.tag("mutate:add-integer-key");
                let i = self.tape.pick(&[7, 0, 3, 1000, 42]).to_string();
                out.push(t2(&format!("{{}}[{}] = \"Z9\";", i), &[&any]));
            }
            2 => {
                self.tag("mutate:overwrite-member");
                out.push(t2(&format!("{{}}{} = 42;", acc), &[&any]));
            }
            3 if name != "toString" => {
                // (deleting a member called toString would uncover Object.prototype.toString: printing a
                // native function is not portable)
                self.tag("mutate:delete-member");
                out.push(t2(&format!("delete {{}}{};", acc), &[&any]));
            }
            4 => {
                self.tag("mutate:delete-reverse-entry");
                let v = if num_values.is_empty() { 0.0 } else { num_values[self.tape.below(num_values.len())] };
                out.push(t2(&format!("delete {{}}[{}];", jsnum_operand(v)), &[&any]));
            }
            5 => {
                self.tag("mutate:defineProperty-hidden");
                out.push(Two::same(format!("Object.defineProperty({}, \"H9\", {{ value: 1, enumerable: false }});", obj)));
                out.push(self.trace(&t2(&format!("[{{}}.H9, Object.getOwnPropertyNames({}).length - Object.keys({}).length]", obj, obj), &[&any])));
            }
            6 => {
                self.tag("mutate:freeze-then-write");
                let r = self.fresh("fr");
                out.push(Two::same(format!("Object.freeze({});", obj)));
                out.push(t2(&format!("let {r} = \"none\"; try {{ {{}}.Q9 = 1; }} catch (e) {{ {r} = (e⟦ as any⟧).name; }}", r = r), &[&any]));
                out.push(self.trace(&t2(&format!("[{}, Object.isFrozen({}), {{}}.Q9]", r, obj), &[&any])));
            }
            _ => {
                self.tag("mutate:Object.assign-into");
                out.push(t2("Object.assign({}, { q9: 1, 5: \"five\" });", &[&any]));
            }
        }
        self.did_enumerate = true;
        out.push(self.trace(&t2(&format!("[Object.keys({o}), {{}}{a}, {{}}[0], {{}}.Z9]", o = obj, a = acc), &[&any, &any, &any])));
        out
    }
}

/// ToString(number) for property keys (only the shapes the pool produces)
pub fn js_key_string(v: f64) -> String {
    if v == 1e21 {
        "1e+21".into()
    } else if v == -1e21 {
        "-1e+21".into()
    } else if v == 1e-7 {
        "1e-7".into()
    } else if v == -1e-7 {
        "-1e-7".into()
    } else {
        format!("{}", v)
    }
}

impl Two {
    /// `(X as any)` written in a shared template: drop the assertion in the JavaScript rendering
    fn fix_as_any(mut self) -> Two {
        self.js = self.js.replace(" as any)", ")");
        self
    }
    /// templates were written with `${{}}`: t2 leaves `${` + part + `}` intact; nothing to do
    fn fix_template(self) -> Two {
        self.fix_as_any()
    }
}

// ───────────────────────────── classes with parameter properties ─────────────────────────────

#[derive(Clone, Debug)]
pub struct Param {
    /// "" = plain parameter; otherwise the modifier text
    pub modifier: &'static str,
    pub name: String,
    pub ty: &'static str,
    pub default: Option<String>,
    pub optional: bool,
    pub rest: bool,
}

#[derive(Clone, Debug)]
pub struct ClassModel {
    pub name: String,
    pub is_abstract: bool,
    pub base: Option<String>,
    pub params: Vec<Param>,
    /// None = no explicit constructor
    pub has_ctor: bool,
    pub pre_super: Option<String>,
    pub super_args: Vec<String>,
    /// constructor body statements after the (implicit) property assignments (ts, js)
    pub body: Vec<Two>,
    /// methods / accessors / static members (ts, js)
    pub members: Vec<Two>,
    /// abstract member declarations (TypeScript only)
    pub abstract_members: Vec<String>,
    pub implements: Option<String>,
    /// names of abstract methods this class must implement (inherited)
    pub ctor_arity: usize,
}

const MODIFIERS: [&str; 7] = ["public", "private", "protected", "readonly", "public readonly", "private readonly", "protected readonly"];

pub fn render_class(c: &ClassModel) -> Two {
    let mut ts = String::new();
    let mut js = String::new();
    if c.is_abstract {
        ts.push_str("abstract ");
    }
    ts.push_str(&format!("class {}", c.name));
    js.push_str(&format!("class {}", c.name));
    if let Some(b) = &c.base {
        ts.push_str(&format!(" extends {}", b));
        js.push_str(&format!(" extends {}", b));
    }
    if let Some(i) = &c.implements {
        ts.push_str(&format!(" implements {}", i));
    }
    ts.push_str(" {\n");
    js.push_str(" {\n");
    for a in &c.abstract_members {
        ts.push_str(&format!("  {}\n", a));
    }
    if c.has_ctor {
        let tsp: Vec<String> = c
            .params
            .iter()
            .map(|p| {
                let mut s = String::new();
                if !p.modifier.is_empty() {
                    s.push_str(p.modifier);
                    s.push(' ');
                }
                if p.rest {
                    s.push_str("...");
                }
                s.push_str(&p.name);
                if p.optional {
                    s.push('?');
                }
                s.push_str(": ");
                s.push_str(p.ty);
                if p.rest {
                    s.push_str("[]");
                }
                if let Some(d) = &p.default {
                    s.push_str(" = ");
                    s.push_str(d);
                }
                s
            })
            .collect();
        let jsp: Vec<String> = c
            .params
            .iter()
            .map(|p| {
                let mut s = String::new();
                if p.rest {
                    s.push_str("...");
                }
                s.push_str(&p.name);
                if let Some(d) = &p.default {
                    s.push_str(" = ");
                    s.push_str(d);
                }
                s
            })
            .collect();
        ts.push_str(&format!("  constructor({}) {{\n", tsp.join(", ")));
        js.push_str(&format!("  constructor({}) {{\n", jsp.join(", ")));
        if c.base.is_some() {
            if let Some(p) = &c.pre_super {
                ts.push_str(&format!("    {}\n", p));
                js.push_str(&format!("    {}\n", p));
            }
            let call = format!("    super({});\n", c.super_args.join(", "));
            ts.push_str(&call);
            js.push_str(&call);
        }
        // the emit: parameter properties are assigned right after super(...) / first in a base class
        for p in c.params.iter().filter(|p| !p.modifier.is_empty()) {
            js.push_str(&format!("    this.{0} = {0};\n", p.name));
        }
        for b in &c.body {
            ts.push_str(&format!("    {}\n", b.ts));
            js.push_str(&format!("    {}\n", b.js));
        }
        ts.push_str("  }\n");
        js.push_str("  }\n");
    }
    for m in &c.members {
        ts.push_str(&format!("  {}\n", m.ts));
        js.push_str(&format!("  {}\n", m.js));
    }
    ts.push('}');
    js.push('}');
    Two::new(ts, js)
}

impl<'t, 'a, 'g> G<'t, 'a, 'g> {
    fn gen_params(&mut self, min_props: usize) -> Vec<Param> {
        let n = self.tape.range(min_props.max(1) as i64, 5) as usize;
        let mut ps: Vec<Param> = vec![];
        let mut seen_default = false;
        for i in 0..n {
            let name = self.fresh("p");
            let is_prop = i < min_props || self.tape.chance(3, 4);
            let modifier = if is_prop { *self.tape.pick(&MODIFIERS) } else { "" };
            let ty = if self.tape.chance(1, 4) { "string" } else { "number" };
            let mut default = None;
            let mut optional = false;
            match self.tape.below(if seen_default { 3 } else { 6 }) {
                0 | 1 if seen_default || self.tape.chance(1, 2) => {
                    seen_default = true;
                    let d = if ty == "string" {
                        "\"d\"".to_string()
                    } else if !ps.is_empty() && self.tape.chance(1, 3) && ps[0].ty == "number" && !ps[0].rest {
                        format!("{} + 1", ps[0].name)
                    } else {
                        self.tape.range(0, 9).to_string()
                    };
                    default = Some(d);
                    self.tag("class-param:default");
                }
                2 if seen_default => {
                    optional = true;
                    self.tag("class-param:optional");
                }
                _ => {
                    if seen_default {
                        optional = true;
                    }
                }
            }
            if is_prop {
                self.tag(&format!("class-param:{}", modifier.replace(' ', "-")));
            } else {
                self.tag("class-param:plain");
            }
            ps.push(Param { modifier, name, ty, default, optional, rest: false });
        }
        if self.tape.chance(1, 5) {
            let name = self.fresh("rest");
            self.tag("class-param:rest");
            ps.push(Param { modifier: "", name, ty: "number", default: None, optional: false, rest: true });
        }
        ps
    }

    /// constructor body statements that observe / depend on the parameter properties
    fn gen_ctor_body(&mut self, ps: &[Param]) -> Vec<Two> {
        let mut out = vec![];
        let props: Vec<&Param> = ps.iter().filter(|p| !p.modifier.is_empty()).collect();
        let n = self.tape.below(4);
        for _ in 0..n {
            let k = self.tape.below(6);
            match k {
                0 if !props.is_empty() => {
                    // the property is already assigned when the body runs
                    let p = props[self.tape.below(props.len())];
                    let f = self.fresh("z");
                    self.tag("class-body:reads-property");
                    out.push(t2(&format!("(this⟦ as any⟧).{} = [this.{}, Object.keys(this).length];", f, p.name), &[]));
                }
                1 if !props.is_empty() => {
                    let p = props[self.tape.below(props.len())];
                    self.tag("class-body:trace-keys");
                    self.tid += 1;
                    out.push(Two::same(format!("__t({}, [Object.keys(this), this.{}]);", self.tid, p.name)));
                }
                2 => {
                    // reassigning the parameter does not change the property
                    let p = &ps[self.tape.below(ps.len())];
                    if !p.rest {
                        self.tag("class-body:reassign-parameter");
                        out.push(t2(&format!("{} = ({{}}⟦ as any⟧);", p.name), &[&Two::same(if p.ty == "string" { "\"re\"" } else { "100" })]));
                    }
                }
                3 if !props.is_empty() => {
                    let p = props[self.tape.below(props.len())];
                    if p.ty == "number" && p.default.is_some() {
                        self.tag("class-body:update-property");
                        out.push(Two::same(format!("this.{0} = this.{0} + 1;", p.name)));
                    }
                }
                4 => {
                    let f = self.fresh("w");
                    self.tag("class-body:extra-property");
                    out.push(t2(&format!("(this⟦ as any⟧).{} = {};", f, ps.len()), &[]));
                }
                _ => {}
            }
        }
        out
    }

    fn gen_methods(&mut self, ps: &[Param], implement: &[String]) -> Vec<Two> {
        let mut out = vec![];
        let props: Vec<&Param> = ps.iter().filter(|p| !p.modifier.is_empty()).collect();
        let first = props.first().map(|p| format!("this.{}", p.name)).unwrap_or_else(|| "0".to_string());
        for a in implement {
            out.push(t2(&format!("{}()⟦: any⟧ {{ return [{:?}, {}]; }}", a, a, first), &[]));
        }
        if self.tape.chance(1, 2) {
            let m = self.fresh("m");
            let modi = *self.tape.pick(&["", "public ", "private ", "protected "]);
            out.push(t2(&format!("⟦{}⟧{}()⟦: any⟧ {{ return [{}, Object.keys(this).length]; }}", modi, m, first), &[]));
            self.tag("class-member:method");
        }
        if self.tape.chance(1, 4) {
            let g = self.fresh("g");
            out.push(t2(&format!("get {}()⟦: any⟧ {{ return {}; }}", g, first), &[]));
            self.tag("class-member:getter");
        }
        if self.tape.chance(1, 4) {
            let s = self.fresh("s");
            out.push(t2(&format!("static {}⟦: number⟧ = {};", s, self.tape.range(0, 9)), &[]));
            self.tag("class-member:static-field");
        }
        out
    }

    fn ctor_args(&mut self, c: &ClassModel) -> String {
        let mut args: Vec<String> = vec![];
        let n = c.params.len();
        let mut upto = n;
        // drop a tail of optional/default/rest parameters sometimes
        while upto > 0 && (c.params[upto - 1].optional || c.params[upto - 1].default.is_some() || c.params[upto - 1].rest) && self.tape.chance(1, 2) {
            upto -= 1;
        }
        for p in c.params.iter().take(upto) {
            if p.rest {
                let k = self.tape.below(3);
                for _ in 0..k {
                    args.push(self.tape.range(0, 9).to_string());
                }
            } else if (p.default.is_some() || p.optional) && self.tape.chance(1, 3) {
                args.push("undefined".into());
            } else if p.ty == "string" {
                args.push(format!("{:?}", self.tape.pick(&["s", "t", ""])));
            } else {
                args.push(self.tape.range(0, 20).to_string());
            }
        }
        args.join(", ")
    }

    /// A small class family: optional (abstract) base + derived class(es); returns declarations and uses
    pub fn gen_class_family(&mut self) -> (Vec<Two>, Vec<Two>) {
        let mut decls = vec![];
        let mut uses = vec![];
        let with_base = self.tape.chance(3, 5);
        let mut base: Option<ClassModel> = None;
        let mut abstract_methods: Vec<String> = vec![];
        let mut abstract_props: Vec<String> = vec![];
        if with_base {
            let is_abstract = self.tape.chance(1, 2);
            let name = self.fresh(if is_abstract { "Shape" } else { "Base" });
            let has_ctor = self.tape.chance(4, 5);
            let params = if has_ctor { self.gen_params(1) } else { vec![] };
            let mut body = if has_ctor { self.gen_ctor_body(&params) } else { vec![] };
            if has_ctor && self.tape.chance(2, 3) {
                // what the base constructor sees on `this`: derived parameter properties must not be there yet
                self.tag("class-body:base-records-keys");
                body.push(t2("(this⟦ as any⟧).seen = Object.keys(this).join();", &[]));
            }
            let mut abstract_members = vec![];
            if is_abstract {
                self.tag("class:abstract");
                let n = self.tape.range(1, 2);
                for _ in 0..n {
                    let a = self.fresh("area");
                    let modi = *self.tape.pick(&["", "protected ", "public "]);
                    if !modi.is_empty() && self.gated("abstract-after-accessibility") {
                        abstract_members.push(format!("abstract {}(): any;", a));
                    } else {
                        abstract_members.push(format!("{}abstract {}(): any;", modi, a));
                    }
                    abstract_methods.push(a);
                }
                if self.tape.chance(1, 2) {
                    self.tag("class:abstract-property");
                    let k = self.fresh("kind");
                    abstract_members.push(format!("abstract readonly {}: string;", k));
                    abstract_props.push(k);
                }
                if self.tape.chance(1, 4) {
                    self.tag("class:abstract-accessor");
                    let k = self.fresh("acc");
                    abstract_members.push(format!("abstract get {}(): any;", k));
                    abstract_props.push(k);
                }
            }
            let mut members = self.gen_methods(&params, &[]);
            if is_abstract && !abstract_methods.is_empty() {
                let d = self.fresh("describe");
                members.push(t2(&format!("{}()⟦: any⟧ {{ return [\"d\", this.{}()]; }}", d, abstract_methods[0]), &[]));
            }
            let arity = params.len();
            let m = ClassModel { name, is_abstract, base: None, params, has_ctor, pre_super: None, super_args: vec![], body, members, abstract_members, implements: None, ctor_arity: arity };
            decls.push(render_class(&m));
            base = Some(m);
        }
        let nder = if base.is_some() { self.tape.range(1, 2) as usize } else { 1 };
        let mut concrete: Vec<ClassModel> = vec![];
        for di in 0..nder {
            let name = self.fresh("Kl");
            let has_ctor = base.is_none() || self.tape.chance(5, 6);
            let params = if has_ctor { self.gen_params(if di == 0 { 2 } else { 1 }) } else { vec![] };
            let nprops = params.iter().filter(|p| !p.modifier.is_empty()).count();
            let mut super_args = vec![];
            let mut pre_super = None;
            if let (Some(b), true) = (&base, has_ctor) {
                self.tag("class:param-props-with-extends");
                let firstnum = params.iter().find(|p| p.ty == "number" && !p.rest).map(|p| p.name.clone());
                if self.tape.chance(1, 5) {
                    if let Some(f) = &firstnum {
                        self.tag("class:statement-before-super");
                        let t = self.fresh("pre");
                        pre_super = Some(format!("const {} = {} * 2;", t, f));
                        super_args.push(t);
                    }
                }
                for p in b.params.iter().skip(super_args.len()) {
                    if p.rest {
                        break;
                    }
                    if (p.default.is_some() || p.optional) && self.tape.chance(1, 2) {
                        break;
                    }
                    if p.ty == "string" {
                        super_args.push("\"b\"".into());
                    } else if let (Some(f), true) = (&firstnum, self.tape.chance(1, 2)) {
                        super_args.push(format!("{} + 1", f));
                    } else {
                        super_args.push(self.tape.range(0, 9).to_string());
                    }
                }
            } else if base.is_none() {
                self.tag("class:param-props-no-extends");
            }
            let mut body = if has_ctor { self.gen_ctor_body(&params) } else { vec![] };
            if has_ctor && base.is_some() && self.tape.chance(1, 2) {
                body.push(t2("(this⟦ as any⟧).after = Object.keys(this).join();", &[]));
            }
            // a derived parameter property with the name of a base parameter property (the derived value wins)
            let mut params = params;
            if let (Some(b), true) = (&base, has_ctor) {
                if let Some(bp) = b.params.iter().find(|p| !p.modifier.is_empty() && !p.modifier.starts_with("private")) {
                    if self.tape.chance(1, 6) {
                        if let Some(dp) = params.iter_mut().find(|p| !p.modifier.is_empty() && p.ty == bp.ty) {
                            self.tag("class:derived-redeclares-base-property");
                            let old = dp.name.clone();
                            dp.name = bp.name.clone();
                            dp.modifier = "public";
                            for s in super_args.iter_mut() {
                                *s = replace_ident(s, &old, &dp.name);
                            }
                            if let Some(p) = pre_super.as_mut() {
                                *p = replace_ident(p, &old, &dp.name);
                            }
                            for st in body.iter_mut() {
                                st.ts = replace_ident(&st.ts, &old, &dp.name);
                                st.js = replace_ident(&st.js, &old, &dp.name);
                            }
                            // defaults of later parameters may mention the renamed one
                            let newname = dp.name.clone();
                            for p in params.iter_mut() {
                                if let Some(d) = p.default.as_mut() {
                                    *d = replace_ident(d, &old, &newname);
                                }
                            }
                        }
                    }
                }
            }
            let mut members = self.gen_methods(&params, &abstract_methods);
            for k in &abstract_props {
                members.push(t2(&format!("get {}()⟦: any⟧ {{ return {:?}; }}", k, k), &[]));
            }
            let implements = if self.tape.chance(1, 6) { Some("Object".to_string()) } else { None };
            let arity = if has_ctor { params.len() } else { base.as_ref().map(|b| b.ctor_arity).unwrap_or(0) };
            let m = ClassModel {
                name,
                is_abstract: false,
                base: base.as_ref().map(|b| b.name.clone()),
                params,
                has_ctor,
                pre_super,
                super_args,
                body,
                members,
                abstract_members: vec![],
                implements,
                ctor_arity: arity,
            };
            if nprops + m.members.len() >= 3 {
                self.big_decl = true;
            }
            decls.push(render_class(&m));
            concrete.push(m);
        }
        // uses
        for c in &concrete {
            let n = self.tape.range(1, 3);
            for _ in 0..n {
                let args = if c.has_ctor {
                    self.ctor_args(c)
                } else if let Some(b) = &base {
                    let bb = b.clone();
                    self.ctor_args(&bb)
                } else {
                    String::new()
                };
                let o = self.fresh("o");
                uses.push(Two::same(format!("const {} = new {}({});", o, c.name, args)));
                let k = self.tape.range(1, 3);
                for _ in 0..k {
                    let e = match self.tape.below(9) {
                        0 => {
                            self.tag("use:instance-keys");
                            self.did_enumerate = true;
                            format!("Object.keys({})", o)
                        }
                        1 => {
                            self.tag("use:instance-show");
                            self.did_enumerate = true;
                            o.clone()
                        }
                        2 => {
                            if self.gated("json-stringify-key-order") {
                                format!("JSON.stringify(Object.keys({}))", o)
                            } else {
                                self.tag("use:instance-JSON.stringify");
                                self.did_enumerate = true;
                                format!("JSON.stringify({})", o)
                            }
                        }
                        3 => {
                            self.tag("use:instanceof");
                            match &base {
                                Some(b) => format!("[{o} instanceof {c}, {o} instanceof {b}, Object.getPrototypeOf({c}.prototype) === {b}.prototype]", o = o, c = c.name, b = b.name),
                                None => format!("[{o} instanceof {c}, {o} instanceof Object]", o = o, c = c.name),
                            }
                        }
                        4 => {
                            self.tag("use:instance-entries");
                            self.did_enumerate = true;
                            format!("[Object.entries({o}), Object.getOwnPropertyNames({o}), __keys({o})]", o = o)
                        }
                        5 => {
                            self.tag("use:prototype-contents");
                            self.did_enumerate = true;
                            match &base {
                                Some(b) => format!("[Object.getOwnPropertyNames({}.prototype), Object.getOwnPropertyNames({}.prototype)]", b.name, c.name),
                                None => format!("Object.getOwnPropertyNames({}.prototype)", c.name),
                            }
                        }
                        6 => {
                            // call every method
                            self.tag("use:call-methods");
                            let calls: Vec<String> = c
                                .members
                                .iter()
                                .filter_map(|m| {
                                    let t = m.js.trim_start();
                                    if t.starts_with("get ") || t.starts_with("static ") {
                                        None
                                    } else {
                                        t.split('(').next().map(|n| format!("({} as any).{}()", o, n.trim()))
                                    }
                                })
                                .collect();
                            format!("[{}]", calls.join(", "))
                        }
                        7 => {
                            self.tag("use:own-property-checks");
                            let p = c.params.iter().find(|p| !p.modifier.is_empty()).map(|p| p.name.clone()).unwrap_or_else(|| "seen".into());
                            format!("[{o}.hasOwnProperty({p:?}), {p:?} in {o}, Object.getOwnPropertyDescriptor({o}, {p:?})]", o = o, p = p)
                        }
                        _ => {
                            self.tag("use:spread-instance");
                            self.did_enumerate = true;
                            format!("{{ ...{} }}", o)
                        }
                    };
                    let two = Two::new(e.clone(), e.replace(" as any)", ")"));
                    uses.push(self.trace(&two));
                }
            }
        }
        (decls, uses)
    }
}

/// replace whole identifiers only
pub fn replace_ident(s: &str, old: &str, new: &str) -> String {
    let cs: Vec<char> = s.chars().collect();
    let oc: Vec<char> = old.chars().collect();
    let mut out = String::new();
    let mut i = 0;
    let isw = |c: char| c.is_ascii_alphanumeric() || c == '_' || c == '$';
    while i < cs.len() {
        if cs[i..].starts_with(&oc) && (i == 0 || !isw(cs[i - 1])) && (i + oc.len() >= cs.len() || !isw(cs[i + oc.len()])) {
            out.push_str(new);
            i += oc.len();
        } else {
            out.push(cs[i]);
            i += 1;
        }
    }
    out
}

// ───────────────────────────── namespaces ─────────────────────────────

#[derive(Clone, Debug)]
pub enum SymKind {
    NumVar { mutable: bool },
    Fn { arity: usize, late: bool },
    Class,
    Enum(EnumModel),
}

#[derive(Clone, Debug)]
pub struct Sym {
    pub name: String,
    pub kind: SymKind,
    pub exported: bool,
    /// index of the block of the owning namespace that declares it
    pub block: usize,
}

#[derive(Clone, Debug, PartialEq)]
pub enum MergeKind {
    None,
    Function,
    Class,
    Enum,
}

#[derive(Clone, Debug)]
pub struct NsModel {
    pub name: String,
    pub exported: bool,
    pub syms: Vec<Sym>,
    pub children: Vec<NsModel>,
    /// number of finished blocks = index of the block in progress
    pub blocks_done: usize,
    /// block of the parent that declared this namespace first / (parent block, emitted `let`) bookkeeping
    pub declared_in_parent_block: usize,
    pub let_emitted_in: Vec<usize>,
    pub merge: MergeKind,
    /// an export that the last root block declares and that functions of earlier blocks refer to
    pub late: Option<(String, i64)>,
    pub late_declared: bool,
    /// exported two-block enums whose second block waits for a later block of this namespace: (model, declaring block)
    pub pending_enums: Vec<(EnumModel, usize)>,
}

impl NsModel {
    pub fn new(name: &str, exported: bool, parent_block: usize) -> NsModel {
        NsModel { name: name.to_string(), exported, syms: vec![], children: vec![], blocks_done: 0, declared_in_parent_block: parent_block, let_emitted_in: vec![], merge: MergeKind::None, late: None, late_declared: false, pending_enums: vec![] }
    }
    pub fn at(&self, path: &[usize]) -> &NsModel {
        let mut n = self;
        for i in path {
            n = &n.children[*i];
        }
        n
    }
    pub fn at_mut(&mut self, path: &[usize]) -> &mut NsModel {
        let mut n = self;
        for i in path {
            n = &mut n.children[*i];
        }
        n
    }
    pub fn export_count(&self) -> usize {
        self.syms.iter().filter(|s| s.exported).count() + self.children.iter().filter(|c| c.exported).count()
    }
}

/// a name visible at a position inside a namespace body
#[derive(Clone, Debug)]
struct RefSym {
    ts: String,
    js: String,
    kind: SymKind,
    /// declared in another block than the one being generated (the emit must qualify it)
    cross_block: bool,
    exported_var: bool,
}

impl<'t, 'a, 'g> G<'t, 'a, 'g> {
    fn visible_refs(&self, root: &NsModel, path: &[usize]) -> Vec<RefSym> {
        let mut out = vec![];
        for d in 0..=path.len() {
            let node = root.at(&path[..d]);
            let cur = node.blocks_done;
            for s in &node.syms {
                let same_block = s.block == cur;
                if !s.exported && !same_block {
                    continue;
                }
                let is_var = matches!(s.kind, SymKind::NumVar { .. });
                let qualify = s.exported && (is_var || !same_block);
                let js = if qualify { format!("{}.{}", node.name, s.name) } else { s.name.clone() };
                out.push(RefSym { ts: s.name.clone(), js, kind: s.kind.clone(), cross_block: !same_block, exported_var: s.exported && is_var });
            }
            // exports of child namespaces declared so far (not the one we are inside of)
            for (ci, c) in node.children.iter().enumerate() {
                if d < path.len() && path[d] == ci {
                    continue;
                }
                if c.blocks_done == 0 {
                    continue;
                }
                let same_block = c.let_emitted_in.contains(&cur);
                if !c.exported && !same_block {
                    continue;
                }
                let prefix_js = if same_block { c.name.clone() } else { format!("{}.{}", node.name, c.name) };
                for s in c.syms.iter().filter(|s| s.exported) {
                    if let SymKind::Fn { late: true, .. } = s.kind {
                        continue;
                    }
                    out.push(RefSym { ts: format!("{}.{}", c.name, s.name), js: format!("{}.{}", prefix_js, s.name), kind: s.kind.clone(), cross_block: !same_block, exported_var: false });
                }
            }
        }
        out
    }

    fn ns_num_expr(&mut self, refs: &[RefSym], params: &[String], depth: usize) -> Two {
        let usable: Vec<&RefSym> = refs
            .iter()
            .filter(|r| match &r.kind {
                SymKind::Fn { late, .. } => !*late,
                SymKind::Class => false,
                SymKind::Enum(e) => e.blocks.iter().take(1).flatten().any(|m| matches!(m.val, Val::Num(_))),
                _ => true,
            })
            .collect();
        let w = [3u32, if params.is_empty() { 0 } else { 4 }, if usable.is_empty() { 0 } else { 8 }, if depth > 0 { 4 } else { 0 }];
        match self.tape.weighted(&w) {
            1 => Two::same(params[self.tape.below(params.len())].clone()),
            2 => {
                let r = usable[self.tape.below(usable.len())].clone();
                if r.cross_block {
                    self.tag("ns-ref:other-block");
                } else if r.exported_var {
                    self.tag("ns-ref:exported-variable");
                } else {
                    self.tag("ns-ref:local-binding");
                }
                match &r.kind {
                    SymKind::Fn { arity, .. } => {
                        let args: Vec<Two> = (0..*arity).map(|_| if depth > 0 { self.ns_num_expr(refs, params, 0) } else { Two::same(self.tape.range(0, 9).to_string()) }).collect();
                        t2("{}({})", &[&Two::new(r.ts.clone(), r.js.clone()), &join2(&args, ", ")])
                    }
                    SymKind::Enum(e) => {
                        let ms: Vec<&Member> = e.blocks.iter().take(1).flatten().filter(|m| matches!(m.val, Val::Num(_)) && is_ident(&m.name)).collect();
                        if ms.is_empty() {
                            Two::same("1")
                        } else {
                            let m = ms[self.tape.below(ms.len())];
                            Two::new(format!("{}.{}", r.ts, m.name), format!("{}.{}", r.js, m.name))
                        }
                    }
                    _ => Two::new(r.ts.clone(), r.js.clone()),
                }
            }
            3 => {
                let a = self.ns_num_expr(refs, params, depth - 1);
                let b = self.ns_num_expr(refs, params, depth - 1);
                let op = *self.tape.pick(&["+", "*", "-"]);
                t2(&format!("({{}} {} {{}})", op), &[&a, &b])
            }
            _ => Two::same(self.tape.range(0, 20).to_string()),
        }
    }

    /// Statements of one block of the namespace at `path` (the block index is `blocks_done` of that node)
    fn gen_ns_body(&mut self, root: &mut NsModel, path: &[usize], depth: usize, last_root_block: bool) -> Two {
        let mut lines: Vec<Two> = vec![];
        let nsname = root.at(path).name.clone();
        let cur = root.at(path).blocks_done;
        let n = self.tape.range(2, 5) as usize;
        if cur > 0 {
            self.did_merge = true;
            self.tag("ns:merged-block");
        }
        for _ in 0..n {
            let refs_all = self.visible_refs(root, path);
            let refs: Vec<RefSym> = if self.gates.excluded("ns-cross-block-reference") {
                let before = refs_all.len();
                let r: Vec<RefSym> = refs_all.into_iter().filter(|r| !r.cross_block).collect();
                if r.len() != before {
                    *self.excluded.entry("ns-cross-block-reference".into()).or_insert(0) += 1;
                }
                r
            } else {
                refs_all
            };
            let mutable_exports: Vec<RefSym> = refs.iter().filter(|r| r.exported_var && matches!(r.kind, SymKind::NumVar { mutable: true })).cloned().collect();
            let w = [6u32, 4, 4, 6, 2, if mutable_exports.is_empty() { 0 } else { 4 }, 2, if depth < 2 { 2 } else { 0 }, if depth < 2 { 3 } else { 0 }, 2, 1, if mutable_exports.is_empty() { 0 } else { 2 }, 2];
            match self.tape.weighted(&w) {
                0 | 1 | 12 => {
                    let kind = self.tape.below(3);
                    let (kw, mutable) = match kind {
                        0 => ("const", false),
                        1 => ("let", true),
                        _ => ("var", true),
                    };
                    let name = self.fresh("x");
                    let init = self.ns_num_expr(&refs, &[], 1);
                    self.tag(&format!("ns-item:export-{}", kw));
                    lines.push(Two::new(format!("export {} {}: number = {};", kw, name, init.ts), format!("{}.{} = {};", nsname, name, init.js)));
                    root.at_mut(path).syms.push(Sym { name, kind: SymKind::NumVar { mutable }, exported: true, block: cur });
                }
                2 => {
                    let name = self.fresh("h");
                    let init = self.ns_num_expr(&refs, &[], 1);
                    let kw = *self.tape.pick(&["const", "let"]);
                    self.tag("ns-item:local-variable");
                    lines.push(t2(&format!("{} {} = {{}};", kw, name), &[&init]));
                    root.at_mut(path).syms.push(Sym { name, kind: SymKind::NumVar { mutable: false }, exported: false, block: cur });
                }
                3 | 4 => {
                    let exported = self.tape.chance(4, 5);
                    let name = self.fresh("f");
                    let arity = self.tape.below(3);
                    let params: Vec<String> = (0..arity).map(|i| format!("a{}", i)).collect();
                    let body = self.ns_num_expr(&refs, &params, 2);
                    let tsp: Vec<String> = params.iter().map(|p| format!("{}: number", p)).collect();
                    self.tag(if exported { "ns-item:export-function" } else { "ns-item:local-function" });
                    let decl = t2(&format!("⟦{}function {}({}): number⟧⟪function {}({})⟫ {{ return {{}}; }}", if exported { "export " } else { "" }, name, tsp.join(", "), name, params.join(", ")), &[&body]);
                    lines.push(decl);
                    if exported {
                        lines.push(Two::new("", format!("{}.{} = {};", nsname, name, name)));
                    }
                    root.at_mut(path).syms.push(Sym { name, kind: SymKind::Fn { arity, late: false }, exported, block: cur });
                }
                5 => {
                    // exported function that mutates an exported variable: visible through N.x in the emit
                    if self.gated("ns-export-live-binding") {
                        continue;
                    }
                    let v = mutable_exports[self.tape.below(mutable_exports.len())].clone();
                    let name = self.fresh("inc");
                    let form = self.tape.below(3);
                    let stmt = match form {
                        0 => t2("{}++;", &[&Two::new(v.ts.clone(), v.js.clone())]),
                        1 => t2("{} = {} + 2;", &[&Two::new(v.ts.clone(), v.js.clone()), &Two::new(v.ts.clone(), v.js.clone())]),
                        _ => t2("{} += 3;", &[&Two::new(v.ts.clone(), v.js.clone())]),
                    };
                    self.tag("ns-item:function-mutates-export");
                    lines.push(t2(&format!("⟦export function {n}(): number⟧⟪function {n}()⟫ {{ {{}} return {{}}; }}", n = name), &[&stmt, &Two::new(v.ts.clone(), v.js.clone())]));
                    lines.push(Two::new("", format!("{}.{} = {};", nsname, name, name)));
                    root.at_mut(path).syms.push(Sym { name, kind: SymKind::Fn { arity: 0, late: false }, exported: true, block: cur });
                }
                6 => {
                    let name = self.fresh("Cls");
                    let e = self.ns_num_expr(&refs, &[], 1);
                    let modi = *self.tape.pick(&["public", "private", "readonly", "protected"]);
                    self.tag("ns-item:export-class");
                    lines.push(t2(
                        &format!("⟦export ⟧class {} {{ constructor(⟦{} ⟧v⟦: number⟧) {{ ⟪this.v = v; ⟫}} m()⟦: number⟧ {{ return (this⟦ as any⟧).v + {{}}; }} }}", name, modi),
                        &[&e],
                    ));
                    lines.push(Two::new("", format!("{}.{} = {};", nsname, name, name)));
                    root.at_mut(path).syms.push(Sym { name, kind: SymKind::Class, exported: true, block: cur });
                }
                7 => {
                    // second block of an exported enum that an earlier block of this namespace declared
                    let pend: Vec<usize> = root.at(path).pending_enums.iter().enumerate().filter(|(_, (_, b))| *b != cur).map(|(i, _)| i).collect();
                    if !pend.is_empty() && !self.gated("ns-enum-reopened-in-later-block") {
                        let (em, _) = root.at_mut(path).pending_enums.remove(pend[0]);
                        self.tag("ns-item:export-enum-reopened-in-later-block");
                        self.did_merge = true;
                        lines.push(render_enum_block(&em, 1, Binder::Let, Some(&nsname), "export "));
                        let acc = em.access(&em.blocks[1][0], false);
                        lines.push(self.trace(&t2(&format!("[{{}}, Object.keys({})]", em.name), &[&acc])));
                        continue;
                    }
                    let mut name = self.fresh("En");
                    let saved = std::mem::take(&mut self.known_enums);
                    // a non-exported enum with the name of a non-exported enum of a sibling block / namespace
                    let siblings: Vec<String> = self
                        .ns_local_enums
                        .iter()
                        .filter(|(n, ns, b)| !(*ns == nsname && *b == cur) && !root.at(path).syms.iter().any(|s| s.name == *n && s.block == cur))
                        // only true siblings: an enum of that name must not be visible here (the text before the
                        // declaration could refer to it: used-before-declaration in TS, TDZ in the emit)
                        .filter(|(n, _, _)| !refs.iter().any(|r| r.ts == *n || r.ts.starts_with(&format!("{}.", n))))
                        .map(|(n, _, _)| n.clone())
                        .collect();
                    let reuse = !siblings.is_empty() && self.tape.chance(1, 2) && !self.gated("enum-sibling-scopes-same-name");
                    if reuse {
                        name = siblings[self.tape.below(siblings.len())].clone();
                        self.tag("ns-item:local-enum-same-name-as-sibling-block");
                    }
                    let two_blocks = !reuse && self.tape.chance(1, 3);
                    let em = self.gen_enum(&name, false, if two_blocks { 2 } else { 1 }, 3);
                    self.known_enums = saved;
                    let exported = !reuse && (two_blocks || self.tape.chance(2, 4));
                    if !exported {
                        self.ns_local_enums.push((name.clone(), nsname.clone(), cur));
                    }
                    if two_blocks {
                        root.at_mut(path).pending_enums.push((em.clone(), cur));
                    }
                    self.tag(if exported { "ns-item:export-enum" } else { "ns-item:local-enum" });
                    lines.push(render_enum_block(&em, 0, Binder::Let, if exported { Some(&nsname) } else { None }, if exported { "export " } else { "" }));
                    if !exported {
                        self.did_enumerate = true;
                        lines.push(self.trace(&Two::same(format!("Object.keys({})", em.name))));
                    }
                    root.at_mut(path).syms.push(Sym { name, kind: SymKind::Enum(em), exported, block: cur });
                }
                8 => {
                    // nested namespace: a new child or a further block of an existing child
                    let existing: Vec<usize> = root.at(path).children.iter().enumerate().filter(|(_, c)| c.blocks_done > 0).map(|(i, _)| i).collect();
                    let reopen = !existing.is_empty() && self.tape.chance(1, 2);
                    let ci = if reopen {
                        let ci = existing[self.tape.below(existing.len())];
                        let c = root.at(path).children[ci].clone();
                        let other_parent_block = !c.let_emitted_in.contains(&cur);
                        if other_parent_block && (!c.exported || self.gated("ns-nested-reopened-in-later-parent-block")) {
                            continue;
                        }
                        ci
                    } else {
                        let mut name = self.fresh("In");
                        let exported = self.tape.chance(4, 5);
                        let outer: Vec<String> = self.top_ns_names.iter().filter(|n| **n != root.name).cloned().collect();
                        if exported && depth == 0 && !outer.is_empty() && self.tape.chance(1, 4) && !root.children.iter().any(|c| outer.contains(&c.name)) && !self.gated("ns-nested-shadows-outer-namespace") {
                            name = outer[self.tape.below(outer.len())].clone();
                            self.tag("ns:nested-shadows-outer-namespace");
                            self.ns_shadows.push((format!("{}.{}", root.name, name), name.clone()));
                        }
                        root.at_mut(path).children.push(NsModel::new(&name, exported, cur));
                        root.at(path).children.len() - 1
                    };
                    let mut p2 = path.to_vec();
                    p2.push(ci);
                    let child = root.at(&p2).clone();
                    let need_let = !child.let_emitted_in.contains(&cur);
                    if need_let {
                        root.at_mut(&p2).let_emitted_in.push(cur);
                    }
                    self.tag(if child.exported { "ns-item:export-namespace" } else { "ns-item:local-namespace" });
                    let body = self.gen_ns_body(root, &p2, depth + 1, false);
                    let arg = if child.exported { format!("{c} = {p}.{c} || ({p}.{c} = {{}})", c = child.name, p = nsname) } else { format!("{c} || ({c} = {{}})", c = child.name) };
                    lines.push(Two::new(
                        format!("{}namespace {} {{\n{}\n}}", if child.exported { "export " } else { "" }, child.name, body.ts),
                        format!("{}(function ({}) {{\n{}\n}})({});", if need_let { format!("let {};\n", child.name) } else { String::new() }, child.name, body.js, arg),
                    ));
                }
                9 => {
                    let e = self.ns_num_expr(&refs, &[], 2);
                    self.tag("ns-item:trace");
                    lines.push(self.trace(&e));
                }
                10 => {
                    let name = self.fresh("Iface");
                    self.tag("ns-item:interface");
                    lines.push(Two::new(format!("export interface {} {{ x: number; f(a: string): void }}", name), ""));
                }
                _ => {
                    // statement assigning an exported variable inside the body
                    if self.gated("ns-export-live-binding") {
                        continue;
                    }
                    let v = mutable_exports[self.tape.below(mutable_exports.len())].clone();
                    let e = self.ns_num_expr(&refs, &[], 1);
                    self.tag("ns-item:assign-export-in-body");
                    lines.push(t2("{} = {};", &[&Two::new(v.ts.clone(), v.js.clone()), &e]));
                }
            }
        }
        // late export: declared by the last root block, referenced by a function of an earlier one
        if depth == 0 {
            if !last_root_block && root.late.is_none() && self.tape.chance(1, 3) && !self.gated("ns-cross-block-reference") {
                let late = self.fresh("late");
                let val = self.tape.range(1, 50);
                let f = self.fresh("fl");
                self.tag("ns-item:function-refers-to-later-block");
                lines.push(Two::new(format!("export function {}(): number {{ return {} + 1; }}", f, late), format!("function {}() {{ return {}.{} + 1; }}\n{}.{} = {};", f, nsname, late, nsname, f, f)));
                root.syms.push(Sym { name: f, kind: SymKind::Fn { arity: 0, late: true }, exported: true, block: cur });
                root.late = Some((late, val));
            } else if last_root_block && root.late.is_some() && !root.late_declared {
                let (late, val) = root.late.clone().unwrap();
                lines.push(Two::new(format!("export const {} = {};", late, val), format!("{}.{} = {};", nsname, late, val)));
                root.syms.push(Sym { name: late, kind: SymKind::NumVar { mutable: false }, exported: true, block: cur });
                root.late_declared = true;
            }
        }
        if lines.iter().all(|l| l.js.trim().is_empty()) {
            // a block without run-time content would not be instantiated: add a value
            let name = self.fresh("x");
            lines.push(Two::new(format!("export const {} = 1;", name), format!("{}.{} = 1;", nsname, name)));
            root.at_mut(path).syms.push(Sym { name, kind: SymKind::NumVar { mutable: false }, exported: true, block: cur });
        }
        root.at_mut(path).blocks_done += 1;
        if root.at(path).export_count() >= 3 {
            self.big_decl = true;
        }
        let ind = "  ".repeat(depth + 1);
        let mut out = Two::default();
        for (i, l) in lines.iter().enumerate() {
            if i > 0 {
                out.push_same("\n");
            }
            let ts = l.ts.replace('\n', &format!("\n{}", ind));
            let js = l.js.replace('\n', &format!("\n{}", ind));
            if !ts.trim().is_empty() {
                out.ts.push_str(&ind);
                out.ts.push_str(&ts);
            }
            if !js.trim().is_empty() {
                out.js.push_str(&ind);
                out.js.push_str(&js);
            }
        }
        out
    }

    /// One top-level block of a namespace (possibly `namespace A.B { .. }` for a dotted chain)
    pub fn gen_ns_top_block(&mut self, root: &mut NsModel, first: bool, last: bool) -> Two {
        // dotted form: descend into (or create) exported children, the body belongs to the innermost
        let mut path: Vec<usize> = vec![];
        let mut names = vec![root.name.clone()];
        let dotted = self.tape.chance(1, 4) && !self.gated("ns-dotted-name");
        if dotted {
            let depth = self.tape.range(1, 2) as usize;
            for _ in 0..depth {
                let cur = root.at(&path).blocks_done;
                let existing: Vec<usize> = root.at(&path).children.iter().enumerate().filter(|(_, c)| c.exported && c.blocks_done > 0).map(|(i, _)| i).collect();
                let ci = if !existing.is_empty() && self.tape.chance(1, 2) && !self.gated("ns-nested-reopened-in-later-parent-block") {
                    existing[self.tape.below(existing.len())]
                } else {
                    let name = self.fresh("Dn");
                    root.at_mut(&path).children.push(NsModel::new(&name, true, cur));
                    root.at(&path).children.len() - 1
                };
                path.push(ci);
                root.at_mut(&path).let_emitted_in.push(cur);
                names.push(root.at(&path).name.clone());
            }
            self.tag("ns:dotted-name");
            if !path.is_empty() {
                self.did_merge = self.did_merge || root.blocks_done > 0;
            }
        }
        let body = self.gen_ns_body(root, &path, path.len(), last && path.is_empty());
        // ancestors of a dotted chain: their block ends too
        for d in (0..path.len()).rev() {
            root.at_mut(&path[..d]).blocks_done += 1;
        }
        let mut ts = format!("namespace {} {{\n{}\n}}", names.join("."), body.ts);
        // emit: nested IIFEs from the inside out
        let mut js = body.js.clone();
        for d in (0..names.len()).rev() {
            let n = &names[d];
            if d == 0 {
                let decl = if first && root.merge == MergeKind::None { format!("var {};\n", n) } else { String::new() };
                js = format!("{}(function ({}) {{\n{}\n}})({} || ({} = {{}}));", decl, n, js, n, n);
            } else {
                let p = &names[d - 1];
                let ind = "  ".repeat(d);
                js = format!("{i}let {n};\n{i}(function ({n}) {{\n{b}\n{i}}})({n} = {p}.{n} || ({p}.{n} = {{}}));", i = ind, n = n, p = p, b = js);
            }
        }
        if !first || root.merge != MergeKind::None {
            self.did_merge = true;
        }
        if self.tape.chance(1, 8) {
            ts = ts.replacen("namespace ", "module ", 1);
            if self.gated("ns-module-keyword") {
                ts = ts.replacen("module ", "namespace ", 1);
            } else {
                self.tag("ns:module-keyword");
            }
        }
        Two::new(ts, js)
    }

    /// observation of a namespace from outside
    pub fn ns_use(&mut self, root: &NsModel) -> Vec<Two> {
        // collect reachable exports: (access path text, kind)
        fn walk(n: &NsModel, prefix: &str, out: &mut Vec<(String, SymKind)>, objs: &mut Vec<String>) {
            objs.push(prefix.to_string());
            for s in n.syms.iter().filter(|s| s.exported) {
                out.push((format!("{}.{}", prefix, s.name), s.kind.clone()));
            }
            for c in n.children.iter().filter(|c| c.exported && c.blocks_done > 0) {
                walk(c, &format!("{}.{}", prefix, c.name), out, objs);
            }
        }
        let mut syms = vec![];
        let mut objs = vec![];
        walk(root, &root.name, &mut syms, &mut objs);
        let mut out = vec![];
        let late_ready = root.late_declared;
        let k = self.tape.below(11);
        let obj = objs[self.tape.below(objs.len())].clone();
        let is_fn_obj = obj == root.name && matches!(root.merge, MergeKind::Function | MergeKind::Class);
        match k {
            0 | 1 => {
                if is_fn_obj && self.gated("function-own-properties-enumerable") {
                    out.push(self.trace(&Two::same(format!("typeof {}", obj))));
                } else {
                    self.tag("use:ns-Object.keys");
                    self.did_enumerate = true;
                    out.push(self.trace(&Two::same(format!("Object.keys({})", obj))));
                }
            }
            2 => {
                if is_fn_obj && self.gated("function-own-properties-enumerable") {
                    out.push(self.trace(&Two::same(format!("typeof {}", obj))));
                } else {
                    self.tag("use:ns-for-in");
                    self.did_enumerate = true;
                    out.push(self.trace(&Two::same(format!("[__keys({o}), typeof {o}, Object.getOwnPropertyNames({o}).length]", o = obj))));
                }
            }
            3 => {
                // hidden locals are not properties
                let locals: Vec<String> = root.syms.iter().filter(|s| !s.exported).map(|s| s.name.clone()).collect();
                let l = if locals.is_empty() { "nothing".to_string() } else { locals[self.tape.below(locals.len())].clone() };
                self.tag("use:ns-local-not-exported");
                out.push(self.trace(&Two::new(format!("[typeof ({} as any).{}, {:?} in {}]", root.name, l, l, root.name), format!("[typeof {}.{}, {:?} in {}]", root.name, l, l, root.name))));
            }
            9 => {
                // write an exported variable from outside, then read it through a function of the namespace
                let vars: Vec<&(String, SymKind)> = syms.iter().filter(|(_, k)| matches!(k, SymKind::NumVar { mutable: true })).collect();
                if vars.is_empty() || self.gated("ns-export-live-binding") {
                    out.push(self.trace(&Two::same(format!("typeof {}", obj))));
                } else {
                    let (v, _) = vars[self.tape.below(vars.len())].clone();
                    self.tag("use:ns-write-export-from-outside");
                    out.push(Two::same(format!("{} = {};", v, self.tape.range(50, 60))));
                    let calls: Vec<String> = syms.iter().filter_map(|(p, k)| if let SymKind::Fn { arity: 0, late, .. } = k { if !*late || late_ready { Some(format!("{}()", p)) } else { None } } else { None }).collect();
                    out.push(self.trace(&Two::same(format!("[{}, {}]", v, calls.join(", ")))));
                }
            }
            10 => {
                self.tag("use:ns-identity-passing");
                out.push(self.trace(&Two::new(
                    format!("((n: {t}) => [n === {o}, typeof n, Object.keys(n).length >= 0])({o})", o = obj, t = if obj.contains('.') { "any".to_string() } else { format!("typeof {}", obj) }),
                    format!("((n) => [n === {o}, typeof n, Object.keys(n).length >= 0])({o})", o = obj),
                )));
            }
            _ => {
                if syms.is_empty() {
                    out.push(self.trace(&Two::same(format!("typeof {}", obj))));
                } else {
                    let n = self.tape.range(1, 4) as usize;
                    let mut xs: Vec<String> = vec![];
                    for _ in 0..n {
                        let (p, kind) = syms[self.tape.below(syms.len())].clone();
                        match kind {
                            SymKind::NumVar { .. } => {
                                self.tag("use:ns-read-variable");
                                xs.push(p);
                            }
                            SymKind::Fn { arity, late } => {
                                if late && !late_ready {
                                    xs.push(format!("typeof {}", p));
                                } else {
                                    self.tag("use:ns-call-function");
                                    let args: Vec<String> = (0..arity).map(|_| self.tape.range(0, 9).to_string()).collect();
                                    xs.push(format!("{}({})", p, args.join(", ")));
                                }
                            }
                            SymKind::Class => {
                                self.tag("use:ns-new-class");
                                self.did_enumerate = true;
                                xs.push(format!("new {p}(4).m(), Object.keys(new {p}(5))", p = p));
                            }
                            SymKind::Enum(e) => {
                                self.tag("use:ns-enum-member");
                                let ms = e.members_upto(1);
                                let m = ms[self.tape.below(ms.len())];
                                let acc = if is_ident(&m.name) { format!("{}.{}", p, m.name) } else { format!("{}[{:?}]", p, m.name) };
                                self.did_reverse = true;
                                xs.push(format!("{}, {}[{}], Object.keys({})", acc, p, acc, p));
                            }
                        }
                    }
                    out.push(self.trace(&Two::same(format!("[{}]", xs.join(", ")))));
                }
            }
        }
        out
    }
}

// ───────────────────────────── program assembly ─────────────────────────────

struct Queue {
    chunks: std::collections::VecDeque<Vec<Two>>,
    /// enum that becomes referable by later enums once every chunk is emitted
    enum_model: Option<EnumModel>,
    /// top-level namespace whose name may be reused by a nested namespace once every chunk is emitted
    ns_name: Option<String>,
}

fn indent(t: &Two, ind: &str) -> Two {
    Two::new(t.ts.replace('\n', &format!("\n{}", ind)), t.js.replace('\n', &format!("\n{}", ind)))
}

impl<'t, 'a, 'g> G<'t, 'a, 'g> {
    /// chunks of a top-level regular or const enum: one per block, each followed by uses
    fn unit_enum(&mut self, is_const: bool) -> (Vec<Vec<Two>>, EnumModel) {
        let name = self.fresh(if is_const { "Kc" } else { "En" });
        let nblocks = if self.tape.chance(1, 3) && !self.gated("enum-repeated-declaration") { self.tape.range(2, 3) as usize } else { 1 };
        let maxm = if self.tier == Tier::Quick { 6 } else { 9 };
        let e = self.gen_enum(&name, is_const, nblocks, maxm);
        let mut chunks = vec![];
        for bi in 0..nblocks {
            let mut c = vec![render_enum_block(&e, bi, if bi == 0 { Binder::Var } else { Binder::None }, None, "")];
            if bi > 0 {
                self.did_merge = true;
            }
            let n = self.tape.range(if bi + 1 == nblocks { 2 } else { 0 }, 4);
            for _ in 0..n {
                c.push(if is_const { self.const_enum_use(&e, bi + 1) } else { self.enum_read_use(&e, bi + 1) });
            }
            chunks.push(c);
        }
        (chunks, e)
    }

    /// enum local to a function, a block or a loop body
    fn unit_local_enum(&mut self, shadow: Option<&EnumModel>) -> Vec<Vec<Two>> {
        let name = match shadow {
            Some(o) => {
                self.tag("enum:local-shadows-outer");
                o.name.clone()
            }
            None => self.fresh("Le"),
        };
        if self.tape.chance(2, 5) && !self.gated("enum-sibling-scopes-same-name") {
            return self.unit_sibling_enums(&name, shadow);
        }
        let nblocks = if self.tape.chance(1, 4) && !self.gated("enum-repeated-declaration") { 2 } else { 1 };
        let local_const = shadow.is_none() && self.tape.chance(1, 5);
        let saved = std::mem::take(&mut self.known_enums);
        let e = self.gen_enum(&name, local_const, nblocks, 4);
        self.known_enums = saved;
        if local_const {
            self.tag("enum:const-local");
        }
        let mut inner: Vec<Two> = vec![];
        for bi in 0..nblocks {
            inner.push(render_enum_block(&e, bi, if bi == 0 { Binder::Let } else { Binder::None }, None, ""));
            if bi > 0 {
                self.did_merge = true;
            }
            let n = self.tape.range(1, 2);
            for _ in 0..n {
                inner.push(if local_const { self.const_enum_use(&e, bi + 1) } else { self.enum_read_use(&e, bi + 1) });
            }
        }
        let body = indent(&join2(&inner, "\n"), "  ");
        let mut out = vec![];
        // what the function returns: the enum object, or (const enum) one inlined member
        let ret = if local_const {
            let ms = e.members_upto(nblocks);
            let m = ms[self.tape.below(ms.len())];
            let a = e.access(m, false);
            t2("[{ v: {} }, p]", &[&a])
        } else {
            Two::same(format!("[{}, p]", name))
        };
        match self.tape.below(4) {
            0 | 1 => {
                self.tag("enum:local-to-function");
                let f = self.fresh("fe");
                out.push(t2(&format!("function {}(p⟦: number⟧) {{\n  {{}}\n  return {{}}⟦ as any[]⟧;\n}}", f), &[&body, &ret]));
                out.push(self.trace(&Two::same(format!("{}(1)", f))));
                out.push(self.trace(&Two::same(format!("[{f}(2)[0] === {f}(3)[0], Object.keys({f}(4)[0])]", f = f))));
            }
            2 => {
                self.tag("enum:local-to-block");
                out.push(t2("{\n  {}\n}", &[&body]));
            }
            _ => {
                self.tag("enum:local-to-loop-body");
                let i = self.fresh("i");
                out.push(t2(&format!("for (let {i} = 0; {i} < 2; {i}++) {{\n  {{}}\n}}", i = i), &[&body]));
            }
        }
        if let Some(o) = shadow {
            out.push(self.trace(&Two::same(format!("Object.keys({})", o.name))));
        }
        vec![out]
    }

    /// Sibling scopes (blocks, switch-case blocks, loop bodies, try/finally blocks; at top level or in a
    /// function body) that each declare their own enum with the SAME name: unrelated `let E` objects in
    /// the emit, with or without an outer enum of that name
    fn unit_sibling_enums(&mut self, name: &str, shadow: Option<&EnumModel>) -> Vec<Vec<Two>> {
        let k = self.tape.range(2, 3) as usize;
        let mut bodies: Vec<Two> = vec![];
        for _ in 0..k {
            let nblocks = if self.tape.chance(1, 5) { 2 } else { 1 };
            let saved = std::mem::take(&mut self.known_enums);
            let e = self.gen_enum(name, false, nblocks, 3);
            self.known_enums = saved;
            let mut inner: Vec<Two> = vec![];
            for bi in 0..nblocks {
                inner.push(render_enum_block(&e, bi, if bi == 0 { Binder::Let } else { Binder::None }, None, ""));
                if bi > 0 {
                    self.did_merge = true;
                }
            }
            self.did_enumerate = true;
            inner.push(self.trace(&Two::same(format!("Object.keys({})", name))));
            if self.tape.chance(1, 2) {
                inner.push(self.enum_read_use(&e, nblocks));
            }
            bodies.push(indent(&join2(&inner, "\n"), "    "));
        }
        self.tag("enum:sibling-scopes-same-name");
        let mut out: Vec<Two> = vec![];
        let blocks: Vec<Two> = bodies.iter().map(|b| t2("  {\n    {}\n  }", &[b])).collect();
        match self.tape.below(5) {
            0 => {
                self.tag("enum:siblings-in-blocks");
                for b in &bodies {
                    out.push(t2("{\n    {}\n}", &[b]));
                }
            }
            1 => {
                self.tag("enum:siblings-in-function-body");
                let f = self.fresh("fs");
                out.push(t2(&format!("function {}(p⟦: number⟧) {{\n{{}}\n  return p;\n}}", f), &[&join2(&blocks, "\n")]));
                out.push(self.trace(&Two::same(format!("{}(1)", f))));
            }
            2 => {
                self.tag("enum:siblings-in-switch-cases");
                let i = self.fresh("k");
                let cases: Vec<Two> = bodies.iter().enumerate().map(|(n, b)| t2(&format!("    case {}: {{\n    {{}}\n    break;\n    }}", n), &[b])).collect();
                out.push(t2(&format!("for (let {i} = 0; {i} < {n}; {i}++) {{\n  switch ({i}) {{\n{{}}\n  }}\n}}", i = i, n = k), &[&join2(&cases, "\n")]));
            }
            3 => {
                self.tag("enum:siblings-in-loop-bodies");
                for b in &bodies {
                    let i = self.fresh("i");
                    out.push(t2(&format!("for (let {i} = 0; {i} < 2; {i}++) {{\n    {{}}\n}}", i = i), &[b]));
                }
            }
            _ => {
                // (try/finally blocks are not used: on this tree a finally block has no scope of its own,
                // which is a defect of the core language, not of enum lowering)
                self.tag("enum:siblings-in-if-branches");
                for (n, b) in bodies.iter().enumerate() {
                    if n % 2 == 0 {
                        out.push(t2("if (__n(1)) {\n    {}\n}", &[b]));
                    } else {
                        out.push(t2("if (!__n(1)) {\n  __t(0, \"not-reached\");\n} else {\n    {}\n}", &[b]));
                    }
                }
            }
        }
        match shadow {
            Some(o) => out.push(self.trace(&Two::same(format!("Object.keys({})", o.name)))),
            None => out.push(self.trace(&Two::same("\"after-siblings\""))),
        }
        vec![out]
    }

    fn unit_namespace(&mut self) -> (Vec<Vec<Two>>, NsModel) {
        let name = self.fresh("Ns");
        let mut root = NsModel::new(&name, false, 0);
        let mut chunks: Vec<Vec<Two>> = vec![];
        let mut pre: Vec<Two> = vec![];
        match 7 - self.tape.below(8) {
            0 => {
                if !self.gated("ns-merged-with-function") {
                    root.merge = MergeKind::Function;
                    self.tag("ns:merged-with-function");
                    pre.push(t2(&format!("function {}(x⟦: number⟧)⟦: number⟧ {{ return x + 1; }}", name), &[]));
                }
            }
            1 => {
                if !self.gated("ns-merged-with-class") {
                    root.merge = MergeKind::Class;
                    self.tag("ns:merged-with-class");
                    pre.push(t2(&format!("class {} {{ static s0⟦: number⟧ = 1; m0()⟦: number⟧ {{ return 2; }} }}", name), &[]));
                }
            }
            2 => {
                if !self.gated("ns-merged-with-enum") {
                    root.merge = MergeKind::Enum;
                    self.tag("ns:merged-with-enum");
                    let saved = std::mem::take(&mut self.known_enums);
                    let e = self.gen_enum(&name, false, 1, 3);
                    self.known_enums = saved;
                    pre.push(render_enum_block(&e, 0, Binder::Var, None, ""));
                }
            }
            _ => {}
        }
        let nblocks = if self.tape.chance(1, 2) && !self.gated("ns-repeated-declaration") { self.tape.range(2, 3) as usize } else { 1 };
        for bi in 0..nblocks {
            let mut c: Vec<Two> = if bi == 0 { std::mem::take(&mut pre) } else { vec![] };
            c.push(self.gen_ns_top_block(&mut root, bi == 0, bi + 1 == nblocks));
            let n = self.tape.range(if bi + 1 == nblocks { 2 } else { 0 }, 4);
            for _ in 0..n {
                let u = self.ns_use(&root);
                c.extend(u);
            }
            if bi + 1 == nblocks {
                match root.merge {
                    MergeKind::Function => c.push(self.trace(&Two::same(format!("[{}(1), typeof {}]", name, name)))),
                    MergeKind::Class => c.push(self.trace(&Two::same(format!("[new {n}().m0(), {n}.s0, typeof {n}]", n = name)))),
                    _ => {}
                }
            }
            if bi + 1 == nblocks {
                for (path, outer) in std::mem::take(&mut self.ns_shadows) {
                    c.push(self.trace(&Two::new(
                        format!("[({p} as any) === {o}, Object.keys({p}), Object.keys({o})]", p = path, o = outer),
                        format!("[{p} === {o}, Object.keys({p}), Object.keys({o})]", p = path, o = outer),
                    )));
                }
            }
            chunks.push(c);
        }
        (chunks, root)
    }

    fn unit_core_program(&mut self) -> Vec<Vec<Two>> {
        // a progen core program (clean profile) wrapped into a function; identical in both renderings
        let p = gen_script(self.tape, self.gates, Config::clean(5));
        let body = p.body_js();
        let (stmts, fin) = match body.rfind('\n') {
            Some(i) => (body[..i].to_string(), body[i + 1..].to_string()),
            None => (String::new(), body.clone()),
        };
        let f = self.fresh("__core");
        self.tag("embedding:progen-core-program");
        let text = format!("function {}() {{\n{}\nreturn {};\n}}", f, stmts, fin);
        vec![vec![Two::same(text)], vec![self.trace(&Two::same(format!("{}()", f)))]]
    }
}

pub fn generate(tape: &mut Tape, ctx: &Ctx) -> Value {
    let mut g = G {
        tape,
        gates: &ctx.gates,
        tier: ctx.tier,
        tags: BTreeSet::new(),
        counts: BTreeMap::new(),
        excluded: BTreeMap::new(),
        next: 0,
        tid: 0,
        known_enums: vec![],
        top_ns_names: vec![],
        ns_shadows: vec![],
        ns_local_enums: vec![],
        big_decl: false,
        did_reverse: false,
        did_enumerate: false,
        did_merge: false,
    };
    let mut queues: Vec<Queue> = vec![];
    let mut emitted: Vec<Two> = vec![];
    let mut finished_enums: Vec<EnumModel> = vec![];
    let mut top_enums: Vec<EnumModel> = vec![];
    let mut top_ns: Vec<NsModel> = vec![];
    let nunits = g.tape.range(1, if ctx.tier == Tier::Quick { 3 } else { 4 }) as usize;

    fn pump(g: &mut G, queues: &mut Vec<Queue>, emitted: &mut Vec<Two>, finished: &mut Vec<EnumModel>) -> bool {
        let live: Vec<usize> = queues.iter().enumerate().filter(|(_, q)| !q.chunks.is_empty()).map(|(i, _)| i).collect();
        if live.is_empty() {
            return false;
        }
        let qi = live[g.tape.below(live.len())];
        if let Some(c) = queues[qi].chunks.pop_front() {
            emitted.extend(c);
        }
        if queues[qi].chunks.is_empty() {
            if let Some(e) = queues[qi].enum_model.take() {
                finished.push(e);
            }
            if let Some(n) = queues[qi].ns_name.take() {
                g.top_ns_names.push(n);
            }
        }
        true
    }

    for _ in 0..nunits {
        g.known_enums = finished_enums.clone();
        // unit kinds: regular enum, const enum, local enum, namespace, classes, core program
        let w = [10u32, 3, 4, 7, 7, 2];
        match g.tape.weighted(&w) {
            0 => {
                let (chunks, e) = g.unit_enum(false);
                top_enums.push(e.clone());
                queues.push(Queue { chunks: chunks.into(), enum_model: Some(e), ns_name: None });
            }
            1 => {
                let (chunks, e) = g.unit_enum(true);
                queues.push(Queue { chunks: chunks.into(), enum_model: Some(e), ns_name: None });
            }
            2 => {
                let shadow = if !finished_enums.is_empty() && g.tape.chance(1, 4) { finished_enums.iter().find(|e| !e.is_const).cloned() } else { None };
                let chunks = g.unit_local_enum(shadow.as_ref());
                queues.push(Queue { chunks: chunks.into(), enum_model: None, ns_name: None });
            }
            3 => {
                let (chunks, root) = g.unit_namespace();
                let nm = root.name.clone();
                top_ns.push(root);
                queues.push(Queue { chunks: chunks.into(), enum_model: None, ns_name: Some(nm) });
            }
            4 => {
                let (decls, uses) = g.gen_class_family();
                queues.push(Queue { chunks: vec![decls, uses].into(), enum_model: None, ns_name: None });
            }
            _ => {
                let chunks = g.unit_core_program();
                queues.push(Queue { chunks: chunks.into(), enum_model: None, ns_name: None });
            }
        }
        let k = g.tape.below(3);
        for _ in 0..k {
            pump(&mut g, &mut queues, &mut emitted, &mut finished_enums);
        }
    }
    while pump(&mut g, &mut queues, &mut emitted, &mut finished_enums) {}

    // mutation phase: after every declaration (constant folding in the emit assumes unmodified members)
    for e in top_enums.clone() {
        let k = g.tape.below(3);
        for _ in 0..k {
            let names: Vec<String> = e.blocks.iter().flatten().map(|m| m.name.clone()).collect();
            let nums: Vec<f64> = e.blocks.iter().flatten().filter_map(|m| if let Val::Num(v) = m.val { Some(v) } else { None }).collect();
            let ms = g.object_mutation(&e.name, &names, &nums);
            // nothing can be changed after a freeze (every further write throws in strict mode)
            let froze = ms.iter().any(|m| m.js.starts_with("Object.freeze("));
            emitted.extend(ms);
            let nb = e.blocks.len();
            emitted.push(g.enum_read_use(&e, nb));
            if froze {
                break;
            }
        }
    }
    for n in top_ns.clone() {
        if n.merge == MergeKind::None && g.tape.chance(1, 3) {
            let names: Vec<String> = n.syms.iter().filter(|s| s.exported).map(|s| s.name.clone()).collect();
            let ms = g.object_mutation(&n.name, &names, &[]);
            emitted.extend(ms);
        }
    }
    // completion value: a summary over the top-level objects
    let mut fin: Vec<String> = vec![];
    for e in &top_enums {
        fin.push(format!("Object.keys({}).length", e.name));
    }
    for n in &top_ns {
        fin.push(format!("typeof {}", n.name));
    }
    fin.push("\"end\"".to_string());
    let mut ts = String::new();
    let mut js = String::new();
    for t in &emitted {
        if !t.ts.trim().is_empty() {
            ts.push_str(&t.ts);
            ts.push('\n');
        }
        if !t.js.trim().is_empty() {
            js.push_str(&t.js);
            js.push('\n');
        }
    }
    let last = format!("__show([{}])", fin.join(", "));
    ts.push_str(&last);
    js.push_str(&last);
    let nontrivial = g.big_decl && (g.did_reverse || g.did_enumerate || g.did_merge);
    let mut counts: BTreeMap<String, u64> = BTreeMap::new();
    for (k, v) in &g.counts {
        counts.insert(format!("kind:{}", k), *v);
    }
    json!({
        "ts_body": ts,
        "js_body": js,
        "tags": g.tags.iter().cloned().collect::<Vec<String>>(),
        "counts": counts,
        "excluded": g.excluded,
        "nontrivial": nontrivial,
        "flags": {"big_decl": g.big_decl, "reverse": g.did_reverse, "enumerate": g.did_enumerate, "merge": g.did_merge},
    })
}
