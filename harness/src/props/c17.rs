//! C17 — the C API is memory-safe and total for every call sequence.
//!
//! A case is a sequence of <= 200 operations over the 64 exported `tsrun_*` functions plus callback
//! scripts for native functions. The generator decodes the choice tape into operations whose
//! arguments are *selectors* (a live handle of the documented kind / any live handle / NULL / a
//! handle of a wrong kind, resolved against the executor's handle table at run time), so every
//! rendered case is self-contained and every u32 tape (also one made from fuzzer bytes) is a case.
//! The executor (c17/) runs the sequence against the real `extern "C"` functions of the ASan build.

pub mod exec;
pub mod host;
pub mod ops;
pub mod run;
pub mod vals;

use crate::core::{Ctx, Exec, Plan, Property, Tier};
use crate::tape::Tape;
use exec::*;
use serde_json::{json, Value};

pub struct C17Prop;
pub static C17: C17Prop = C17Prop;

// ---------------------------------------------------------------------------------------------
// programs
// ---------------------------------------------------------------------------------------------
const FRAGS: [(&str, &str); 22] = [
    ("", "let acc = 0; for (let i = 0; i < 40; i++) { acc += i; } G.__acc = acc;"),
    ("", "const junk: any[] = []; for (let i = 0; i < 160; i++) { junk.push({i, s: \"x\" + i}); } G.__junk = junk.length;"),
    ("import { order } from \"tsrun:host\";", "G.__r0 = order({tag: \"r0\", n: 1, list: [1, 2, {z: \"é\"}]});"),
    ("import { order } from \"tsrun:host\";", "G.__r0 = order({tag: \"r0\"}); G.__r1 = order({tag: \"r1\", prev: G.__r0});"),
    ("", "if (typeof G.nf0 === \"function\") { try { G.__n0 = G.nf0(1, \"a\", {k: [1]}, [1, 2], G.h0); } catch (e) { G.__e0 = String(e); } }"),
    ("", "if (typeof G.nf1 === \"function\") { try { G.__m = [1, 2, 3].map(G.nf1); } catch (e) { G.__e1 = String(e); } }"),
    ("", "if (typeof G.nf0 === \"function\") { try { G.__c = G.nf0((x: any) => ({got: x}), {o: 1}, \"s\"); } catch (e) { G.__e2 = String(e); } }"),
    ("", "if (typeof G.nfp === \"function\") { try { G.__r2 = G.nfp({q: 1, tag: \"r2\"}); } catch (e) { G.__e3 = String(e); } }"),
    ("import { f0, v0 } from \"host:m0\";", "G.__f0 = typeof f0 === \"function\" ? f0(v0, [v0]) : v0;"),
    ("import { dv } from \"./dep0\";", "G.__dv = dv;"),
    ("import { dw } from \"./dep1\";", "G.__dw = dw;"),
    ("", "console.log(\"hi\", {a: 1}, [1, \"é✓\"]); console.error(\"err é\"); console.warn(1.5); console.info(null); console.debug(undefined); console.clear();"),
    ("", "G.__re = /a(b+)c/.exec(\"xabbc né\"); G.__sp = \"aXbXc\".split(/X/); G.__rp = \"abcabc\".replace(/b/g, \"[$&]\"); G.__t = /né/.test(\"a né b\"); try { new RegExp(\"zz(\"); } catch (e) { G.__ee = String(e); }"),
    ("", "G.__j0 = typeof G.h0 === \"undefined\" ? \"u\" : JSON.stringify(G.h0); G.__j1 = G.h1; G.__k = typeof G.h2 === \"object\" && G.h2 !== null ? Object.keys(G.h2).length : -1;"),
    ("", "const p0 = new Promise((res: any) => { G.__res = res; }); p0.then((v: any) => { G.__pv = v; });"),
    ("", "async function af() { const v = await G.hp0; G.__av = v; return v; } if (G.hp0) { af(); }"),
    ("", "throw new Error(\"boom é\");"),
    ("", "throw {code: 1, list: [1]};"),
    ("", "if (typeof G.nf1 === \"function\") { try { G.__n1 = G.nf1(G.h1, G.h2, G.nf0); } catch (e) { G.__e4 = String(e); } }"),
    ("", "throw new Error(\"nul\\u0000byte\");"),
    ("import { zz } from \"./a\\u0000b\";", "G.__zz = zz;"),
    // several native calls in one run, the first with an object that has a script method (callbacks re-enter through tsrun_call_method)
    ("", "if (typeof G.nf0 === \"function\" && typeof G.nf1 === \"function\") { try { G.__q0 = G.nf0({f: (x: any) => [x], k: 1}, [1, 2]); G.__q1 = G.nf1(7); G.__q2 = G.nf0(8); G.__q3 = G.nf1({f: () => 1}); } catch (e) { G.__e5 = String(e); } }"),
];
const EXPORT_FRAG: &str = "export const out = {a: [1, 2, {b: 3}]}; export function fexp(x: any) { return [x, x]; } export default 42;";
const FINALS: [&str; 21] = [
    "1;",
    "({a: 1, f: () => 2, arr: [1, [2]], s: \"é\"});",
    "((x: any) => ({got: x, n: 1}));",
    "[1, \"two\", {three: 3}];",
    "\"str é\";",
    "Symbol(\"x\");",
    "new Map([[1, {a: 1}]]);",
    "new Proxy({t: 1}, {get: (t: any, k: any) => 1});",
    "Promise.resolve({p: 1});",
    "new (class K { v = [1]; m() { return this.v; } })();",
    "Object.freeze({fz: [1]});",
    "({get x() { return 1; }, y: 2});",
    "((a: any, b: any) => [a, b]).bind(null, {bound: 1});",
    "new Date(0);",
    "undefined;",
    "null;",
    "(function* () { yield 1; })();",
    "G.nf0;",
    "\"a\\u0000b\";",
    "({\"k\\u0000z\": 1, c: 2});",
    "\"\\ud800x\";",
];

fn gen_program(t: &mut Tape) -> (String, bool) {
    let n = 1 + t.below(4);
    let mut imports: Vec<&str> = vec![];
    let mut body = String::from("const G: any = globalThis;\n");
    let module = t.chance(1, 3);
    let mut used: Vec<usize> = vec![];
    for _ in 0..n {
        let k = t.weighted(&[6, 5, 10, 5, 8, 5, 5, 6, 4, 4, 3, 4, 4, 5, 3, 4, 2, 1, 4, 1, 1, 9]);
        // fragments declare top-level names: each at most once; the two order fragments exclude each other
        if used.contains(&k) || (k == 2 && used.contains(&3)) || (k == 3 && used.contains(&2)) {
            continue;
        }
        used.push(k);
        let (imp, b) = FRAGS[k];
        if !imp.is_empty() && !imports.contains(&imp) {
            imports.push(imp);
        }
        body.push_str(b);
        body.push('\n');
    }
    if module {
        body.push_str(EXPORT_FRAG);
        body.push('\n');
    }
    body.push_str(FINALS[t.below(FINALS.len())]);
    body.push('\n');
    let mut src = String::new();
    for i in imports {
        src.push_str(i);
        src.push('\n');
    }
    src.push_str(&body);
    (src, module)
}

// ---------------------------------------------------------------------------------------------
// generator
// ---------------------------------------------------------------------------------------------
fn csel(t: &mut Tape) -> i64 {
    // context selector: mostly a live context, rarely NULL
    if t.chance(1, 25) {
        -1
    } else {
        t.below(3) as i64
    }
}
/// (mode, selector): 0 documented kind, 1 any live handle, 2 NULL, 3 wrong kind, 4 most recent of the documented kind
fn vsel(t: &mut Tape) -> (i64, i64) {
    let m = [0, 4, 1, 3, 2][t.weighted(&[50, 18, 12, 10, 10])];
    (m, t.below(64) as i64)
}
fn tidx(t: &mut Tape, n: usize) -> i64 {
    // table index, rarely NULL (-1) or bytes that are not UTF-8 (-2)
    match t.weighted(&[46, 2, 2]) {
        0 => t.below(n) as i64,
        1 => -1,
        _ => -2,
    }
}

fn gen_value_op(t: &mut Tape, ncb: usize) -> Value {
    let c = csel(t);
    let k = t.weighted(&[
        3, 2, 3, 4, 5, 4, 6, 5, 7, 4, // undefined null boolean number string string_len object_new array_new json_parse dup
        14, 9, 7, 4, 3, 4, // insp get set has delete keys
        5, 4, 6, 6, // array_get array_set array_push stringify
        7, 5, 6, 6, // call call_method get_global set_global
        4, 2, 3, 3, 3, // native pending_order order_promise resolve reject
        2, 1, 3, 2, 2, 2, 2, // gc_stats version free_string free_strings gcburst get_export export_names
    ]);
    let (m1, s1) = vsel(t);
    match k {
        0 => json!(["undefined", c]),
        1 => json!(["null", c]),
        2 => json!(["boolean", c, t.below(2)]),
        3 => json!(["number", c, t.below(NUMS.len())]),
        4 => json!(["string", c, tidx(t, STRS.len())]),
        5 => json!(["string_len", c, t.below(STRS.len()), t.below(5)]),
        6 => json!(["object_new", c]),
        7 => json!(["array_new", c]),
        8 => json!(["json_parse", c, tidx(t, JSONS.len())]),
        9 => json!(["dup", c, m1, s1]),
        10 => json!(["insp", t.below(15), m1, s1, c]),
        11 => json!(["get", c, m1, s1, tidx(t, KEYS.len())]),
        12 => {
            let (m2, s2) = vsel(t);
            json!(["set", c, m1, s1, tidx(t, KEYS.len()), m2, s2])
        }
        13 => json!(["has", c, m1, s1, tidx(t, KEYS.len())]),
        14 => json!(["delete", c, m1, s1, tidx(t, KEYS.len())]),
        15 => json!(["keys", c, m1, s1, t.chance(1, 12) as i64]),
        16 => json!(["array_get", c, m1, s1, t.below(6)]),
        17 | 18 => {
            let (m2, s2) = vsel(t);
            json!([if k == 17 { "array_set" } else { "array_push" }, c, m1, s1, t.below(5), m2, s2])
        }
        19 => json!(["stringify", c, m1, s1]),
        20 | 21 => {
            let n = t.below(4);
            let mut v: Vec<Value> = if k == 20 {
                let (m2, s2) = vsel(t);
                vec![json!("call"), json!(c), json!(m1), json!(s1), json!(m2), json!(s2), json!(t.chance(1, 12) as i64), json!(n)]
            } else {
                vec![json!("call_method"), json!(c), json!(m1), json!(s1), json!(tidx(t, METHODS.len())), json!(t.chance(1, 12) as i64), json!(n)]
            };
            for _ in 0..n {
                let (m, s) = vsel(t);
                v.push(json!(m));
                v.push(json!(s));
            }
            Value::Array(v)
        }
        22 => json!(["get_global", c, tidx(t, GLOBALS.len())]),
        23 => json!(["set_global", c, if t.chance(1, 20) { tidx(t, GLOBALS.len()) } else { t.below(8) as i64 }, m1, s1]),
        24 => json!(["native", c, tidx(t, GLOBALS.len()), t.below(ncb.max(1)), t.below(4)]),
        25 => json!(["pending_order", c, m1, s1, t.chance(1, 8) as i64]),
        26 => json!(["order_promise", c, t.below(4)]),
        27 => {
            let (m2, s2) = vsel(t);
            json!(["resolve", c, m1, s1, m2, s2])
        }
        28 => json!(["reject", c, m1, s1, tidx(t, ERRS.len())]),
        29 => json!(["gc_stats", c]),
        30 => json!(["version"]),
        31 => json!(["free_string", t.below(16), t.chance(1, 12) as i64]),
        32 => json!(["free_strings", t.below(16), t.chance(1, 12) as i64]),
        33 => json!(["gcburst", c, t.below(2)]),
        34 => json!(["get_export", c, tidx(t, EXPORTS.len())]),
        _ => json!(["export_names", c, t.chance(1, 12) as i64]),
    }
}

pub fn gen_case(t: &mut Tape) -> Value {
    // callback scripts first: operations refer to them by index
    let ncb = 1 + t.below(4);
    let mut cbs: Vec<Value> = vec![];
    for _ in 0..ncb {
        let n = t.below(5);
        let ops: Vec<Value> = (0..n).map(|_| gen_value_op(t, ncb)).collect();
        let ret = [0, 3, 2, 1, 6, 11, 5, 7, 4, 10, 8, 9][t.weighted(&[10, 10, 10, 6, 10, 12, 8, 6, 6, 4, 2, 2])];
        cbs.push(json!({"ops": ops, "ret": ret, "sel": t.below(8)}));
    }
    let target = 12 + t.below(189);
    let mut ops: Vec<Value> = vec![json!(["new"])];
    while ops.len() < target && !t.exhausted() {
        let c = csel(t);
        match t.weighted(&[30, 14, 8, 6, 5, 8, 4, 3]) {
            0 => ops.push(gen_value_op(t, ncb)),
            1 => {
                // drive a program: prepare, then rounds of run/step + answering what the interpreter asks for
                let (src, module) = gen_program(t);
                let (srcmode, pathmode) = match t.weighted(&[40, 1, 1, 2]) {
                    1 => (1, 0),
                    2 => (2, 0),
                    3 => (0, -2),
                    _ => (0, if module { t.below(3) as i64 } else if t.chance(1, 4) { 0 } else { -1 }),
                };
                ops.push(json!(["prepare", c, srcmode, pathmode, src]));
                for _ in 0..(1 + t.below(5)) {
                    match t.weighted(&[12, 4, 1]) {
                        0 => ops.push(json!(["run", c, t.chance(1, 30) as i64])),
                        1 => ops.push(json!(["stepn", c, 1 + t.below(60)])),
                        _ => ops.push(json!(["step", c, t.chance(1, 10) as i64])),
                    }
                    if t.chance(1, 4) {
                        ops.push(gen_value_op(t, ncb));
                    }
                    let rs = [0, 0, 0, 0, 1, 2, 3][t.below(7)];
                    ops.push(json!(["respond", c, rs]));
                    let (m, s) = vsel(t);
                    let style = [0, 0, 0, 9, 1, 1, 2, 3, 8, 4, 7, 5, 6][t.below(13)];
                    ops.push(json!(["fulfill", c, style, t.below(5), t.below(8), m, s]));
                    if t.chance(1, 5) {
                        ops.push(gen_value_op(t, ncb));
                    }
                }
                ops.push(json!(["run", c, 0]));
                ops.push(json!(["probe", c]));
            }
            2 => {
                // host environment of a context: console, regexp provider, native functions as globals
                if t.chance(1, 2) {
                    ops.push(json!(["set_console", c, t.below(3)]));
                }
                if t.chance(1, 2) {
                    ops.push(json!(["set_regexp", c, t.below(3)]));
                }
                for g in [4, 5, 6] {
                    if t.chance(3, 4) {
                        ops.push(json!(["native", c, g, t.below(ncb), t.below(4)]));
                        ops.push(json!(["set_global", c, g, 4, 0]));
                        if t.chance(1, 2) {
                            ops.push(json!(["vfree", 0, 2]));
                        }
                    }
                }
                if t.chance(1, 3) {
                    ops.push(json!(["order_promise", c, t.below(3)]));
                    ops.push(json!(["set_global", c, 7, 4, 0]));
                }
            }
            3 => {
                // an internal module; mostly the one the programs import (host:m0 with f0, v0, f1)
                if t.chance(2, 3) {
                    ops.push(json!(["mod_new", 0]));
                    ops.push(json!(["mod_addf", 99, 0, t.below(ncb), t.below(3)]));
                    ops.push(json!(["json_parse", c, t.below(8)]));
                    ops.push(json!(["mod_addv", 99, 1, 4, 0, c]));
                    ops.push(json!(["mod_addf", 99, 2, t.below(ncb), t.below(3)]));
                    ops.push(json!(["mod_reg", c, 99]));
                    continue;
                }
                ops.push(json!(["mod_new", tidx(t, MOD_SPECS.len())]));
                for _ in 0..t.below(3) {
                    ops.push(json!(["mod_addf", if t.chance(1, 15) { -1 } else { 0 }, tidx(t, MOD_NAMES.len()), t.below(ncb), t.below(3)]));
                }
                if t.chance(1, 2) {
                    let (m, s) = vsel(t);
                    ops.push(json!(["mod_addv", 0, tidx(t, MOD_NAMES.len()), m, s, c]));
                }
                if t.chance(5, 6) {
                    ops.push(json!(["mod_reg", c, if t.chance(1, 15) { -1 } else { 0 }]));
                }
            }
            4 => {
                // releases in any order
                for _ in 0..(1 + t.below(6)) {
                    match t.weighted(&[10, 4, 2, 2]) {
                        0 => ops.push(json!(["vfree", t.below(64), t.chance(1, 20) as i64])),
                        1 => {
                            let fm = [0, 0, 0, 0, 2, 1][t.below(6)];
                            ops.push(json!(["stepfree", t.below(8), fm]))
                        }
                        2 => ops.push(json!(["free_string", t.below(16), 0])),
                        _ => ops.push(json!(["free_strings", t.below(16), 0])),
                    }
                }
            }
            5 => {
                // a host-built value handed to the script
                let (m, s) = vsel(t);
                ops.push(json!(["json_parse", c, t.below(8)]));
                ops.push(json!(["set_global", c, t.below(4), 4, 0]));
                if t.chance(1, 2) {
                    ops.push(json!(["vfree", 0, 2]));
                }
                if t.chance(1, 2) {
                    ops.push(json!(["gcburst", c, t.below(2)]));
                }
                if t.chance(1, 2) {
                    ops.push(json!(["get_global", c, t.below(4)]));
                }
                let _ = (m, s);
            }
            6 => {
                // context churn: a context dies while its values, step results and strings live on
                if t.chance(1, 2) {
                    ops.push(json!(["free", c]));
                    for _ in 0..t.below(4) {
                        ops.push(json!(["vfree", 1 + 2 * t.below(32), 0]));
                    }
                }
                ops.push(json!(["new"]));
            }
            _ => ops.push(json!(["pressure", t.below(4)])),
        }
    }
    ops.truncate(200);
    json!({"cbs": cbs, "ops": ops, "end": t.below(3)})
}

// ---------------------------------------------------------------------------------------------
// execution
// ---------------------------------------------------------------------------------------------
pub fn run_case(case: &Value) -> Exec {
    install_hook_once();
    let cbs: Vec<Value> = case["cbs"].as_array().cloned().unwrap_or_default();
    let ops: Vec<Value> = case["ops"].as_array().cloned().unwrap_or_default();
    let e = Exe::new(cbs, std::env::var("VERIF_C17_TRACE").is_ok());
    let _ = tsrun::verif_hooks::take_stale();
    tsrun::verif_hooks::set_stale_log(true);
    tsrun::verif_hooks::gc_threshold_override_set(0);
    e.stale0.set(tsrun::verif_hooks::stale_total());
    CUR.with(|c| c.set(&e as *const Exe));
    e.run_ops(&ops);
    // teardown: everything still alive is released, values before / after / interleaved with their contexts
    tsrun::verif_hooks::gc_threshold_override_set(0);
    e.pressure.set(0);
    *e.cur_name.borrow_mut() = "teardown".into();
    e.cur_op.set(ops.len());
    if !e.failed() {
        let end = case["end"].as_i64().unwrap_or(0);
        let mut k = 0;
        let order: Vec<Value> = match end {
            0 => vec![json!(["vfree", 0, 0]), json!(["free", 0])],
            1 => vec![json!(["free", 0]), json!(["vfree", 0, 0])],
            _ => vec![json!(["vfree", 0, 0]), json!(["free", 0]), json!(["stepfree", 0, 0])],
        };
        loop {
            let live_ctx = e.ctxs.borrow().iter().any(|c| c.alive);
            let live_val = e.vals.borrow().iter().any(|v| v.st == St::Live && !v.borrowed);
            let live_step = e.steps.borrow().iter().any(|s| !s.freed);
            if !(live_ctx || live_val || live_step) || e.failed() || k > 5000 {
                break;
            }
            let op = match end {
                0 if live_val => &order[0],
                0 if live_step => &json!(["stepfree", 0, 0]),
                0 => &order[1],
                1 if live_ctx => &order[0],
                1 if live_step => &json!(["stepfree", 0, 0]),
                1 => &order[1],
                _ => {
                    let o = &order[k % 3];
                    let possible = match k % 3 {
                        0 => live_val,
                        1 => live_ctx,
                        _ => live_step,
                    };
                    if !possible {
                        k += 1;
                        continue;
                    }
                    o
                }
            };
            let op = op.clone();
            if let Some(o) = op.as_array() {
                e.exec_op(o);
            }
            e.check_stale();
            k += 1;
        }
        let pend: Vec<usize> = {
            let s = e.strs.borrow();
            (0..s.len()).filter(|i| !s[*i].freed).collect()
        };
        for i in pend {
            e.free_str_slot(i);
        }
        let pend: Vec<usize> = {
            let a = e.arrs.borrow();
            (0..a.len()).filter(|i| !a[*i].freed).collect()
        };
        for i in pend {
            e.free_arr_slot(i);
        }
    } else {
        // after a failure nothing is released any more (the state may be inconsistent): leak
    }
    e.check_stale();
    CUR.with(|c| c.set(std::ptr::null()));
    tsrun::verif_hooks::gc_threshold_override_set(0);

    let hist = e.hist.borrow().clone();
    let calls: u64 = hist.values().sum();
    let flags = e.flags.borrow();
    let nontrivial = calls >= 10 && flags.had_step && flags.had_release && flags.obj_crossed;
    let mut ex = match e.fail.borrow().clone() {
        Some((sig, msg)) => Exec::fail(sig, msg),
        None => Exec::pass(nontrivial),
    };
    let mut tags: Vec<String> = flags.tags.keys().map(|k| k.to_string()).collect();
    if nontrivial {
        tags.push("nontrivial".into());
    }
    let bucket = match calls {
        0..=9 => "calls:<10",
        10..=49 => "calls:10-49",
        50..=199 => "calls:50-199",
        200..=499 => "calls:200-499",
        _ => "calls:>=500",
    };
    tags.push(bucket.into());
    ex = ex.with_tags(tags);
    for (k, n) in &hist {
        ex = ex.count(&format!("fn:{}", k), *n);
    }
    ex = ex
        .count("api_calls", calls)
        .count("shadow_comparisons", e.shadow_checks.get())
        .count("native_callback_invocations", e.cb_calls.get())
        .count("console_callback_invocations", e.console_calls.get())
        .count("regexp_callback_invocations", e.rx_calls.get())
        .count("ops_skipped_not_applicable", e.skipped.get());
    ex.with_observed(json!({"api_calls": calls, "contexts": e.ctxs.borrow().len(), "values": e.vals.borrow().len(), "step_results": e.steps.borrow().len(),
        "callbacks": e.cb_calls.get(), "shadow_comparisons": e.shadow_checks.get()}))
}

impl Property for C17Prop {
    fn id(&self) -> &'static str {
        "C17"
    }
    fn rule(&self) -> String {
        "A case is a sequence of <= 200 operations (plus <= 4 native-callback scripts of <= 4 operations each) decoded from the choice tape; one operation is one call of an exported tsrun_* function (all 64 are generated) or a small macro around one (answer the import requests / pending orders of the last step result, force a collection, compare host-stored values). \
         Arguments are selectors resolved against the executor's handle table: a live handle of the documented kind, the most recent such handle, any live handle, a handle of a wrong kind, NULL; strings come from fixed tables incl. NULL and non-UTF-8 bytes. Programs are assembled from 22 fragments (orders via tsrun:host, native functions stored as globals, internal and source modules, console, RegExp, promises, throws, allocation bursts) and 21 completion values (plain/frozen/accessor objects, arrays, functions, bound functions, symbols, Map, Proxy, Promise, class instances, generator objects). \
         Non-trivial: >= 10 API calls including a tsrun_step/tsrun_run, a release (value, step result, string, string array or context) and an object crossing the boundary in either direction; distinct by rendered case."
            .into()
    }
    fn assumptions(&self) -> Vec<String> {
        vec![
            "AddressSanitizer (detect_leaks=0) + debug assertions as the memory-safety monitor; aliasing / uninitialised-memory UB that ASan cannot see is out of reach (e.g. native_callback_trampoline creates a second &mut TsRunContext while tsrun_step holds one)".into(),
            "a panic inside an exported function cannot unwind through extern \"C\": the process dies and the supervisor reports the journaled case (not total)".into(),
            "caller obligations the property leaves with the caller are respected by construction: a released handle is never used again, handles are never mixed across contexts, values of a freed context are only released, order payloads and callback arguments (owned by the context / trampoline) are read but never released, a handle passed to an API call in progress is not released by a nested callback, tsrun_step/run/prepare/free/fulfill are not called from inside a native callback, array indices for tsrun_array_set stay <= 64 (the call is documented to grow the array)".into(),
            "shadow model: a value stored with tsrun_set_global / tsrun_set / as an order response is compared (tsrun_json_stringify text) with what is read back only while no operation that can mutate objects of that context (set/delete/array_set/array_push/call/call_method/resolve/reject, also from callbacks) happened in between; the programs never mutate host-provided values".into(),
            "H1 stale-handle log of feature verif-hooks (any event fails the case); H5 override of the collection threshold to force collections at chosen calls".into(),
            "RegExp provider of the harness is a literal-substring matcher that always answers with well-formed offsets; a provider returning offsets outside the input is a host bug outside the property".into(),
        ]
    }
    fn plan(&self, tier: Tier) -> Plan {
        Plan { shards: 16, cases_per_shard: tier.pick(2000, 50000), tape_len: 2048, watchdog_s: tier.pick(1800, 14400) }
    }
    fn generate(&self, tape: &mut Tape, _ctx: &Ctx) -> Value {
        gen_case(tape)
    }
    fn execute(&self, case: &Value, _ctx: &mut Ctx) -> Exec {
        run_case(case)
    }
    fn tolerated_signature(&self, _sig: &str, _ctx: &Ctx) -> bool {
        false
    }
}
