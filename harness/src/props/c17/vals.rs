//! C17 executor, part 3: value creation / inspection / object / array / JSON / release operations.

use super::exec::*;
use super::ops::*;
use serde_json::Value;
use std::ffi::c_char;
use std::ptr;
use tsrun::ffi::TsRunType;

pub const CB_SAFE: [&str; 38] = [
    "undefined", "null", "boolean", "number", "string", "string_len", "object_new", "array_new", "json_parse", "dup", "vfree", "insp",
    "get", "set", "has", "delete", "keys", "array_get", "array_set", "array_push", "stringify", "call", "call_method", "get_global",
    "set_global", "native", "pending_order", "order_promise", "resolve", "reject", "gc_stats", "version", "free_string", "free_strings",
    "gcburst", "get_export", "export_names", "pressure",
];

impl Exe {
    fn finish_new(&self, name: &str, ci: Option<usize>, p: *mut tsrun::ffi::TsRunValue, expect_some: bool, text: Option<String>) {
        if p.is_null() {
            if expect_some {
                self.set_fail("c17:valid-call-rejected", format!("{} returned NULL on valid arguments", name));
            }
            return;
        }
        match ci {
            Some(ci) if !expect_some => {
                self.set_fail("c17:misuse-not-reported", format!("{} returned a value although an argument was NULL / invalid", name));
                let _ = self.reg_val(p, ci, false, 0, false, false, None);
            }
            Some(ci) => {
                let _ = self.reg_val(p, ci, false, 0, false, false, text);
            }
            None => self.set_fail("c17:misuse-not-reported", format!("{} returned a value for a NULL context", name)),
        }
    }

    pub fn op_values(&self, name: &str, o: &[Value]) -> bool {
        match name {
            "undefined" | "null" | "boolean" | "number" => {
                let ci = self.ctx_of(gi(o, 1));
                let c = self.ctx_ptr(ci);
                let p = match name {
                    "undefined" => {
                        self.pre("tsrun_undefined", ci);
                        unsafe { tsrun_undefined(c) }
                    }
                    "null" => {
                        self.pre("tsrun_null", ci);
                        unsafe { tsrun_null(c) }
                    }
                    "boolean" => {
                        self.pre("tsrun_boolean", ci);
                        unsafe { tsrun_boolean(c, gi(o, 2) != 0) }
                    }
                    _ => {
                        self.pre("tsrun_number", ci);
                        unsafe { tsrun_number(c, NUMS[(gi(o, 2).max(0) as usize) % NUMS.len()]) }
                    }
                };
                self.finish_new(name, ci, p, ci.is_some(), None);
            }
            "string" => {
                let ci = self.ctx_of(gi(o, 1));
                let s = CArg::from_table(&STRS, gi(o, 2));
                self.pre("tsrun_string", ci);
                let p = unsafe { tsrun_string(self.ctx_ptr(ci), s.ptr()) };
                self.finish_new("tsrun_string", ci, p, ci.is_some() && s.valid(), s.as_str().map(|x| x.to_string()));
            }
            "string_len" => {
                // [c, idx, lenmode]: 0 whole, 1 prefix at a char boundary, 2 cut inside a multi-byte char, 3 empty, 4 NULL pointer
                let ci = self.ctx_of(gi(o, 1));
                let text = STRS[(gi(o, 2).max(0) as usize) % STRS.len()];
                let bytes = text.as_bytes();
                let mode = gi(o, 3);
                let (p, len, valid): (*const c_char, usize, bool) = match mode {
                    1 => {
                        let mut k = bytes.len() / 2;
                        while !text.is_char_boundary(k) {
                            k -= 1;
                        }
                        (bytes.as_ptr() as *const c_char, k, true)
                    }
                    2 => {
                        // first position that is not a char boundary, if the text has one
                        match (1..bytes.len()).find(|k| !text.is_char_boundary(*k)) {
                            Some(k) => (bytes.as_ptr() as *const c_char, k, false),
                            None => (bytes.as_ptr() as *const c_char, bytes.len(), true),
                        }
                    }
                    3 => (bytes.as_ptr() as *const c_char, 0, true),
                    4 => (ptr::null(), 0, false),
                    _ => (bytes.as_ptr() as *const c_char, bytes.len(), true),
                };
                self.pre("tsrun_string_len", ci);
                let v = unsafe { tsrun_string_len(self.ctx_ptr(ci), p, len) };
                let expect_text = if valid && !p.is_null() { Some(text[..len].to_string()) } else { None };
                self.finish_new("tsrun_string_len", ci, v, ci.is_some() && valid, expect_text);
            }
            "object_new" | "array_new" => {
                let ci = self.ctx_of(gi(o, 1));
                let c = self.ctx_ptr(ci);
                let r = if name == "object_new" {
                    self.pre("tsrun_object_new", ci);
                    unsafe { tsrun_object_new(c) }
                } else {
                    self.pre("tsrun_array_new", ci);
                    unsafe { tsrun_array_new(c) }
                };
                let p = self.check_vr(name, ci, r, if ci.is_some() { Expect::MustOk } else { Expect::MustFail });
                if let Some(ci) = ci {
                    let _ = self.reg_val(p, ci, false, 0, false, false, None);
                }
            }
            "json_parse" => {
                let ci = self.ctx_of(gi(o, 1));
                let idx = gi(o, 2);
                let (arg, ex) = match idx {
                    -1 => (CArg::Null, Expect::MustFail),
                    -2 => (CArg::Bad, Expect::MustFail),
                    i => {
                        let t = JSONS[(i as usize) % JSONS.len()];
                        match t {
                            "@BIG" => (CArg::text(&big_json()), Expect::MustOk),
                            "@NEST" => (CArg::text(&nest_json()), Expect::Either), // serde_json's recursion limit (finding C16-parse-depth-128)
                            _ => (CArg::text(t), if serde_json::from_str::<Value>(t).is_ok() { Expect::MustOk } else { Expect::MustFail }),
                        }
                    }
                };
                self.pre("tsrun_json_parse", ci);
                let r = unsafe { tsrun_json_parse(self.ctx_ptr(ci), arg.ptr()) };
                let p = self.check_vr("tsrun_json_parse", ci, r, if ci.is_some() { ex } else { Expect::MustFail });
                if let Some(ci) = ci {
                    let _ = self.reg_val(p, ci, false, 0, false, false, None);
                }
            }
            "dup" => {
                let ci = self.ctx_of(gi(o, 1));
                let v = self.pick(ci, gi(o, 2), gi(o, 3), Want::Any);
                self.pre("tsrun_value_dup", ci);
                let p = unsafe { tsrun_value_dup(self.ctx_ptr(ci), v.ptr) };
                let (promise, marker, text) = match v.slot {
                    Some(s) => {
                        let vals = self.vals.borrow();
                        (vals[s].promise, vals[s].marker, vals[s].text.clone())
                    }
                    None => (false, false, None),
                };
                if p.is_null() {
                    if ci.is_some() && v.slot.is_some() {
                        self.set_fail("c17:valid-call-rejected", "tsrun_value_dup returned NULL on valid arguments".into());
                    }
                } else if let (Some(ci), Some(src)) = (ci, v.slot) {
                    if let Some(n) = self.reg_val(p, ci, false, 0, promise, marker, text) {
                        let nat = self.vals.borrow()[src].native;
                        self.vals.borrow_mut()[n].native = nat;
                    }
                } else {
                    self.set_fail("c17:misuse-not-reported", "tsrun_value_dup returned a value for a NULL argument".into());
                }
            }
            "vfree" => {
                // [sel, nullmode]: any live handle the host owns, of any context, also of contexts already freed
                if gi(o, 2) == 1 {
                    self.pre("tsrun_value_free", None);
                    unsafe { tsrun_value_free(ptr::null_mut()) };
                    return true;
                }
                let (p, survivor) = {
                    let vals = self.vals.borrow();
                    let pins = self.pins.borrow();
                    let ctxs = self.ctxs.borrow();
                    let cand: Vec<usize> = (0..vals.len()).filter(|i| vals[*i].st == St::Live && !vals[*i].borrowed && !pins.contains(i)).collect();
                    if cand.is_empty() {
                        self.skipped.set(self.skipped.get() + 1);
                        return true;
                    }
                    // prefer survivors of freed contexts now and then: selector's low bit
                    let surv: Vec<usize> = cand.iter().copied().filter(|i| !ctxs[vals[*i].ctx].alive).collect();
                    let sel = gi(o, 1).max(0) as usize;
                    let s = if gi(o, 2) == 2 {
                        *cand.last().unwrap_or(&0)
                    } else if !surv.is_empty() && sel % 2 == 1 { surv[(sel / 2) % surv.len()] } else { cand[(sel / 2) % cand.len()] };
                    drop(vals);
                    let mut vals = self.vals.borrow_mut();
                    vals[s].st = St::Freed;
                    (vals[s].ptr, !ctxs[vals[s].ctx].alive)
                };
                if survivor {
                    self.tag("release:value-after-its-context");
                }
                self.pre("tsrun_value_free", None);
                unsafe { tsrun_value_free(p) };
                self.flags.borrow_mut().had_release = true;
            }
            "insp" => self.op_insp(o),
            "get" | "has" | "delete" => {
                let ci = self.ctx_of(gi(o, 1));
                let obj = self.pick(ci, gi(o, 2), gi(o, 3), Want::Object);
                let key = CArg::from_table(&KEYS, gi(o, 4));
                let valid = ci.is_some() && obj.right && key.valid();
                let c = self.ctx_ptr(ci);
                match name {
                    "get" => {
                        self.pre("tsrun_get", ci);
                        let r = unsafe { tsrun_get(c, obj.ptr, key.ptr()) };
                        let p = self.check_vr("tsrun_get", ci, r, if valid { Expect::MustOk } else { Expect::MustFail });
                        if let Some(ci) = ci {
                            let slot = self.reg_val(p, ci, false, 0, false, false, None);
                            self.note_crossing(slot);
                            // shadow: a property the host stored through this very handle
                            if let (Some(os), Some(k), Some(_)) = (obj.slot, key.as_str(), slot) {
                                let exp = self.ctxs.borrow()[ci].expect_props.get(&(os, k.to_string())).cloned();
                                if let Some(exp) = exp {
                                    let got = self.json_of(ci, p);
                                    self.shadow_compare(&format!("property {:?} set with tsrun_set", k), &exp, got);
                                }
                            }
                        }
                    }
                    "has" => {
                        self.pre("tsrun_has", ci);
                        let r = unsafe { tsrun_has(c, obj.ptr, key.ptr()) };
                        if r && !valid {
                            self.set_fail("c17:misuse-not-reported", "tsrun_has returned true for a NULL / invalid / non-object argument".into());
                        }
                    }
                    _ => {
                        if let Some(ci) = ci {
                            self.mutated(ci);
                        }
                        self.pre("tsrun_delete", ci);
                        let r = unsafe { tsrun_delete(c, obj.ptr, key.ptr()) };
                        self.check_r("tsrun_delete", ci, r, if valid { Expect::MustOk } else { Expect::MustFail });
                    }
                }
            }
            "set" => {
                let ci = self.ctx_of(gi(o, 1));
                let obj = self.pick(ci, gi(o, 2), gi(o, 3), Want::Object);
                let key = CArg::from_table(&KEYS, gi(o, 4));
                let val = self.pick(ci, gi(o, 5), gi(o, 6), Want::Any);
                let valid = ci.is_some() && obj.right && key.valid() && val.slot.is_some();
                if let Some(ci) = ci {
                    self.mutated(ci);
                }
                self.pre("tsrun_set", ci);
                let r = unsafe { tsrun_set(self.ctx_ptr(ci), obj.ptr, key.ptr(), val.ptr) };
                let ok = self.check_r("tsrun_set", ci, r, if valid { Expect::MustOk } else { Expect::MustFail });
                if let (true, Some(ci), Some(os), Some(k)) = (ok && valid, ci, obj.slot, key.as_str()) {
                    self.note_crossing(val.slot);
                    // arrays keep "length"/index keys in their element vector; only plain keys on plain objects are modelled
                    let plain = self.vals.borrow()[os].kind == Kind::Obj && !["length", "__proto__", "0", "1"].contains(&k);
                    if plain {
                        if let Some(j) = self.json_of(ci, val.ptr) {
                            self.ctxs.borrow_mut()[ci].expect_props.insert((os, k.to_string()), j);
                        }
                    }
                }
            }
            "keys" => {
                let ci = self.ctx_of(gi(o, 1));
                let obj = self.pick(ci, gi(o, 2), gi(o, 3), Want::Object);
                let mut count: usize = 0xDEAD;
                let cp: *mut usize = if gi(o, 4) == 1 { ptr::null_mut() } else { &mut count };
                self.pre("tsrun_keys", ci);
                let arr = unsafe { tsrun_keys(self.ctx_ptr(ci), obj.ptr, cp) };
                self.take_string_array("tsrun_keys", arr, if cp.is_null() { None } else { Some(count) }, ci.is_some() && obj.right);
            }
            "array_get" => {
                let ci = self.ctx_of(gi(o, 1));
                let arr = self.pick(ci, gi(o, 2), gi(o, 3), Want::Array);
                let idx = [0usize, 1, 2, 5, 1000, usize::MAX][(gi(o, 4).max(0) as usize) % 6];
                self.pre("tsrun_array_get", ci);
                let r = unsafe { tsrun_array_get(self.ctx_ptr(ci), arr.ptr, idx) };
                let p = self.check_vr("tsrun_array_get", ci, r, if ci.is_some() && arr.right { Expect::MustOk } else { Expect::MustFail });
                if let Some(ci) = ci {
                    let slot = self.reg_val(p, ci, false, 0, false, false, None);
                    self.note_crossing(slot);
                }
            }
            "array_set" | "array_push" => {
                let ci = self.ctx_of(gi(o, 1));
                let arr = self.pick(ci, gi(o, 2), gi(o, 3), Want::Array);
                let val = self.pick(ci, gi(o, 5), gi(o, 6), Want::Any);
                let valid = ci.is_some() && arr.right && val.slot.is_some();
                if let Some(ci) = ci {
                    self.mutated(ci);
                }
                let r = if name == "array_set" {
                    // indices stay small: the call grows the array to index+1 elements (documented), a huge index is an allocation request
                    let idx = [0usize, 1, 3, 17, 64][(gi(o, 4).max(0) as usize) % 5];
                    self.pre("tsrun_array_set", ci);
                    unsafe { tsrun_array_set(self.ctx_ptr(ci), arr.ptr, idx, val.ptr) }
                } else {
                    self.pre("tsrun_array_push", ci);
                    unsafe { tsrun_array_push(self.ctx_ptr(ci), arr.ptr, val.ptr) }
                };
                let ok = self.check_r(name, ci, r, if valid { Expect::MustOk } else { Expect::MustFail });
                if ok && valid {
                    self.note_crossing(val.slot);
                }
            }
            "stringify" => {
                let ci = self.ctx_of(gi(o, 1));
                let v = self.pick(ci, gi(o, 2), gi(o, 3), Want::Any);
                self.pre("tsrun_json_stringify", ci);
                let s = unsafe { tsrun_json_stringify(self.ctx_ptr(ci), v.ptr) };
                if !s.is_null() && (ci.is_none() || v.slot.is_none()) {
                    self.set_fail("c17:misuse-not-reported", "tsrun_json_stringify returned a string for a NULL argument".into());
                }
                if let Some(text) = self.reg_str(s, "the result of tsrun_json_stringify") {
                    if serde_json::from_str::<Value>(&text).is_err() {
                        self.set_fail("c17:stringify-not-json", format!("tsrun_json_stringify produced text that is not JSON: {:?}", text));
                    }
                }
            }
            "free_string" => {
                if gi(o, 2) == 1 {
                    self.pre("tsrun_free_string", None);
                    unsafe { tsrun_free_string(ptr::null_mut()) };
                    return true;
                }
                let cand: Vec<usize> = {
                    let s = self.strs.borrow();
                    (0..s.len()).filter(|i| !s[*i].freed).collect()
                };
                if cand.is_empty() {
                    self.skipped.set(self.skipped.get() + 1);
                    return true;
                }
                self.free_str_slot(cand[(gi(o, 1).max(0) as usize) % cand.len()]);
            }
            "free_strings" => {
                if gi(o, 2) == 1 {
                    self.pre("tsrun_free_strings", None);
                    unsafe { tsrun_free_strings(ptr::null_mut(), 3) };
                    return true;
                }
                let pick = {
                    let a = self.arrs.borrow();
                    let cand: Vec<usize> = (0..a.len()).filter(|i| !a[*i].freed).collect();
                    if cand.is_empty() {
                        None
                    } else {
                        Some(cand[(gi(o, 1).max(0) as usize) % cand.len()])
                    }
                };
                let Some(i) = pick else {
                    self.skipped.set(self.skipped.get() + 1);
                    return true;
                };
                self.free_arr_slot(i);
            }
            "version" => {
                self.pre("tsrun_version", None);
                let p = unsafe { tsrun_version() };
                match read_cstr(p) {
                    Ok(b) if !b.is_empty() => {}
                    other => self.set_fail("c17:string-invalid", format!("tsrun_version: {:?}", other)),
                }
            }
            "gc_stats" => {
                let ci = self.ctx_of(gi(o, 1));
                self.pre("tsrun_gc_stats", ci);
                let s = unsafe { tsrun_gc_stats(self.ctx_ptr(ci)) };
                if s.live_objects + s.pooled_objects != s.total_objects || (ci.is_none() && s.total_objects != 0) {
                    self.set_fail("c17:gc-stats-inconsistent", format!("tsrun_gc_stats: total {} pooled {} live {}", s.total_objects, s.pooled_objects, s.live_objects));
                }
            }
            _ => return false,
        }
        true
    }

    /// a `char**` + count the caller owns
    pub fn take_string_array(&self, name: &str, arr: *mut *mut c_char, count: Option<usize>, valid: bool) {
        if let Some(n) = count {
            if n == 0xDEAD {
                self.set_fail("c17:count-not-written", format!("{} did not write *count_out", name));
                return;
            }
            if (n == 0) != arr.is_null() {
                self.set_fail("c17:inconsistent-string-array", format!("{} returned {} with count {}", name, if arr.is_null() { "NULL" } else { "an array" }, n));
                return;
            }
            if n > 0 && !valid {
                self.set_fail("c17:misuse-not-reported", format!("{} returned {} strings for a NULL / non-object argument", name, n));
            }
            for i in 0..n {
                let s = unsafe { *arr.add(i) };
                if let Err(e) = read_cstr(s) {
                    self.set_fail("c17:string-invalid", format!("{}: element {} of the returned array: {}", name, i, e));
                }
            }
            if n > 0 {
                self.arrs.borrow_mut().push(ArrSlot { ptr: arr, count: n, freed: false });
            }
        }
        // without a count the array cannot be released or even read (its length is unknown): it is leaked
    }
    pub fn free_arr_slot(&self, i: usize) {
        let (p, n) = {
            let mut a = self.arrs.borrow_mut();
            a[i].freed = true;
            (a[i].ptr, a[i].count)
        };
        for k in 0..n {
            let s = unsafe { *p.add(k) };
            if let Err(e) = read_cstr(s) {
                self.set_fail("c17:owned-string-changed", format!("element {} of a caller-owned string array became invalid before release: {}", k, e));
            }
        }
        self.pre("tsrun_free_strings", None);
        unsafe { tsrun_free_strings(p, n) };
        self.flags.borrow_mut().had_release = true;
    }

    fn op_insp(&self, o: &[Value]) {
        // [which, vm, vs, c]
        let ci = self.ctx_of(gi(o, 4));
        let v = self.pick(ci, gi(o, 2), gi(o, 3), Want::Any);
        let p = v.ptr as *const tsrun::ffi::TsRunValue;
        let (kind, text) = match v.slot {
            Some(s) => {
                let vals = self.vals.borrow();
                (Some(vals[s].kind), vals[s].text.clone())
            }
            None => (None, None),
        };
        let bad = |f: &str, got: String| self.set_fail("c17:inspector-wrong", format!("{} on a {:?} handle returned {}", f, kind, got));
        let isk = |ks: &[Kind]| kind.map(|k| ks.contains(&k)).unwrap_or(false);
        match gi(o, 1).rem_euclid(15) {
            0 => {
                self.pre("tsrun_typeof", None);
                let t = unsafe { tsrun_typeof(p) };
                let want = match kind {
                    None | Some(Kind::Undef) => TsRunType::Undefined,
                    Some(Kind::Null) => TsRunType::Null,
                    Some(Kind::Bool) => TsRunType::Boolean,
                    Some(Kind::Num) => TsRunType::Number,
                    Some(Kind::Str) => TsRunType::String,
                    Some(Kind::Sym) => TsRunType::Symbol,
                    Some(_) => TsRunType::Object,
                };
                if t != want {
                    bad("tsrun_typeof", format!("{:?}", t));
                }
            }
            1 => {
                self.pre("tsrun_is_undefined", None);
                let r = unsafe { tsrun_is_undefined(p) };
                if r != (kind.is_none() || isk(&[Kind::Undef])) {
                    bad("tsrun_is_undefined", r.to_string());
                }
            }
            2 => {
                self.pre("tsrun_is_null", None);
                let r = unsafe { tsrun_is_null(p) };
                if r != isk(&[Kind::Null]) {
                    bad("tsrun_is_null", r.to_string());
                }
            }
            3 => {
                self.pre("tsrun_is_nullish", None);
                let r = unsafe { tsrun_is_nullish(p) };
                if r != (kind.is_none() || isk(&[Kind::Undef, Kind::Null])) {
                    bad("tsrun_is_nullish", r.to_string());
                }
            }
            4 => {
                self.pre("tsrun_is_boolean", None);
                let r = unsafe { tsrun_is_boolean(p) };
                if r != isk(&[Kind::Bool]) {
                    bad("tsrun_is_boolean", r.to_string());
                }
            }
            5 => {
                self.pre("tsrun_is_number", None);
                let r = unsafe { tsrun_is_number(p) };
                if r != isk(&[Kind::Num]) {
                    bad("tsrun_is_number", r.to_string());
                }
            }
            6 => {
                self.pre("tsrun_is_string", None);
                let r = unsafe { tsrun_is_string(p) };
                if r != isk(&[Kind::Str]) {
                    bad("tsrun_is_string", r.to_string());
                }
            }
            7 => {
                self.pre("tsrun_is_object", None);
                let r = unsafe { tsrun_is_object(p) };
                if r != isk(&[Kind::Obj, Kind::Arr, Kind::Func]) {
                    bad("tsrun_is_object", r.to_string());
                }
            }
            8 => {
                self.pre("tsrun_is_array", None);
                let r = unsafe { tsrun_is_array(p) };
                if r != isk(&[Kind::Arr]) {
                    bad("tsrun_is_array", r.to_string());
                }
            }
            9 => {
                self.pre("tsrun_is_function", None);
                let r = unsafe { tsrun_is_function(p) };
                if r != isk(&[Kind::Func]) {
                    bad("tsrun_is_function", r.to_string());
                }
            }
            10 => {
                self.pre("tsrun_get_bool", None);
                let r = unsafe { tsrun_get_bool(p) };
                if r && !isk(&[Kind::Bool]) {
                    bad("tsrun_get_bool", r.to_string());
                }
            }
            11 => {
                self.pre("tsrun_get_number", None);
                let r = unsafe { tsrun_get_number(p) };
                if !r.is_nan() && !isk(&[Kind::Num]) {
                    bad("tsrun_get_number", r.to_string());
                }
            }
            12 => {
                self.pre("tsrun_get_string", None);
                let s = unsafe { tsrun_get_string(p) };
                if !s.is_null() && !isk(&[Kind::Str]) {
                    bad("tsrun_get_string", "a string".into());
                }
                let got = self.reg_str(s as *mut c_char, "the result of tsrun_get_string");
                self.pre("tsrun_get_string_len", None);
                let n = unsafe { tsrun_get_string_len(p) };
                if let Some(g) = &got {
                    if g.len() != n {
                        self.set_fail("c17:string-length-mismatch", format!("tsrun_get_string returned {} bytes, tsrun_get_string_len says {}", g.len(), n));
                    }
                }
                if let Some(t) = text {
                    // a string the host built itself: the bytes must come back (NULL only if it has an interior NUL, which the tables never contain)
                    if got.as_deref() != Some(t.as_str()) {
                        self.set_fail("c17:shadow-mismatch", format!("tsrun_get_string of a string built from {:?} returned {:?}", t, got));
                    }
                    self.shadow_checks.set(self.shadow_checks.get() + 1);
                }
            }
            13 => {
                self.pre("tsrun_get_string_len", None);
                let n = unsafe { tsrun_get_string_len(p) };
                if n != 0 && !isk(&[Kind::Str]) {
                    bad("tsrun_get_string_len", n.to_string());
                }
                if let Some(t) = text {
                    if n != t.len() {
                        bad("tsrun_get_string_len", format!("{} for {:?}", n, t));
                    }
                }
            }
            _ => {
                self.pre("tsrun_array_len", None);
                let n = unsafe { tsrun_array_len(p) };
                if n != 0 && !isk(&[Kind::Arr]) {
                    bad("tsrun_array_len", n.to_string());
                }
            }
        }
    }
}
