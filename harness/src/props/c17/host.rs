//! C17 executor, part 5: the host side of callbacks — native functions that re-enter the API,
//! the console callback, a well-behaved RegExp provider (literal substring matcher).

use super::exec::*;
use super::ops::*;
use serde_json::Value;
use std::ffi::{c_char, c_void, CStr};
use std::ptr;
use tsrun::ffi::{TsRunConsoleLevel, TsRunContext, TsRunValue};

const MAX_DEPTH: u32 = 4;

fn cur() -> Option<&'static Exe> {
    let p = CUR.with(|c| c.get());
    if p.is_null() {
        None
    } else {
        Some(unsafe { &*p })
    }
}

/// Native function registered through tsrun_native_function / tsrun_internal_module_add_function.
/// `userdata` is the index (+1) of a callback script of the case: a list of API operations to run
/// on the context, and what to return.
pub extern "C" fn cb_dispatch(ctx: *mut TsRunContext, this_arg: *mut TsRunValue, args: *mut *mut TsRunValue, argc: usize, userdata: *mut c_void, error_out: *mut *const c_char) -> *mut TsRunValue {
    let Some(e) = cur() else { return ptr::null_mut() };
    e.cb_calls.set(e.cb_calls.get() + 1);
    e.tag("callback:entered");
    if error_out.is_null() {
        e.set_fail("c17:callback-arguments", "native callback invoked with error_out == NULL".into());
        return ptr::null_mut();
    }
    let ci = {
        let c = e.ctxs.borrow();
        (0..c.len()).find(|i| c[*i].alive && c[*i].ptr == ctx)
    };
    let Some(ci) = ci else {
        e.set_fail("c17:callback-arguments", "native callback invoked with a context pointer that is not a live context".into());
        return ptr::null_mut();
    };
    if this_arg.is_null() || (argc > 0 && args.is_null()) {
        e.set_fail("c17:callback-arguments", format!("native callback invoked with this={:?} args={:?} argc={}", this_arg, args, argc));
        return ptr::null_mut();
    }
    let depth = e.depth.get() + 1;
    if let Some((d, k)) = e.expect_cb.get() {
        if d == depth {
            e.expect_cb.set(None);
            if (userdata as usize).wrapping_sub(1) != k {
                e.set_fail("c17:wrong-native-callback", format!("tsrun_call on the native function registered with callback script {} entered the callback registered with userdata {}", k, (userdata as usize).wrapping_sub(1)));
            }
        }
    }
    e.depth.set(depth);
    e.cb_ctx.borrow_mut().push(ci);
    // this / args are handles owned by the trampoline, valid until we return: readable, never released
    let mut temps: Vec<usize> = vec![];
    let this_slot = e.reg_val(this_arg, ci, true, depth, false, false, None);
    temps.extend(this_slot);
    let mut arg_slots: Vec<usize> = vec![];
    for k in 0..argc {
        let a = unsafe { *args.add(k) };
        if a.is_null() {
            e.set_fail("c17:callback-arguments", format!("native callback argument {} is NULL", k));
            continue;
        }
        if let Some(s) = e.reg_val(a, ci, true, depth, false, false, None) {
            e.note_crossing(Some(s));
            arg_slots.push(s);
            temps.push(s);
        }
    }
    let spec_idx = (userdata as usize).wrapping_sub(1);
    let spec: Value = e.cbs.get(spec_idx).cloned().unwrap_or(Value::Null);
    if depth <= MAX_DEPTH {
        if let Some(ops) = spec["ops"].as_array() {
            if !ops.is_empty() {
                e.tag("callback:re-entered-the-api");
            }
            for op in ops {
                if e.failed() {
                    break;
                }
                if let Some(o) = op.as_array() {
                    e.exec_op(o);
                }
            }
        }
    }
    // strings the context handed out inside the callback end their life with the outer call's own bookkeeping
    e.check_borrowed(ci);
    let ret = if e.failed() || depth > MAX_DEPTH { 0 } else { spec["ret"].as_i64().unwrap_or(0) };
    let c = e.ctx_ptr(Some(ci));
    let arg0 = arg_slots.first().map(|s| e.vals.borrow()[*s].ptr);
    let mut out: *mut TsRunValue = ptr::null_mut();
    match ret {
        1 => {
            e.pre("tsrun_number", Some(ci));
            out = unsafe { tsrun_number(c, argc as f64) };
        }
        2 | 10 => {
            let src = if ret == 2 { arg0.unwrap_or(this_arg) } else { this_arg };
            e.pre("tsrun_value_dup", Some(ci));
            out = unsafe { tsrun_value_dup(c, src) };
        }
        3 => {
            e.pre("tsrun_array_new", Some(ci));
            let r = unsafe { tsrun_array_new(c) };
            let arr = e.check_vr("tsrun_array_new", Some(ci), r, Expect::MustOk);
            if !arr.is_null() {
                for s in &arg_slots {
                    let p = e.vals.borrow()[*s].ptr;
                    e.pre("tsrun_array_push", Some(ci));
                    let r = unsafe { tsrun_array_push(c, arr, p) };
                    e.check_r("tsrun_array_push", Some(ci), r, Expect::MustOk);
                }
                e.flags.borrow_mut().obj_crossed = true;
            }
            out = arr;
        }
        4 => unsafe { *error_out = c"native says no".as_ptr() },
        9 => unsafe { *error_out = NOT_UTF8.as_ptr() as *const c_char },
        8 => {
            unsafe { *error_out = c"error and value".as_ptr() };
            e.pre("tsrun_number", Some(ci));
            out = unsafe { tsrun_number(c, 1.0) }; // ignored (and leaked) by the trampoline: the error wins
        }
        5 => {
            // suspend the script on a host order; the payload carries the tag the script files the answer under
            // payload: the script's own first argument when it is an object (it names the global the answer goes to), else a fresh object
            let arg0_obj = arg_slots.first().map(|s| e.vals.borrow()[*s].kind == Kind::Obj).unwrap_or(false);
            let payload = if arg0_obj {
                e.pre("tsrun_value_dup", Some(ci));
                unsafe { tsrun_value_dup(c, arg0.unwrap_or(ptr::null_mut())) }
            } else {
                let t = Exe::cstring("{\"from\":\"native\"}");
                e.pre("tsrun_json_parse", Some(ci));
                let r = unsafe { tsrun_json_parse(c, t.as_ptr()) };
                e.check_vr("tsrun_json_parse", Some(ci), r, Expect::MustOk)
            };
            let mut id: u64 = 0;
            e.pre("tsrun_create_pending_order", Some(ci));
            let r = unsafe { tsrun_create_pending_order(c, payload, &mut id) };
            out = e.check_vr("tsrun_create_pending_order", Some(ci), r, Expect::MustOk);
            if !payload.is_null() {
                e.pre("tsrun_value_free", None);
                unsafe { tsrun_value_free(payload) };
            }
            e.tag("callback:returned-pending-order");
        }
        6 => {
            // higher-order: call arg0 (if it is a function) with the remaining arguments
            let is_fn = arg_slots.first().map(|s| e.vals.borrow()[*s].kind == Kind::Func).unwrap_or(false);
            if is_fn && depth < MAX_DEPTH {
                let mut rest: Vec<*mut TsRunValue> = arg_slots.iter().skip(1).map(|s| e.vals.borrow()[*s].ptr).collect();
                e.mutated(ci);
                e.pre("tsrun_call", Some(ci));
                let r = unsafe { tsrun_call(c, arg0.unwrap_or(ptr::null_mut()), this_arg, rest.as_mut_ptr(), rest.len()) };
                let p = e.check_vr("tsrun_call", Some(ci), r, Expect::Either);
                if p.is_null() {
                    unsafe { *error_out = c"callee failed".as_ptr() };
                } else {
                    out = p;
                }
                e.tag("callback:called-back-into-tsrun_call");
            }
        }
        11 => {
            // re-enter through tsrun_call_method: arg0.f(rest...) when arg0 is an object (the programs pass objects with a script method f)
            let is_obj = arg_slots.first().map(|s| e.is_objectish(*s)).unwrap_or(false);
            if is_obj && depth < MAX_DEPTH {
                let mut rest: Vec<*mut TsRunValue> = arg_slots.iter().skip(1).map(|s| e.vals.borrow()[*s].ptr).collect();
                let m = Exe::cstring(if spec["sel"].as_u64().unwrap_or(0) % 4 == 3 { "toString" } else { "f" });
                e.mutated(ci);
                e.pre("tsrun_call_method", Some(ci));
                let r = unsafe { tsrun_call_method(c, arg0.unwrap_or(ptr::null_mut()), m.as_ptr(), rest.as_mut_ptr(), rest.len()) };
                // "f is not a function" is a legitimate answer for objects without that method
                out = e.check_vr("tsrun_call_method", Some(ci), r, Expect::Either);
                e.tag("callback:re-entered-through-tsrun_call_method");
            }
        }
        7 => {
            // hand a handle of the host's own pool over to the interpreter (the trampoline takes ownership)
            let pick = {
                let vals = e.vals.borrow();
                let pins = e.pins.borrow();
                let cand: Vec<usize> = (0..vals.len()).filter(|i| vals[*i].st == St::Live && vals[*i].ctx == ci && !vals[*i].borrowed && !pins.contains(i)).collect();
                cand.get(spec["sel"].as_u64().unwrap_or(0) as usize % cand.len().max(1)).copied()
            };
            if let Some(s) = pick {
                let mut vals = e.vals.borrow_mut();
                vals[s].st = St::Moved;
                out = vals[s].ptr;
                drop(vals);
                e.note_crossing(Some(s));
            }
        }
        _ => {}
    }
    // the trampoline releases this/args after we return: they are gone for the table
    {
        let mut vals = e.vals.borrow_mut();
        for s in temps {
            vals[s].st = St::Freed;
        }
    }
    e.check_borrowed(ci);
    e.cb_ctx.borrow_mut().pop();
    e.depth.set(depth - 1);
    out
}

pub extern "C" fn console_cb(level: TsRunConsoleLevel, message: *const c_char, len: usize, _userdata: *mut c_void) {
    let Some(e) = cur() else { return };
    e.console_calls.set(e.console_calls.get() + 1);
    if message.is_null() {
        e.set_fail("c17:console-arguments", "console callback invoked with a NULL message".into());
        return;
    }
    // not NUL-terminated by contract: exactly `len` bytes are readable
    let bytes = unsafe { std::slice::from_raw_parts(message as *const u8, len) };
    if std::str::from_utf8(bytes).is_err() {
        e.set_fail("c17:string-invalid", format!("console message is not UTF-8: {:?}", String::from_utf8_lossy(bytes)));
    }
    if level == TsRunConsoleLevel::Clear && len != 0 {
        e.set_fail("c17:console-arguments", "console clear with a non-empty message".into());
    }
}

// ---------------------------------------------------------------------------------------------
// RegExp provider: patterns are matched as literal text (metacharacters dropped); answers are
// always well-formed (offsets on char boundaries inside the input)
// ---------------------------------------------------------------------------------------------
struct RxHandle {
    needle: String,
}

extern "C" fn rx_compile(_ud: *mut c_void, pattern: *const c_char, flags: *const c_char, error_out: *mut *const c_char) -> *mut c_void {
    let Some(e) = cur() else { return ptr::null_mut() };
    e.rx_calls.set(e.rx_calls.get() + 1);
    let (Ok(p), Ok(_f)) = (read_cstr(pattern), read_cstr(flags)) else {
        e.set_fail("c17:string-invalid", "regexp compile callback got a pattern/flags string that is not valid NUL-terminated UTF-8".into());
        return ptr::null_mut();
    };
    let p = String::from_utf8_lossy(&p).to_string();
    if p.contains("zz") {
        if !error_out.is_null() {
            unsafe { *error_out = c"provider refuses zz".as_ptr() };
        }
        return ptr::null_mut();
    }
    let mut needle: String = p.chars().filter(|c| !"\\()[]{}+*?^$.|".contains(*c)).collect();
    if needle.is_empty() {
        needle.push('a');
    }
    Box::into_raw(Box::new(RxHandle { needle })) as *mut c_void
}
fn rx_input<'a>(e: &Exe, input: *const c_char, len: usize) -> Option<&'a str> {
    if input.is_null() {
        e.set_fail("c17:regexp-arguments", "regexp callback got a NULL input".into());
        return None;
    }
    let b = unsafe { std::slice::from_raw_parts(input as *const u8, len) };
    match std::str::from_utf8(b) {
        Ok(s) => Some(s),
        Err(_) => {
            e.set_fail("c17:string-invalid", "regexp callback input is not UTF-8".into());
            None
        }
    }
}
extern "C" fn rx_is_match(_ud: *mut c_void, h: *mut c_void, input: *const c_char, len: usize, _err: *mut *const c_char) -> i32 {
    let Some(e) = cur() else { return 0 };
    e.rx_calls.set(e.rx_calls.get() + 1);
    if h.is_null() {
        e.set_fail("c17:regexp-arguments", "regexp is_match callback got a NULL handle".into());
        return -1;
    }
    let Some(s) = rx_input(e, input, len) else { return -1 };
    let hd = unsafe { &*(h as *const RxHandle) };
    s.contains(hd.needle.as_str()) as i32
}
fn rx_find_impl(caps: bool, h: *mut c_void, input: *const c_char, len: usize, start: usize, m: *mut RxMatch) -> i32 {
    let Some(e) = cur() else { return 0 };
    e.rx_calls.set(e.rx_calls.get() + 1);
    if h.is_null() || m.is_null() {
        e.set_fail("c17:regexp-arguments", "regexp find callback got a NULL handle / match_out".into());
        return -1;
    }
    let Some(s) = rx_input(e, input, len) else { return -1 };
    if start > s.len() || !s.is_char_boundary(start) {
        return 0;
    }
    let hd = unsafe { &*(h as *const RxHandle) };
    match s[start..].find(hd.needle.as_str()) {
        None => 0,
        Some(k) => {
            let (a, b) = (start + k, start + k + hd.needle.len());
            unsafe {
                (*m).start = a;
                (*m).end = b;
                if caps {
                    let v = vec![RxCapture { start: a as isize, end: b as isize }, RxCapture { start: -1, end: -1 }].into_boxed_slice();
                    (*m).capture_count = 2;
                    (*m).captures = Box::into_raw(v) as *mut RxCapture;
                } else {
                    (*m).capture_count = 0;
                    (*m).captures = ptr::null_mut();
                }
            }
            1
        }
    }
}
extern "C" fn rx_find(_ud: *mut c_void, h: *mut c_void, input: *const c_char, len: usize, start: usize, m: *mut RxMatch, _err: *mut *const c_char) -> i32 {
    rx_find_impl(true, h, input, len, start, m)
}
extern "C" fn rx_find_nocaps(_ud: *mut c_void, h: *mut c_void, input: *const c_char, len: usize, start: usize, m: *mut RxMatch, _err: *mut *const c_char) -> i32 {
    rx_find_impl(false, h, input, len, start, m)
}
extern "C" fn rx_free(_ud: *mut c_void, h: *mut c_void) {
    if !h.is_null() {
        // a handle released twice is an AddressSanitizer report
        unsafe { drop(Box::from_raw(h as *mut RxHandle)) };
    }
}
extern "C" fn rx_free_caps(_ud: *mut c_void, caps: *mut RxCapture, count: usize) {
    if !caps.is_null() {
        unsafe { drop(Box::from_raw(std::ptr::slice_from_raw_parts_mut(caps, count))) };
    }
}

pub struct SyncCallbacks(pub RxCallbacks);
unsafe impl Sync for SyncCallbacks {}
pub static RX_FULL: SyncCallbacks = SyncCallbacks(RxCallbacks { compile: rx_compile, is_match: rx_is_match, find: rx_find, free: rx_free, free_captures: Some(rx_free_caps), userdata: ptr::null_mut() });
pub static RX_NOCAPS: SyncCallbacks = SyncCallbacks(RxCallbacks { compile: rx_compile, is_match: rx_is_match, find: rx_find_nocaps, free: rx_free, free_captures: None, userdata: ptr::null_mut() });

#[allow(dead_code)]
fn _unused(_: &CStr) {}
