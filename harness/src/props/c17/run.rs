//! C17 executor, part 4: context lifecycle, execution (prepare/step/run), modules, orders, promises,
//! calls, globals, native functions, internal modules, forced collections; the op dispatcher.

use super::exec::*;
use super::host::{cb_dispatch, console_cb, RX_FULL, RX_NOCAPS};
use super::ops::*;
use super::vals::CB_SAFE;
use serde_json::Value;
use std::ffi::c_void;
use std::ptr;
use tsrun::ffi::{TsRunOrderResponse, TsRunStepResult, TsRunStepStatus, TsRunValue};

pub fn module_source(path: &str, style: i64) -> String {
    if style == 1 {
        return "export const dv = ;".into();
    }
    if path.contains("dep1") {
        "import { dv } from \"./dep0\"; export const dw = [dv, dv]; export const dv2 = dv;".into()
    } else if path.contains("dep0") {
        "export const dv = {a: 1, l: [1, 2, {z: \"é\"}]}; export function df(x: any) { return [x]; } export default 5;".into()
    } else {
        "export const f0 = (x: any) => [x]; export const v0 = {k: 7}; export const f1 = f0; export const dv = 1; export default 2;".into()
    }
}

impl Exe {
    pub fn run_ops(&self, ops: &[Value]) {
        for (i, op) in ops.iter().enumerate() {
            if self.failed() {
                break;
            }
            if self.depth.get() == 0 {
                self.cur_op.set(i);
            }
            let Some(o) = op.as_array() else { continue };
            self.exec_op(o);
            self.check_stale();
        }
    }

    pub fn check_stale(&self) {
        let now = tsrun::verif_hooks::stale_total();
        if now != self.stale0.get() {
            self.stale0.set(now);
            let log = tsrun::verif_hooks::take_stale();
            let first = log.keys().next().cloned().unwrap_or_default();
            // signature: the operation and the first frame only (stable under shrinking)
            let short: String = first.split(" < ").next().unwrap_or("").chars().take(120).collect();
            self.set_fail(&format!("c17:stale-handle {}", short), format!("the interpreter used a handle whose object had been collected (slot pooled or re-used): {:?}", log));
        }
    }

    pub fn exec_op(&self, o: &[Value]) {
        let name = gs(o, 0).to_string();
        if self.depth.get() > 0 && !CB_SAFE.contains(&name.as_str()) {
            self.skipped.set(self.skipped.get() + 1);
            return;
        }
        if self.depth.get() == 0 {
            *self.cur_name.borrow_mut() = name.clone();
        }
        if self.trace {
            eprintln!("C17 trace: depth {} op {:?}", self.depth.get(), o);
        }
        let mark = self.pins.borrow().len();
        if !self.op_values(&name, o) && !self.op_exec(&name, o) {
            self.set_fail("c17:harness-unknown-op", format!("unknown op {:?}", name));
        }
        self.pins.borrow_mut().truncate(mark);
    }

    fn new_step_box() -> *mut TsRunStepResult {
        Box::into_raw(Box::new(TsRunStepResult::default()))
    }

    /// tsrun_step / tsrun_run with a real out pointer; returns the status
    pub fn do_step(&self, ci: Option<usize>, run: bool) -> TsRunStepStatus {
        let b = Self::new_step_box();
        if let Some(i) = ci {
            self.ctxs.borrow_mut()[i].stepping += 1;
        }
        if run {
            self.pre("tsrun_run", ci);
            unsafe { tsrun_run(b, self.ctx_ptr(ci)) };
        } else {
            self.pre("tsrun_step", ci);
            unsafe { tsrun_step(b, self.ctx_ptr(ci)) };
        }
        if let Some(i) = ci {
            self.ctxs.borrow_mut()[i].stepping -= 1;
        }
        self.flags.borrow_mut().had_step = true;
        let st = self.validate_step(ci, b, if run { "tsrun_run" } else { "tsrun_step" });
        if let (Some(i), true) = (ci, matches!(st, TsRunStepStatus::Complete | TsRunStepStatus::Suspended)) {
            self.check_script_errors(i);
        }
        st
    }

    /// The programs catch what a native call throws and file it under __e0..__e5: a trampoline-internal
    /// error there means a legitimate native call failed (checked once natives have been entered).
    pub fn check_script_errors(&self, ci: usize) {
        if self.cb_calls.get() == 0 || self.depth.get() > 0 {
            return;
        }
        for name in ["__e0", "__e1", "__e2", "__e3", "__e4", "__e5"] {
            if self.failed() {
                return;
            }
            let n = Exe::cstring(name);
            self.pre("tsrun_get_global", Some(ci));
            let r = unsafe { tsrun_get_global(self.ctx_ptr(Some(ci)), n.as_ptr()) };
            let p = self.check_vr("tsrun_get_global", Some(ci), r, Expect::MustOk);
            if p.is_null() {
                continue;
            }
            self.pre("tsrun_get_string", None);
            let s = unsafe { tsrun_get_string(p) };
            if let Some(t) = self.reg_str(s as *mut std::ffi::c_char, "the result of tsrun_get_string") {
                let last = self.strs.borrow().len() - 1;
                self.free_str_slot(last);
                self.check_internal_error(&t, &format!("caught by the script, global {}", name));
            }
            self.pre("tsrun_value_free", None);
            unsafe { tsrun_value_free(p) };
        }
    }

    fn validate_step(&self, ci: Option<usize>, b: *mut TsRunStepResult, name: &str) -> TsRunStepStatus {
        let r = unsafe { &*b };
        let status = r.status;
        let nothing_else = |keep_value: bool, keep_imports: bool, keep_orders: bool, keep_error: bool| {
            let mut bad = vec![];
            if !keep_value && !r.value.is_null() {
                bad.push("value");
            }
            if !keep_imports && (!r.imports.is_null() || r.import_count != 0) {
                bad.push("imports");
            }
            if !keep_orders && (!r.pending_orders.is_null() || r.pending_count != 0 || !r.cancelled_orders.is_null() || r.cancelled_count != 0) {
                bad.push("orders");
            }
            if !keep_error && !r.error.is_null() {
                bad.push("error");
            }
            if !bad.is_empty() {
                self.set_fail("c17:inconsistent-step-result", format!("{}: status {:?} but fields {:?} are set", name, status, bad));
            }
        };
        match status {
            TsRunStepStatus::Continue | TsRunStepStatus::Done => nothing_else(false, false, false, false),
            TsRunStepStatus::Complete => {
                nothing_else(true, false, false, false);
                if r.value.is_null() {
                    self.set_fail("c17:inconsistent-step-result", format!("{}: status Complete with a NULL value", name));
                } else if let Some(i) = ci {
                    let slot = self.reg_val(r.value, i, false, 0, false, false, None);
                    self.note_crossing(slot);
                    self.tag("step:complete");
                }
            }
            TsRunStepStatus::Error => {
                nothing_else(false, false, false, true);
                if r.error.is_null() {
                    self.set_fail("c17:inconsistent-step-result", format!("{}: status Error with a NULL error string", name));
                } else {
                    let _ = self.borrowed_str(ci, r.error, &format!("the error string of {}", name));
                    self.tag("step:error");
                }
                if let Some(i) = ci {
                    // the run is over: nothing of it can be answered any more
                    let mut c = self.ctxs.borrow_mut();
                    c[i].pending.clear();
                    c[i].wanted.clear();
                }
            }
            TsRunStepStatus::NeedImports => {
                nothing_else(false, true, false, false);
                if r.imports.is_null() || r.import_count == 0 {
                    self.set_fail("c17:inconsistent-step-result", format!("{}: status NeedImports without import requests", name));
                } else {
                    self.tag("step:need-imports");
                    for k in 0..r.import_count {
                        let q = unsafe { &*r.imports.add(k) };
                        let spec = read_cstr(q.specifier);
                        let path = read_cstr(q.resolved_path);
                        if let Err(e) = &spec {
                            self.set_fail("c17:string-invalid", format!("{}: import request {} specifier: {}", name, k, e));
                        }
                        match path {
                            Ok(p) => {
                                if let Some(i) = ci {
                                    let p = String::from_utf8_lossy(&p).to_string();
                                    let mut c = self.ctxs.borrow_mut();
                                    if !c[i].wanted.contains(&p) {
                                        c[i].wanted.push(p);
                                    }
                                }
                            }
                            Err(e) => self.set_fail("c17:string-invalid", format!("{}: import request {} resolved_path: {}", name, k, e)),
                        }
                        if !q.importer.is_null() {
                            if let Err(e) = read_cstr(q.importer) {
                                self.set_fail("c17:string-invalid", format!("{}: import request {} importer: {}", name, k, e));
                            }
                        }
                    }
                }
            }
            TsRunStepStatus::Suspended => {
                nothing_else(false, false, true, false);
                self.tag("step:suspended");
                if (r.pending_count > 0) == r.pending_orders.is_null() || (r.cancelled_count > 0) == r.cancelled_orders.is_null() {
                    self.set_fail("c17:inconsistent-step-result", format!("{}: Suspended with count/pointer mismatch (pending {} cancelled {})", name, r.pending_count, r.cancelled_count));
                } else if let Some(i) = ci {
                    for k in 0..r.pending_count {
                        let ord = unsafe { &*r.pending_orders.add(k) };
                        if ord.payload.is_null() {
                            self.set_fail("c17:inconsistent-step-result", format!("{}: pending order {} has a NULL payload", name, ord.id));
                            continue;
                        }
                        // the payload belongs to the context: the host reads it, never releases it
                        if let Some(slot) = self.reg_val(ord.payload, i, true, 0, false, false, None) {
                            self.note_crossing(Some(slot));
                            let mut c = self.ctxs.borrow_mut();
                            c[i].pending.push((ord.id, slot));
                            c[i].last_order_id = c[i].last_order_id.max(ord.id);
                        }
                    }
                    for k in 0..r.cancelled_count {
                        let id = unsafe { *r.cancelled_orders.add(k) };
                        self.ctxs.borrow_mut()[i].pending.retain(|p| p.0 != id);
                    }
                }
            }
        }
        if ci.is_none() && status != TsRunStepStatus::Error {
            self.set_fail("c17:misuse-not-reported", format!("{} with a NULL context returned status {:?}", name, status));
        }
        self.steps.borrow_mut().push(StepSlot { b, ctx: ci.unwrap_or(usize::MAX), freed: false });
        status
    }

    pub fn free_step_slot(&self, i: usize, twice: bool) {
        let b = {
            let mut s = self.steps.borrow_mut();
            s[i].freed = true;
            s[i].b
        };
        // strings of import requests belong to the step result until now
        {
            let r = unsafe { &*b };
            if !r.imports.is_null() {
                for k in 0..r.import_count {
                    let q = unsafe { &*r.imports.add(k) };
                    if read_cstr(q.specifier).is_err() || read_cstr(q.resolved_path).is_err() {
                        self.set_fail("c17:owned-string-changed", "an import request string became invalid before tsrun_step_result_free".into());
                    }
                }
            }
        }
        for _ in 0..(if twice { 2 } else { 1 }) {
            self.pre("tsrun_step_result_free", None);
            unsafe { tsrun_step_result_free(b) };
            let r = unsafe { &*b };
            if !r.imports.is_null() || !r.pending_orders.is_null() || !r.cancelled_orders.is_null() || r.import_count + r.pending_count + r.cancelled_count != 0 {
                self.set_fail("c17:step-result-not-cleared", "tsrun_step_result_free left array fields set".into());
            }
        }
        unsafe { drop(Box::from_raw(b)) };
        self.flags.borrow_mut().had_release = true;
    }

    /// force a collection inside the next allocation of context `ci` (H5 override armed around one tsrun_object_new)
    pub fn force_gc(&self, ci: usize, pure_api: bool) {
        let c = self.ctx_ptr(Some(ci));
        if pure_api {
            // more than the default threshold of net allocations inside one call
            let big = Exe::cstring(&big_json());
            self.pre("tsrun_json_parse", Some(ci));
            let r = unsafe { tsrun_json_parse(c, big.as_ptr()) };
            let p = self.check_vr("tsrun_json_parse", Some(ci), r, Expect::MustOk);
            if !p.is_null() {
                self.pre("tsrun_value_free", None);
                unsafe { tsrun_value_free(p) };
            }
        } else {
            tsrun::verif_hooks::gc_threshold_override_set(1);
            self.pre("tsrun_object_new", Some(ci));
            let r = unsafe { tsrun_object_new(c) };
            tsrun::verif_hooks::gc_threshold_override_set(self.pressure.get());
            let p = self.check_vr("tsrun_object_new", Some(ci), r, Expect::MustOk);
            if !p.is_null() {
                self.pre("tsrun_value_free", None);
                unsafe { tsrun_value_free(p) };
            }
        }
        self.tag("gc:forced");
    }

    fn collect_args(&self, ci: Option<usize>, o: &[Value], from: usize) -> (Vec<*mut TsRunValue>, Vec<Option<usize>>) {
        let n = gi(o, from).clamp(0, 4) as usize;
        let mut ptrs = vec![];
        let mut slots = vec![];
        for k in 0..n {
            let a = self.pick(ci, gi(o, from + 1 + 2 * k), gi(o, from + 2 + 2 * k), Want::Any);
            self.pin(&a);
            ptrs.push(a.ptr);
            slots.push(a.slot);
        }
        (ptrs, slots)
    }

    pub fn op_exec(&self, name: &str, o: &[Value]) -> bool {
        match name {
            "new" => {
                if self.ctxs.borrow().iter().filter(|c| c.alive).count() >= 3 {
                    self.skipped.set(self.skipped.get() + 1);
                    return true;
                }
                self.pre("tsrun_new", None);
                let p = unsafe { tsrun_new() };
                if p.is_null() {
                    self.set_fail("c17:valid-call-rejected", "tsrun_new returned NULL".into());
                    return true;
                }
                self.ctxs.borrow_mut().push(CtxSlot { ptr: p, alive: true, borrowed: vec![], pending: vec![], wanted: vec![], expect_globals: Default::default(), expect_props: Default::default(), last_order_id: 0, stepping: 0 });
            }
            "free" => {
                let ci = self.ctx_of(gi(o, 1));
                match ci {
                    None => {
                        self.pre("tsrun_free", None);
                        unsafe { tsrun_free(ptr::null_mut()) };
                    }
                    Some(i) => {
                        if self.ctxs.borrow()[i].stepping > 0 {
                            return true;
                        }
                        self.pre("tsrun_free", Some(i));
                        let p = self.ctx_ptr(ci);
                        {
                            let mut c = self.ctxs.borrow_mut();
                            c[i].alive = false;
                            c[i].borrowed.clear();
                            c[i].pending.clear();
                        }
                        if self.vals.borrow().iter().any(|v| v.ctx == i && v.st == St::Live && !v.borrowed) {
                            self.tag("release:context-before-its-values");
                        }
                        if self.steps.borrow().iter().any(|s| s.ctx == i && !s.freed) {
                            self.tag("release:context-before-its-step-results");
                        }
                        unsafe { tsrun_free(p) };
                        self.flags.borrow_mut().had_release = true;
                    }
                }
            }
            "set_console" => {
                let ci = self.ctx_of(gi(o, 1));
                self.pre("tsrun_set_console", ci);
                let f = if gi(o, 2) == 0 { None } else { Some(console_cb as tsrun::ffi::TsRunConsoleFn) };
                let r = unsafe { tsrun_set_console(self.ctx_ptr(ci), f, ptr::null_mut()) };
                self.check_r("tsrun_set_console", ci, r, if ci.is_some() { Expect::MustOk } else { Expect::MustFail });
            }
            "set_regexp" => {
                let ci = self.ctx_of(gi(o, 1));
                self.pre("tsrun_set_regexp_provider", ci);
                let cbs: *const RxCallbacks = match gi(o, 2) {
                    1 => ptr::null(),
                    2 => &RX_NOCAPS.0,
                    _ => &RX_FULL.0,
                };
                let r = unsafe { tsrun_set_regexp_provider(self.ctx_ptr(ci), cbs) };
                self.check_r("tsrun_set_regexp_provider", ci, r, if ci.is_some() && !cbs.is_null() { Expect::MustOk } else { Expect::MustFail });
            }
            "prepare" => {
                // [c, srcmode, pathmode, src]
                let ci = self.ctx_of(gi(o, 1));
                let code = match gi(o, 2) {
                    1 => CArg::Null,
                    2 => CArg::Bad,
                    _ => CArg::text(gs(o, 4)),
                };
                let path = CArg::from_table(&PATHS, gi(o, 3));
                self.pre("tsrun_prepare", ci);
                let r = unsafe { tsrun_prepare(self.ctx_ptr(ci), code.ptr(), path.ptr()) };
                self.check_r("tsrun_prepare", ci, r, if ci.is_some() && code.valid() { Expect::Either } else { Expect::MustFail });
                if let Some(i) = ci {
                    let mut c = self.ctxs.borrow_mut();
                    c[i].pending.clear();
                    c[i].wanted.clear();
                    // answers of the previous run's orders are not going to be filed any more
                    c[i].expect_globals.retain(|k, _| !k.starts_with("__"));
                }
            }
            "step" | "run" => {
                let ci = self.ctx_of(gi(o, 1));
                if gi(o, 2) == 1 {
                    // NULL out pointer: documented as a no-op
                    if name == "run" {
                        self.pre("tsrun_run", ci);
                        unsafe { tsrun_run(ptr::null_mut(), self.ctx_ptr(ci)) };
                    } else {
                        self.pre("tsrun_step", ci);
                        unsafe { tsrun_step(ptr::null_mut(), self.ctx_ptr(ci)) };
                    }
                    return true;
                }
                self.do_step(ci, name == "run");
            }
            "stepn" => {
                let ci = self.ctx_of(gi(o, 1));
                for _ in 0..gi(o, 2).clamp(1, 60) {
                    let st = self.do_step(ci, false);
                    if st != TsRunStepStatus::Continue || self.failed() {
                        break;
                    }
                    let last = self.steps.borrow().len() - 1;
                    self.free_step_slot(last, false);
                }
            }
            "stepfree" => {
                if gi(o, 2) == 1 {
                    self.pre("tsrun_step_result_free", None);
                    unsafe { tsrun_step_result_free(ptr::null_mut()) };
                    return true;
                }
                let pick = {
                    let s = self.steps.borrow();
                    let cand: Vec<usize> = (0..s.len()).filter(|i| !s[*i].freed).collect();
                    if cand.is_empty() {
                        None
                    } else {
                        Some(cand[(gi(o, 1).max(0) as usize) % cand.len()])
                    }
                };
                match pick {
                    Some(i) => {
                        let (ctx, has_value) = {
                            let s = self.steps.borrow();
                            (s[i].ctx, unsafe { !(*s[i].b).value.is_null() })
                        };
                        if has_value {
                            let vals = self.vals.borrow();
                            let b = self.steps.borrow()[i].b;
                            let vp = unsafe { (*b).value };
                            if vals.iter().any(|v| v.ptr == vp && v.st == St::Freed) {
                                drop(vals);
                                self.tag("release:step-result-after-its-value");
                            } else {
                                drop(vals);
                                self.tag("release:step-result-before-its-value");
                            }
                        }
                        if ctx != usize::MAX && !self.ctxs.borrow()[ctx].alive {
                            self.tag("release:step-result-after-its-context");
                        }
                        self.free_step_slot(i, gi(o, 2) == 2);
                    }
                    None => self.skipped.set(self.skipped.get() + 1),
                }
            }
            "respond" => {
                // answer the import requests of the context: [c, style] 0 sources, 1 a source with a syntax error, 2 NULL code, 3 some other path
                let Some(i) = self.ctx_of(gi(o, 1)) else { return true };
                let wanted = std::mem::take(&mut self.ctxs.borrow_mut()[i].wanted);
                let style = gi(o, 2);
                for w in wanted {
                    let path = if style == 3 { CArg::text("/nobody-asked.ts") } else { CArg::text(&w) };
                    let code = if style == 2 { CArg::Null } else { CArg::text(&module_source(&w, style)) };
                    self.pre("tsrun_provide_module", Some(i));
                    let r = unsafe { tsrun_provide_module(self.ctx_ptr(Some(i)), path.ptr(), code.ptr()) };
                    self.check_r("tsrun_provide_module", Some(i), r, if style == 2 { Expect::MustFail } else { Expect::Either });
                }
            }
            "provide" => {
                let ci = self.ctx_of(gi(o, 1));
                let path = CArg::from_table(&PATHS, gi(o, 2));
                let code = match gi(o, 3) {
                    -1 => CArg::Null,
                    -2 => CArg::Bad,
                    k => CArg::text(&module_source(PATHS[(k as usize) % PATHS.len()], if k > 8 { 1 } else { 0 })),
                };
                self.pre("tsrun_provide_module", ci);
                let r = unsafe { tsrun_provide_module(self.ctx_ptr(ci), path.ptr(), code.ptr()) };
                self.check_r("tsrun_provide_module", ci, r, if ci.is_some() && path.valid() && code.valid() { Expect::Either } else { Expect::MustFail });
            }
            "fulfill" => self.op_fulfill(o),
            "probe" => {
                let Some(i) = self.ctx_of(gi(o, 1)) else { return true };
                let exp: Vec<(String, String)> = self.ctxs.borrow()[i].expect_globals.iter().map(|(k, v)| (k.clone(), v.clone())).collect();
                for (name, json) in exp {
                    if self.failed() {
                        break;
                    }
                    let n = Exe::cstring(&name);
                    self.pre("tsrun_get_global", Some(i));
                    let r = unsafe { tsrun_get_global(self.ctx_ptr(Some(i)), n.as_ptr()) };
                    let p = self.check_vr("tsrun_get_global", Some(i), r, Expect::MustOk);
                    if p.is_null() {
                        continue;
                    }
                    self.pre("tsrun_is_undefined", None);
                    let undef = unsafe { tsrun_is_undefined(p) };
                    if !undef || !name.starts_with("__") {
                        // "__<tag>" slots are filled by the script once it received the order response
                        let got = self.json_of(i, p);
                        self.shadow_compare(&format!("global {:?}", name), &json, got);
                        if name.starts_with("__") {
                            self.ctxs.borrow_mut()[i].expect_globals.remove(&name);
                            self.tag("shadow:order-response-read-back");
                        }
                    }
                    self.pre("tsrun_value_free", None);
                    unsafe { tsrun_value_free(p) };
                }
            }
            "call" => {
                // [c, fm, fs, tm, ts, argsnull, n, (am, as)*n]
                let ci = self.ctx_of(gi(o, 1));
                let f = self.pick(ci, gi(o, 2), gi(o, 3), Want::Function);
                let this = self.pick(ci, gi(o, 4), gi(o, 5), Want::Any);
                self.pin(&f);
                self.pin(&this);
                let (mut args, slots) = self.collect_args(ci, o, 7);
                let argsnull = gi(o, 6) == 1;
                if let Some(i) = ci {
                    self.mutated(i);
                }
                let ex = if ci.is_none() || f.slot.is_none() {
                    Expect::MustFail
                } else {
                    let k = self.vals.borrow()[f.slot.unwrap_or(0)].kind;
                    if matches!(k, Kind::Obj | Kind::Func) { Expect::Either } else { Expect::MustFail }
                };
                for s in &slots {
                    self.note_crossing(*s);
                }
                // calling the handle tsrun_native_function returned must run exactly that function's callback
                let native = match (ci, f.slot, f.right) {
                    (Some(_), Some(s), true) => self.vals.borrow()[s].native,
                    _ => None,
                };
                let saved_expect = self.expect_cb.get();
                if let Some(k) = native {
                    self.expect_cb.set(Some((self.depth.get() + 1, k)));
                }
                self.pre("tsrun_call", ci);
                let r = unsafe { tsrun_call(self.ctx_ptr(ci), f.ptr, this.ptr, if argsnull { ptr::null_mut() } else { args.as_mut_ptr() }, args.len()) };
                if native.is_some() {
                    if self.expect_cb.get().is_some() && !r.error.is_null() {
                        let msg = read_cstr(r.error).map(|b| String::from_utf8_lossy(&b).to_string()).unwrap_or_default();
                        self.set_fail("c17:native-function-not-callable", format!("tsrun_call on a handle made by tsrun_native_function never reached the callback: {:?}", msg));
                    }
                    self.expect_cb.set(saved_expect);
                }
                let p = self.check_vr("tsrun_call", ci, r, ex);
                if let Some(i) = ci {
                    let slot = self.reg_val(p, i, false, 0, false, false, None);
                    self.note_crossing(slot);
                }
            }
            "call_method" => {
                // [c, om, os, method, argsnull, n, (am, as)*n]
                let ci = self.ctx_of(gi(o, 1));
                let obj = self.pick(ci, gi(o, 2), gi(o, 3), Want::Object);
                self.pin(&obj);
                let m = CArg::from_table(&METHODS, gi(o, 4));
                let (mut args, slots) = self.collect_args(ci, o, 6);
                let argsnull = gi(o, 5) == 1;
                if let Some(i) = ci {
                    self.mutated(i);
                }
                for s in &slots {
                    self.note_crossing(*s);
                }
                self.pre("tsrun_call_method", ci);
                let r = unsafe { tsrun_call_method(self.ctx_ptr(ci), obj.ptr, m.ptr(), if argsnull { ptr::null_mut() } else { args.as_mut_ptr() }, args.len()) };
                let p = self.check_vr("tsrun_call_method", ci, r, if ci.is_some() && obj.right && m.valid() { Expect::Either } else { Expect::MustFail });
                if let Some(i) = ci {
                    let slot = self.reg_val(p, i, false, 0, false, false, None);
                    self.note_crossing(slot);
                }
            }
            "get_global" | "get_export" => {
                let ci = self.ctx_of(gi(o, 1));
                let n = if name == "get_global" { CArg::from_table(&GLOBALS, gi(o, 2)) } else { CArg::from_table(&EXPORTS, gi(o, 2)) };
                let ex = if ci.is_some() && n.valid() { Expect::MustOk } else { Expect::MustFail };
                let r = if name == "get_global" {
                    self.pre("tsrun_get_global", ci);
                    unsafe { tsrun_get_global(self.ctx_ptr(ci), n.ptr()) }
                } else {
                    self.pre("tsrun_get_export", ci);
                    unsafe { tsrun_get_export(self.ctx_ptr(ci), n.ptr()) }
                };
                let p = self.check_vr(name, ci, r, ex);
                if let Some(i) = ci {
                    let slot = self.reg_val(p, i, false, 0, false, false, None);
                    self.note_crossing(slot);
                    if let (true, Some(nm), Some(_)) = (name == "get_global", n.as_str(), slot) {
                        let exp = self.ctxs.borrow()[i].expect_globals.get(nm).cloned();
                        if let (Some(exp), false) = (exp, nm.starts_with("__")) {
                            let got = self.json_of(i, p);
                            self.shadow_compare(&format!("global {:?}", nm), &exp, got);
                        }
                    }
                }
            }
            "set_global" => {
                let ci = self.ctx_of(gi(o, 1));
                let n = CArg::from_table(&GLOBALS, gi(o, 2));
                let v = self.pick(ci, gi(o, 3), gi(o, 4), Want::Any);
                let valid = ci.is_some() && n.valid() && v.slot.is_some();
                self.pre("tsrun_set_global", ci);
                let r = unsafe { tsrun_set_global(self.ctx_ptr(ci), n.ptr(), v.ptr) };
                let ok = self.check_r("tsrun_set_global", ci, r, if valid { Expect::MustOk } else { Expect::MustFail });
                if let (true, Some(i), Some(nm)) = (ok && valid, ci, n.as_str()) {
                    self.note_crossing(v.slot);
                    self.ctxs.borrow_mut()[i].expect_globals.remove(nm);
                    if nm.starts_with('h') {
                        if let Some(j) = self.json_of(i, v.ptr) {
                            self.ctxs.borrow_mut()[i].expect_globals.insert(nm.to_string(), j);
                        }
                    }
                }
            }
            "export_names" => {
                let ci = self.ctx_of(gi(o, 1));
                let mut count: usize = 0xDEAD;
                let cp: *mut usize = if gi(o, 2) == 1 { ptr::null_mut() } else { &mut count };
                self.pre("tsrun_get_export_names", ci);
                let arr = unsafe { tsrun_get_export_names(self.ctx_ptr(ci), cp) };
                self.take_string_array("tsrun_get_export_names", arr, if cp.is_null() { None } else { Some(count) }, ci.is_some());
            }
            "native" => {
                // [c, name, spec, arity]
                let ci = self.ctx_of(gi(o, 1));
                let n = CArg::from_table(&GLOBALS, gi(o, 2));
                let ud = (gi(o, 3).max(0) as usize + 1) as *mut c_void;
                self.pre("tsrun_native_function", ci);
                let r = unsafe { tsrun_native_function(self.ctx_ptr(ci), n.ptr(), cb_dispatch, gi(o, 4).clamp(0, 5) as usize, ud) };
                let ex = if ci.is_none() || matches!(n, CArg::Bad) { Expect::MustFail } else { Expect::MustOk };
                let p = self.check_vr("tsrun_native_function", ci, r, ex);
                if let Some(i) = ci {
                    if let Some(s) = self.reg_val(p, i, false, 0, false, false, None) {
                        self.vals.borrow_mut()[s].native = Some(gi(o, 3).max(0) as usize);
                    }
                }
            }
            "mod_new" => {
                let s = CArg::from_table(&MOD_SPECS, gi(o, 1));
                self.pre("tsrun_internal_module_new", None);
                let m = unsafe { tsrun_internal_module_new(s.ptr()) };
                if m.is_null() == s.valid() {
                    self.set_fail(if s.valid() { "c17:valid-call-rejected" } else { "c17:misuse-not-reported" }, format!("tsrun_internal_module_new returned {} for a {} specifier", if m.is_null() { "NULL" } else { "a module" }, if s.valid() { "valid" } else { "NULL / invalid" }));
                }
                if !m.is_null() {
                    self.mods.borrow_mut().push(ModSlot { ptr: m, ctx: None, used: false });
                }
            }
            "mod_addf" | "mod_addv" | "mod_reg" => self.op_module(name, o),
            "pending_order" => {
                let ci = self.ctx_of(gi(o, 1));
                let v = self.pick(ci, gi(o, 2), gi(o, 3), Want::Any);
                let mut id: u64 = 0;
                let idp: *mut u64 = if gi(o, 4) == 1 { ptr::null_mut() } else { &mut id };
                self.pre("tsrun_create_pending_order", ci);
                let r = unsafe { tsrun_create_pending_order(self.ctx_ptr(ci), v.ptr, idp) };
                let p = self.check_vr("tsrun_create_pending_order", ci, r, if ci.is_some() { Expect::MustOk } else { Expect::MustFail });
                if let Some(i) = ci {
                    self.note_crossing(v.slot);
                    let _ = self.reg_val(p, i, false, 0, false, true, None);
                    if !idp.is_null() {
                        let mut c = self.ctxs.borrow_mut();
                        c[i].last_order_id = c[i].last_order_id.max(id);
                    }
                }
            }
            "order_promise" => {
                let ci = self.ctx_of(gi(o, 1));
                let id = match (gi(o, 2), ci) {
                    (0, Some(i)) => self.ctxs.borrow()[i].last_order_id,
                    (k, _) => k as u64,
                };
                self.pre("tsrun_create_order_promise", ci);
                let r = unsafe { tsrun_create_order_promise(self.ctx_ptr(ci), id) };
                let p = self.check_vr("tsrun_create_order_promise", ci, r, if ci.is_some() { Expect::MustOk } else { Expect::MustFail });
                if let Some(i) = ci {
                    let _ = self.reg_val(p, i, false, 0, true, false, None);
                }
            }
            "resolve" | "reject" => {
                let ci = self.ctx_of(gi(o, 1));
                let pr = self.pick(ci, gi(o, 2), gi(o, 3), Want::Promise);
                self.pin(&pr);
                let objectish = pr.slot.map(|s| self.is_objectish(s)).unwrap_or(false);
                let not_promise_kind = pr.slot.map(|s| matches!(self.vals.borrow()[s].kind, Kind::Arr | Kind::Func)).unwrap_or(false);
                let ex = if ci.is_none() || !objectish || not_promise_kind { Expect::MustFail } else if pr.right { Expect::MustOk } else { Expect::Either };
                if let Some(i) = ci {
                    self.mutated(i);
                }
                if name == "resolve" {
                    let v = self.pick(ci, gi(o, 4), gi(o, 5), Want::Any);
                    self.pin(&v);
                    self.note_crossing(v.slot);
                    self.pre("tsrun_resolve_promise", ci);
                    let r = unsafe { tsrun_resolve_promise(self.ctx_ptr(ci), pr.ptr, v.ptr) };
                    self.check_r("tsrun_resolve_promise", ci, r, ex);
                } else {
                    let e = CArg::from_table(&ERRS, gi(o, 4));
                    self.pre("tsrun_reject_promise", ci);
                    let r = unsafe { tsrun_reject_promise(self.ctx_ptr(ci), pr.ptr, e.ptr()) };
                    self.check_r("tsrun_reject_promise", ci, r, ex);
                }
            }
            "gcburst" => {
                if let Some(i) = self.ctx_of(gi(o, 1)) {
                    self.force_gc(i, gi(o, 2) == 1);
                }
            }
            "pressure" => {
                let n = [0usize, 1, 2, 10][(gi(o, 1).max(0) as usize) % 4];
                self.pressure.set(n);
                tsrun::verif_hooks::gc_threshold_override_set(n);
                if n > 0 {
                    self.tag("gc:pressure");
                }
            }
            _ => return false,
        }
        true
    }

    fn op_module(&self, name: &str, o: &[Value]) {
        // module selector: -1 = NULL module
        let msel = gi(o, if name == "mod_reg" { 2 } else { 1 });
        let mi: Option<usize> = if msel < 0 {
            None
        } else {
            let m = self.mods.borrow();
            let cand: Vec<usize> = (0..m.len()).filter(|i| !m[*i].used).collect();
            if cand.is_empty() {
                None
            } else if msel == 99 {
                cand.last().copied() // the builder made last
            } else {
                Some(cand[(msel as usize) % cand.len()])
            }
        };
        let mp = mi.map(|i| self.mods.borrow()[i].ptr).unwrap_or(ptr::null_mut());
        match name {
            "mod_addf" => {
                let n = CArg::from_table(&MOD_NAMES, gi(o, 2));
                let ud = (gi(o, 3).max(0) as usize + 1) as *mut c_void;
                self.pre("tsrun_internal_module_add_function", None);
                unsafe { tsrun_internal_module_add_function(mp, n.ptr(), cb_dispatch, gi(o, 4).clamp(0, 5) as usize, ud) };
            }
            "mod_addv" => {
                // [m, name, vm, vs, c]: the module takes the handle over; it must later be registered with the value's context
                let ci = self.ctx_of(gi(o, 5));
                let bound = mi.and_then(|i| self.mods.borrow()[i].ctx);
                let ci = match (bound, ci) {
                    (Some(b), _) => Some(b),
                    (None, c) => c,
                };
                if let Some(c) = ci {
                    if !self.ctxs.borrow()[c].alive {
                        return;
                    }
                }
                let n = CArg::from_table(&MOD_NAMES, gi(o, 2));
                let mut v = self.pick(ci, gi(o, 3), gi(o, 4), Want::Any);
                if let Some(s) = v.slot {
                    let vals = self.vals.borrow();
                    if vals[s].borrowed || self.pins.borrow().contains(&s) {
                        // not the host's to give away
                        v = Picked { ptr: ptr::null_mut(), slot: None, right: false };
                    }
                }
                self.pre("tsrun_internal_module_add_value", None);
                unsafe { tsrun_internal_module_add_value(mp, n.ptr(), v.ptr) };
                if let (Some(i), Some(s), true) = (mi, v.slot, n.valid()) {
                    self.vals.borrow_mut()[s].st = St::Moved;
                    self.mods.borrow_mut()[i].ctx = ci;
                    self.note_crossing(Some(s));
                }
            }
            _ => {
                let ci = self.ctx_of(gi(o, 1));
                // a builder that holds values is tied to their context
                if let (Some(i), Some(c)) = (mi, ci) {
                    if let Some(b) = self.mods.borrow()[i].ctx {
                        if b != c {
                            self.skipped.set(self.skipped.get() + 1);
                            return;
                        }
                    }
                }
                if let (Some(i), None) = (mi, ci) {
                    if self.mods.borrow()[i].ctx.is_some() {
                        return;
                    }
                }
                self.pre("tsrun_register_internal_module", ci);
                let r = unsafe { tsrun_register_internal_module(self.ctx_ptr(ci), mp) };
                let ok = self.check_r("tsrun_register_internal_module", ci, r, if ci.is_some() && mi.is_some() { Expect::MustOk } else { Expect::MustFail });
                if let (Some(i), Some(_)) = (mi, ci) {
                    if ok {
                        self.mods.borrow_mut()[i].used = true;
                    }
                }
            }
        }
    }

    fn op_fulfill(&self, o: &[Value]) {
        // [c, style, a, b, vm, vs]
        let ci = self.ctx_of(gi(o, 1));
        let style = gi(o, 2);
        let a = gi(o, 3).max(0) as usize;
        let b = gi(o, 4);
        let Some(i) = ci else {
            self.pre("tsrun_fulfill_orders", None);
            let r = unsafe { tsrun_fulfill_orders(ptr::null_mut(), ptr::null(), 0) };
            self.check_r("tsrun_fulfill_orders", None, r, Expect::MustFail);
            return;
        };
        let c = self.ctx_ptr(ci);
        if style == 5 || style == 6 {
            self.pre("tsrun_fulfill_orders", ci);
            let r = unsafe { tsrun_fulfill_orders(c, ptr::null(), if style == 5 { 2 } else { 0 }) };
            self.check_r("tsrun_fulfill_orders", ci, r, if style == 5 { Expect::MustFail } else { Expect::MustOk });
            return;
        }
        let pending = std::mem::take(&mut self.ctxs.borrow_mut()[i].pending);
        let orders: Vec<(u64, Option<usize>)> = if pending.is_empty() { vec![(self.ctxs.borrow()[i].last_order_id + 1, None)] } else { pending.iter().map(|p| (p.0, Some(p.1))).collect() };
        let mut responses: Vec<TsRunOrderResponse> = vec![];
        let mut fresh: Vec<*mut TsRunValue> = vec![];
        let err_text = CArg::from_table(&ERRS, (a % ERRS.len()) as i64);
        let mut expectations: Vec<(String, Option<String>)> = vec![];
        for (id, payload) in &orders {
            // which global will the script put the answer into? (the payload's "tag")
            let mut slot_name: Option<String> = None;
            if let Some(ps) = payload {
                let pp = self.vals.borrow()[*ps].ptr;
                if self.is_objectish(*ps) {
                    let k = Exe::cstring("tag");
                    self.pre("tsrun_get", ci);
                    let r = unsafe { tsrun_get(c, pp, k.as_ptr()) };
                    let tv = self.check_vr("tsrun_get", ci, r, Expect::MustOk);
                    if !tv.is_null() {
                        self.pre("tsrun_get_string", None);
                        let s = unsafe { tsrun_get_string(tv) };
                        if let Some(t) = self.reg_str(s as *mut std::ffi::c_char, "the result of tsrun_get_string") {
                            let last = self.strs.borrow().len() - 1;
                            self.free_str_slot(last);
                            // only the tags the programs use for "the answer goes to global __<tag>"
                            if ["r0", "r1", "r2"].contains(&t.as_str()) {
                                slot_name = Some(format!("__{}", t));
                            }
                        }
                        self.pre("tsrun_value_free", None);
                        unsafe { tsrun_value_free(tv) };
                    }
                }
            }
            macro_rules! push_value {
                ($p:expr, $rid:expr, $record:expr) => {{
                    let p: *mut TsRunValue = $p;
                    responses.push(TsRunOrderResponse { id: $rid, value: p, error: ptr::null() });
                    if let Some(n) = &slot_name {
                        let j = if $record && !p.is_null() { self.json_of(i, p) } else { None };
                        expectations.push((n.clone(), j));
                    }
                }};
            }
            match style {
                1 => {
                    let v = self.pick(ci, gi(o, 5), gi(o, 6), Want::Any);
                    self.note_crossing(v.slot);
                    let marker = v.slot.map(|s| self.vals.borrow()[s].marker).unwrap_or(false);
                    push_value!(v.ptr, *id, !marker);
                }
                2 | 7 => {
                    responses.push(TsRunOrderResponse { id: *id, value: ptr::null_mut(), error: if style == 7 { NOT_UTF8.as_ptr() as *const std::ffi::c_char } else { err_text.ptr() } });
                    if let Some(n) = &slot_name {
                        expectations.push((n.clone(), None));
                    }
                }
                3 => push_value!(ptr::null_mut(), *id, false),
                _ => {
                    // a fresh object / array built for this answer
                    let text = match style {
                        9 => "[{\"inner\":[1,2,3]},\"x\"]".to_string(),
                        _ => JSONS[[0usize, 5, 6, 7, 1][a % 5]].to_string(),
                    };
                    let t = Exe::cstring(&text);
                    self.pre("tsrun_json_parse", ci);
                    let r = unsafe { tsrun_json_parse(c, t.as_ptr()) };
                    let p = self.check_vr("tsrun_json_parse", ci, r, Expect::MustOk);
                    if p.is_null() {
                        continue;
                    }
                    fresh.push(p);
                    self.flags.borrow_mut().obj_crossed = true;
                    if style == 8 {
                        self.pre("tsrun_number", ci);
                        let n = unsafe { tsrun_number(c, 7.0) };
                        fresh.push(n);
                        responses.push(TsRunOrderResponse { id: *id, value: n, error: ptr::null() });
                    }
                    let rid = if style == 4 { *id + 1000 } else { *id };
                    push_value!(p, rid, style != 4);
                    if style == 4 {
                        // nobody answered the real order: it stays pending
                        if let Some(ps) = payload {
                            self.ctxs.borrow_mut()[i].pending.push((*id, *ps));
                        }
                        expectations.pop();
                    }
                }
            }
        }
        // the script fills "__<tag>" after it got the answer: clear the slot so that an old value is never compared
        for (n, _) in &expectations {
            let nm = Exe::cstring(n);
            self.pre("tsrun_undefined", ci);
            let u = unsafe { tsrun_undefined(c) };
            self.pre("tsrun_set_global", ci);
            let r = unsafe { tsrun_set_global(c, nm.as_ptr(), u) };
            self.check_r("tsrun_set_global", ci, r, Expect::MustOk);
            self.pre("tsrun_value_free", None);
            unsafe { tsrun_value_free(u) };
        }
        self.pre("tsrun_fulfill_orders", ci);
        let r = unsafe { tsrun_fulfill_orders(c, responses.as_ptr(), responses.len()) };
        self.check_r("tsrun_fulfill_orders", ci, r, Expect::MustOk);
        {
            let mut cs = self.ctxs.borrow_mut();
            for (n, j) in expectations {
                match j {
                    Some(j) => {
                        cs[i].expect_globals.insert(n, j);
                    }
                    None => {
                        cs[i].expect_globals.remove(&n);
                    }
                }
            }
        }
        if b & 2 == 0 {
            // the scenario the property names: responses released right after being submitted
            for p in fresh {
                self.pre("tsrun_value_free", None);
                unsafe { tsrun_value_free(p) };
            }
            self.flags.borrow_mut().had_release = true;
            if !orders.is_empty() {
                self.tag("release:response-right-after-fulfill");
            }
        } else {
            for p in fresh {
                let _ = self.reg_val(p, i, false, 0, false, false, None);
            }
        }
        if b & 1 == 1 {
            self.force_gc(i, b & 4 == 4);
        }
    }
}
