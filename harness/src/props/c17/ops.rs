//! C17 executor, part 2: helpers shared by all operations (result-struct oracles, handle
//! registration and selection, shadow expectations).

use super::exec::*;
use serde_json::Value;
use std::ffi::{c_char, CString};
use std::ptr;
use tsrun::ffi::{TsRunContext, TsRunResult, TsRunType, TsRunValue, TsRunValueResult};

#[derive(Clone, Copy, PartialEq, Eq, Debug)]
pub enum Expect {
    MustFail,
    MustOk,
    Either,
}

pub fn gi(o: &[Value], k: usize) -> i64 {
    o.get(k).and_then(|v| v.as_i64()).unwrap_or(0)
}
pub fn gs(o: &[Value], k: usize) -> &str {
    o.get(k).and_then(|v| v.as_str()).unwrap_or("")
}

pub struct Picked {
    pub ptr: *mut TsRunValue,
    pub slot: Option<usize>,
    /// the selected value satisfies what the function documents for this parameter
    pub right: bool,
}

impl Exe {
    // ---- context in effect -------------------------------------------------------------------
    /// Context an op addresses: at top level a live context chosen by the selector (-1 = NULL);
    /// inside a native callback always the context the callback was invoked with (-1 = NULL).
    pub fn ctx_of(&self, sel: i64) -> Option<usize> {
        if sel < 0 {
            return None;
        }
        if let Some(ci) = self.cb_ctx.borrow().last().copied() {
            return Some(ci);
        }
        self.live_ctx(sel)
    }

    // ---- result structs ----------------------------------------------------------------------
    pub fn check_vr(&self, name: &str, ci: Option<usize>, r: TsRunValueResult, ex: Expect) -> *mut TsRunValue {
        let v = !r.value.is_null();
        let e = !r.error.is_null();
        if v == e {
            self.set_fail("c17:inconsistent-value-result", format!("{} returned value {} and error {} (exactly one must be set)", name, if v { "non-NULL" } else { "NULL" }, if e { "non-NULL" } else { "NULL" }));
            if e {
                let _ = self.borrowed_str(ci, r.error, "the error string");
            }
            return r.value;
        }
        if e {
            let _ = self.borrowed_str(ci, r.error, &format!("the error string of {}", name));
            if ex == Expect::MustOk {
                let msg = read_cstr(r.error).map(|b| String::from_utf8_lossy(&b).to_string()).unwrap_or_default();
                self.set_fail("c17:valid-call-rejected", format!("{} failed on valid arguments: {:?}", name, msg));
            }
        } else if ex == Expect::MustFail {
            self.set_fail("c17:misuse-not-reported", format!("{} succeeded although an argument was NULL / invalid / of the wrong kind", name));
        }
        r.value
    }
    pub fn check_r(&self, name: &str, ci: Option<usize>, r: TsRunResult, ex: Expect) -> bool {
        let e = !r.error.is_null();
        if r.ok == e {
            self.set_fail("c17:inconsistent-result", format!("{} returned ok={} with error {} (ok xor error)", name, r.ok, if e { "non-NULL" } else { "NULL" }));
            if e {
                let _ = self.borrowed_str(ci, r.error, "the error string");
            }
            return r.ok;
        }
        if e {
            let _ = self.borrowed_str(ci, r.error, &format!("the error string of {}", name));
            if ex == Expect::MustOk {
                let msg = read_cstr(r.error).map(|b| String::from_utf8_lossy(&b).to_string()).unwrap_or_default();
                self.set_fail("c17:valid-call-rejected", format!("{} failed on valid arguments: {:?}", name, msg));
            }
        } else if ex == Expect::MustFail {
            self.set_fail("c17:misuse-not-reported", format!("{} succeeded although an argument was NULL / invalid / of the wrong kind", name));
        }
        r.ok
    }

    // ---- value handles -----------------------------------------------------------------------
    /// Register a handle returned by the API; classifies it with the API's own inspectors.
    pub fn reg_val(&self, p: *mut TsRunValue, ci: usize, borrowed: bool, frame: u32, promise: bool, marker: bool, text: Option<String>) -> Option<usize> {
        if p.is_null() {
            return None;
        }
        self.pre("tsrun_typeof", None);
        let t = unsafe { tsrun_typeof(p) };
        let kind = match t {
            TsRunType::Undefined => Kind::Undef,
            TsRunType::Null => Kind::Null,
            TsRunType::Boolean => Kind::Bool,
            TsRunType::Number => Kind::Num,
            TsRunType::String => Kind::Str,
            TsRunType::Symbol => Kind::Sym,
            TsRunType::Object => {
                self.pre("tsrun_is_array", None);
                if unsafe { tsrun_is_array(p) } {
                    Kind::Arr
                } else {
                    self.pre("tsrun_is_function", None);
                    if unsafe { tsrun_is_function(p) } {
                        Kind::Func
                    } else {
                        Kind::Obj
                    }
                }
            }
        };
        let mut v = self.vals.borrow_mut();
        v.push(ValSlot { ptr: p, ctx: ci, st: St::Live, borrowed, kind, promise, marker, frame, born: self.depth.get(), text, native: None });
        Some(v.len() - 1)
    }
    pub fn is_objectish(&self, slot: usize) -> bool {
        matches!(self.vals.borrow()[slot].kind, Kind::Obj | Kind::Arr | Kind::Func)
    }
    pub fn note_crossing(&self, slot: Option<usize>) {
        if let Some(s) = slot {
            if self.is_objectish(s) {
                self.flags.borrow_mut().obj_crossed = true;
            }
        }
    }

    /// Select a value argument. mode 0 = a live handle of the documented kind (falls back to any
    /// live handle, then NULL), 1 = any live handle, 2 = NULL, 3 = a live handle of a wrong kind.
    pub fn pick(&self, ci: Option<usize>, mode: i64, sel: i64, want: Want) -> Picked {
        let null = Picked { ptr: ptr::null_mut(), slot: None, right: false };
        let Some(ci) = ci else {
            // no context: there is nothing this value could belong to; NULL keeps contexts unmixed
            return null;
        };
        if mode == 2 {
            self.tag("arg:null");
            return null;
        }
        let vals = self.vals.borrow();
        let live: Vec<usize> = (0..vals.len()).filter(|i| vals[*i].st == St::Live && vals[*i].ctx == ci).collect();
        let right: Vec<usize> = live.iter().copied().filter(|i| want_matches(want, &vals[*i])).collect();
        let wrong: Vec<usize> = live.iter().copied().filter(|i| !want_matches(want, &vals[*i])).collect();
        let last_right: Vec<usize> = right.last().copied().into_iter().collect();
        let pool = match mode {
            4 if !right.is_empty() => &last_right,
            0 if !right.is_empty() => &right,
            3 if !wrong.is_empty() => &wrong,
            3 => return null,
            _ => &live,
        };
        if pool.is_empty() {
            return null;
        }
        let s = pool[(sel.max(0) as usize) % pool.len()];
        let ok = want_matches(want, &vals[s]);
        if !ok {
            drop(vals);
            self.tag("arg:wrong-kind");
            let vals = self.vals.borrow();
            return Picked { ptr: vals[s].ptr, slot: Some(s), right: false };
        }
        Picked { ptr: vals[s].ptr, slot: Some(s), right: true }
    }
    pub fn pin(&self, p: &Picked) {
        if let Some(s) = p.slot {
            self.pins.borrow_mut().push(s);
        }
    }

    // ---- owned strings -----------------------------------------------------------------------
    /// A `char*` the caller owns: read it in full, validate, remember the bytes for the re-check
    /// at release time.
    pub fn reg_str(&self, p: *mut c_char, what: &str) -> Option<String> {
        if p.is_null() {
            return None;
        }
        match read_cstr(p) {
            Ok(b) => {
                let s = String::from_utf8_lossy(&b).to_string();
                self.strs.borrow_mut().push(StrSlot { ptr: p, snap: b, freed: false });
                Some(s)
            }
            Err(e) => {
                self.set_fail("c17:string-invalid", format!("{} is not a valid NUL-terminated UTF-8 string: {}", what, e));
                None
            }
        }
    }
    pub fn free_str_slot(&self, i: usize) {
        let (p, snap) = {
            let mut s = self.strs.borrow_mut();
            s[i].freed = true;
            (s[i].ptr, s[i].snap.clone())
        };
        match read_cstr(p) {
            Ok(b) if b == snap => {}
            other => self.set_fail("c17:owned-string-changed", format!("a caller-owned string changed before it was released: was {:?}, now {:?}", String::from_utf8_lossy(&snap), other)),
        }
        self.pre("tsrun_free_string", None);
        unsafe { tsrun_free_string(p) };
        self.flags.borrow_mut().had_release = true;
    }
    /// JSON text of a value through the API (string released at once); None when the API declines
    pub fn json_of(&self, ci: usize, p: *mut TsRunValue) -> Option<String> {
        let c = self.ctx_ptr(Some(ci));
        self.pre("tsrun_json_stringify", Some(ci));
        let s = unsafe { tsrun_json_stringify(c, p) };
        let r = self.reg_str(s, "the result of tsrun_json_stringify");
        if !s.is_null() {
            let i = self.strs.borrow().len() - 1;
            if r.is_some() {
                self.free_str_slot(i);
            }
        }
        r
    }

    // ---- shadow model ------------------------------------------------------------------------
    /// Some object of the context may have been changed through an alias: forget what we expect
    pub fn mutated(&self, ci: usize) {
        let mut c = self.ctxs.borrow_mut();
        c[ci].expect_globals.clear();
        c[ci].expect_props.clear();
    }
    pub fn shadow_compare(&self, what: &str, expected: &str, got: Option<String>) {
        self.shadow_checks.set(self.shadow_checks.get() + 1);
        match got {
            Some(g) if g == expected => {}
            g => self.set_fail("c17:shadow-mismatch", format!("{}: the host stored {} but reads back {:?}", what, expected, g)),
        }
    }

    pub fn cstring(s: &str) -> CString {
        CString::new(s).unwrap_or_default()
    }
    pub fn raw_ctx(&self, ci: Option<usize>) -> *mut TsRunContext {
        self.ctx_ptr(ci)
    }
}
